//! C06, second part — the attribute-level codecs (`view` / `page` / `prot` request families).
//!
//! A case `c06 reset vpp <seed>` builds a small workbook whose sheet views (pane, selections), page setup,
//! margins, print options, header / footer, sheet protection, tab colour, defined-name attributes, workbook
//! protection and active tab are set through the PUBLIC setters from generated values (every enum
//! constructor, every flag absent / false / true independently, boundary numbers, texts with `&L&"Arial"`
//! codes, XML-special characters, control characters and blanks at the ends), saves it, reloads it and saves
//! the reloaded workbook again.  For every kind one request line goes to the Lean model:
//!
//!   c06 <family> <kind> <the value as set, with which fields have a value> <raw element of save 1> <raw element of save 2>
//!
//! and the harness's own reply is `w=ok;r=<getters of the reloaded workbook>;w2=ok`.  The driver lexes the raw
//! elements with the independent XML reader and answers `w=ok` iff the real element is tree-equal (up to
//! attribute order) to `write x` of the model, `r=` the model's `read` of the REAL element rendered the same
//! way, `w2=ok` iff the element of the second save is `write (read ..)`.
//! Oracle on the implementation (independent of the model): the getters after reload equal what was set.
use crate::common::*;
use crate::wb;
use umya_spreadsheet::structs::*;

pub const FLAGS: [&str; 16] = [
    "sheet", "objects", "deleteRows", "insertColumns", "deleteColumns", "insertHyperlinks", "autoFilter", "scenarios", "formatCells", "formatColumns", "insertRows", "formatRows", "pivotTables",
    "selectLockedCells", "selectUnlockedCells", "sort",
];

fn set_flag(p: &mut SheetProtection, i: usize, v: bool) {
    match i {
        0 => p.set_sheet(v),
        1 => p.set_objects(v),
        2 => p.set_delete_rows(v),
        3 => p.set_insert_columns(v),
        4 => p.set_delete_columns(v),
        5 => p.set_insert_hyperlinks(v),
        6 => p.set_auto_filter(v),
        7 => p.set_scenarios(v),
        8 => p.set_format_cells(v),
        9 => p.set_format_columns(v),
        10 => p.set_insert_rows(v),
        11 => p.set_format_rows(v),
        12 => p.set_pivot_tables(v),
        13 => p.set_select_locked_cells(v),
        14 => p.set_select_unlocked_cells(v),
        _ => p.set_sort(v),
    };
}

fn get_flag(p: &SheetProtection, i: usize) -> bool {
    *match i {
        0 => p.get_sheet(),
        1 => p.get_objects(),
        2 => p.get_delete_rows(),
        3 => p.get_insert_columns(),
        4 => p.get_delete_columns(),
        5 => p.get_insert_hyperlinks(),
        6 => p.get_auto_filter(),
        7 => p.get_scenarios(),
        8 => p.get_format_cells(),
        9 => p.get_format_columns(),
        10 => p.get_insert_rows(),
        11 => p.get_format_rows(),
        12 => p.get_pivot_tables(),
        13 => p.get_select_locked_cells(),
        14 => p.get_select_unlocked_cells(),
        _ => p.get_sort(),
    }
}

// ---------------------------------------------------------------- field encodings (see Umya/Driver/C06View.lean)

fn o_text(v: &Option<String>) -> String {
    match v {
        Some(s) => format!("={}", hex(s)),
        None => "~".into(),
    }
}
fn o_u32(v: &Option<u32>) -> String {
    match v {
        Some(n) => n.to_string(),
        None => "~".into(),
    }
}
fn o_bool(v: &Option<bool>) -> String {
    match v {
        Some(true) => "1".into(),
        Some(false) => "0".into(),
        None => "~".into(),
    }
}
fn o_f64(v: &Option<f64>) -> String {
    match v {
        Some(x) => x.to_string(),
        None => "~".into(),
    }
}
fn o_str(v: &Option<&'static str>) -> String {
    v.map(|s| s.to_string()).unwrap_or("~".into())
}
fn b01(b: bool) -> &'static str {
    if b {
        "1"
    } else {
        "0"
    }
}

const TEXTS: &[&str] = &[
    "", "SHA-512", "q1+a/bcd==", "c2FsdA==", "CC1A", "a&b<c>d\"e'f", " lead", "trail ", "tab\there", "line\nfeed", "cr\rhere", "é€𝄞", "&amp;", "]]>", "x  y", "TRUE", "-0", "1e5",
];
const U32S: &[u32] = &[0, 1, 5, 9, 100, 100000, 65535, 4294967295, 4294967294];
const F64S: &[f64] = &[0.0, 1.0, 0.25, 0.7086614173228347, 0.31496062992125984, 2.0, 1234.5, 3600.0, 0.1, 1e-7, 1e21, 123456789.125, -0.25, -0.0999786370433668, 0.5];

fn g_text(rng: &mut Rng) -> Option<String> {
    if rng.chance(1, 3) {
        None
    } else {
        Some(rng.pick(TEXTS).to_string())
    }
}
fn g_u32(rng: &mut Rng) -> Option<u32> {
    if rng.chance(1, 3) {
        None
    } else {
        Some(*rng.pick(U32S))
    }
}
fn g_bool(rng: &mut Rng) -> Option<bool> {
    match rng.below(3) {
        0 => None,
        1 => Some(false),
        _ => Some(true),
    }
}
fn g_f64(rng: &mut Rng) -> Option<f64> {
    if rng.chance(1, 4) {
        None
    } else {
        Some(*rng.pick(F64S))
    }
}

// ---------------------------------------------------------------- raw elements

/// the raw text of the first element `name` of a part: `<name …/>` or `<name …>…</name>`
pub fn element_raw<'a>(xml: &'a str, name: &str) -> Option<&'a str> {
    let open = format!("<{}", name);
    let mut from = 0;
    while let Some(i) = xml[from..].find(&open) {
        let s = from + i;
        let after = &xml[s + open.len()..];
        if !(after.starts_with(' ') || after.starts_with('>') || after.starts_with('/')) {
            from = s + open.len();
            continue;
        }
        let gt = after.find('>')?;
        if after[..gt].ends_with('/') {
            return Some(&xml[s..s + open.len() + gt + 1]);
        }
        let close = format!("</{}>", name);
        let e = xml[s..].find(&close)?;
        return Some(&xml[s..s + e + close.len()]);
    }
    None
}

fn raw_hex(x: Option<&str>) -> String {
    match x {
        Some(s) => hex(s),
        None => "-".into(),
    }
}

fn part<'a>(parts: &'a [(String, Vec<u8>)], name: &str) -> &'a str {
    parts.iter().find(|(n, _)| n == name).and_then(|(_, d)| std::str::from_utf8(d).ok()).unwrap_or("")
}

// ---------------------------------------------------------------- model values

#[derive(Clone, Default)]
struct SpV {
    alg: Option<String>,
    hash: Option<String>,
    salt: Option<String>,
    spin: Option<u32>,
    pw: Option<String>,
    flags: [Option<bool>; 16],
}

impl SpV {
    fn gen(rng: &mut Rng, out: &mut Out) -> SpV {
        let mut v = SpV { alg: g_text(rng), hash: g_text(rng), salt: g_text(rng), spin: g_u32(rng), pw: g_text(rng), ..Default::default() };
        // every flag independently absent / false / true; sometimes exactly one flag, sometimes all
        let mode = rng.below(4);
        let one = rng.below(16) as usize;
        for i in 0..16 {
            v.flags[i] = match mode {
                0 => {
                    if i == one {
                        Some(rng.chance(1, 2))
                    } else {
                        None
                    }
                }
                1 => Some(rng.chance(1, 2)),
                _ => g_bool(rng),
            };
            out.count(&format!("vpp.flag.{}.{}", FLAGS[i], o_bool(&v.flags[i])));
        }
        v
    }
    fn apply(&self, p: &mut SheetProtection) {
        if let Some(s) = &self.alg {
            p.set_algorithm_name(s.clone());
        }
        if let Some(s) = &self.hash {
            p.set_hash_value(s.clone());
        }
        if let Some(s) = &self.salt {
            p.set_salt_value(s.clone());
        }
        if let Some(n) = self.spin {
            p.set_spin_count(n);
        }
        if let Some(s) = &self.pw {
            p.set_password_raw(s.clone());
        }
        for i in 0..16 {
            if let Some(b) = self.flags[i] {
                set_flag(p, i, b);
            }
        }
    }
    fn spec(&self) -> String {
        let mut v = vec![o_text(&self.alg), o_text(&self.hash), o_text(&self.salt), o_u32(&self.spin), o_text(&self.pw)];
        v.extend(self.flags.iter().map(o_bool));
        v.join(",")
    }
    fn getters_set(&self) -> String {
        format!(
            "{},{},{},{},{},{}",
            hex(self.alg.as_deref().unwrap_or("")),
            hex(self.hash.as_deref().unwrap_or("")),
            hex(self.salt.as_deref().unwrap_or("")),
            self.spin.unwrap_or(0),
            hex(self.pw.as_deref().unwrap_or("")),
            self.flags.iter().map(|f| b01(f.unwrap_or(false))).collect::<String>()
        )
    }
}

fn sp_getters(p: &SheetProtection) -> String {
    format!(
        "{},{},{},{},{},{}",
        hex(p.get_algorithm_name()),
        hex(p.get_hash_value()),
        hex(p.get_salt_value()),
        p.get_spin_count(),
        hex(p.get_password_raw()),
        (0..16).map(|i| b01(get_flag(p, i))).collect::<String>()
    )
}

#[derive(Clone, Default)]
struct WpV {
    t: [Option<String>; 8], // alg hash salt pw (workbook), alg hash salt pw (revisions)
    wspin: Option<u32>,
    rspin: Option<u32>,
    f: [Option<bool>; 3], // lockRevision lockStructure lockWindows
}

impl WpV {
    fn gen(rng: &mut Rng, out: &mut Out) -> WpV {
        let mut v = WpV::default();
        for i in 0..8 {
            v.t[i] = g_text(rng);
        }
        v.wspin = g_u32(rng);
        v.rspin = g_u32(rng);
        for i in 0..3 {
            v.f[i] = g_bool(rng);
            out.count(&format!("vpp.wbflag.{}.{}", ["lockRevision", "lockStructure", "lockWindows"][i], o_bool(&v.f[i])));
        }
        v
    }
    fn apply(&self, p: &mut WorkbookProtection) {
        let t = &self.t;
        if let Some(s) = &t[0] {
            p.set_workbook_algorithm_name(s.clone());
        }
        if let Some(s) = &t[1] {
            p.set_workbook_hash_value(s.clone());
        }
        if let Some(s) = &t[2] {
            p.set_workbook_salt_value(s.clone());
        }
        if let Some(s) = &t[3] {
            p.set_workbook_password_raw(s.clone());
        }
        if let Some(s) = &t[4] {
            p.set_revisions_algorithm_name(s.clone());
        }
        if let Some(s) = &t[5] {
            p.set_revisions_hash_value(s.clone());
        }
        if let Some(s) = &t[6] {
            p.set_revisions_salt_value(s.clone());
        }
        if let Some(s) = &t[7] {
            p.set_revisions_password_raw(s.clone());
        }
        if let Some(n) = self.wspin {
            p.set_workbook_spin_count(n);
        }
        if let Some(n) = self.rspin {
            p.set_revisions_spin_count(n);
        }
        if let Some(b) = self.f[0] {
            p.set_lock_revision(b);
        }
        if let Some(b) = self.f[1] {
            p.set_lock_structure(b);
        }
        if let Some(b) = self.f[2] {
            p.set_lock_windows(b);
        }
    }
    fn spec(&self) -> String {
        let t = &self.t;
        [o_text(&t[0]), o_text(&t[1]), o_text(&t[2]), o_u32(&self.wspin), o_text(&t[3]), o_text(&t[4]), o_text(&t[5]), o_text(&t[6]), o_u32(&self.rspin), o_text(&t[7]), o_bool(&self.f[0]), o_bool(&self.f[1]), o_bool(&self.f[2])]
            .join(",")
    }
    fn getters_set(&self) -> String {
        let g = |i: usize| hex(self.t[i].as_deref().unwrap_or(""));
        format!(
            "{},{},{},{},{},{},{},{},{},{},{}{}{}",
            g(0), g(1), g(2), self.wspin.unwrap_or(0), g(3), g(4), g(5), g(6), self.rspin.unwrap_or(0), g(7),
            b01(self.f[0].unwrap_or(false)), b01(self.f[1].unwrap_or(false)), b01(self.f[2].unwrap_or(false))
        )
    }
}

fn wp_getters(p: &WorkbookProtection) -> String {
    format!(
        "{},{},{},{},{},{},{},{},{},{},{}{}{}",
        hex(p.get_workbook_algorithm_name()),
        hex(p.get_workbook_hash_value()),
        hex(p.get_workbook_salt_value()),
        p.get_workbook_spin_count(),
        hex(p.get_workbook_password_raw()),
        hex(p.get_revisions_algorithm_name()),
        hex(p.get_revisions_hash_value()),
        hex(p.get_revisions_salt_value()),
        p.get_revisions_spin_count(),
        hex(p.get_revisions_password_raw()),
        b01(*p.get_lock_revision()),
        b01(*p.get_lock_structure()),
        b01(*p.get_lock_windows())
    )
}

/// tab colour as the setters leave it: at most one of indexed / theme / argb
#[derive(Clone, Default)]
struct TabV {
    indexed: Option<u32>,
    theme: Option<u32>,
    argb: Option<String>,
    tint: Option<f64>,
    /// set the index through `set_argb` with this palette colour (which stores the index) instead of `set_indexed`
    via_argb: Option<&'static str>,
}

impl TabV {
    fn gen(rng: &mut Rng, out: &mut Out) -> Option<TabV> {
        let mut v = TabV::default();
        let k = rng.below(6);
        out.count(&format!("vpp.tab.kind.{}", ["none", "empty-object", "argb", "argb-in-palette", "theme", "indexed"][k as usize]));
        match k {
            0 => return None,
            1 => {}
            2 => v.argb = Some(rng.pick(&["FF00AA55", "80123456", "not a colour &<\"", ""]).to_string()),
            3 => {
                // what `set_argb` does with a palette colour: it stores the (first) index instead
                let (i, c) = *rng.pick(&[(0u32, "FF000000"), (2, "FFFF0000"), (29, "FFFF8080"), (63, "FF333333")]);
                v.indexed = Some(i);
                v.via_argb = Some(c);
            }
            4 => v.theme = Some(*rng.pick(&[0u32, 1, 9, 4294967295])),
            _ => v.indexed = Some(*rng.pick(&[0u32, 7, 64, 81, 4294967295])),
        }
        if rng.chance(1, 2) {
            v.tint = Some(*rng.pick(&[0.5, -0.25, 0.3999, -0.0999786370433668, 0.0, 1.0]));
        }
        Some(v)
    }
    fn apply(&self, ws: &mut Worksheet) {
        let c = ws.get_tab_color_mut();
        if let Some(a) = &self.argb {
            c.set_argb(a.clone());
        }
        if let Some(i) = self.indexed {
            match self.via_argb {
                Some(p) => c.set_argb(p),
                None => c.set_indexed(i),
            };
        }
        if let Some(t) = self.theme {
            c.set_theme_index(t);
        }
        if let Some(t) = self.tint {
            c.set_tint(t);
        }
    }
    fn spec(v: &Option<TabV>) -> String {
        match v {
            None => "none".into(),
            Some(v) => format!("{},{},{},{}", o_u32(&v.indexed), o_u32(&v.theme), o_text(&v.argb), o_f64(&v.tint)),
        }
    }
}

fn tab_getters(c: Option<&Color>) -> String {
    match c {
        None => "none".into(),
        Some(c) => {
            // has-value state of `indexed` from the Debug rendering (no public accessor)
            let d = format!("{:?}", c);
            let idx = if d.contains("indexed: UInt32Value { value: None }") { "~".to_string() } else { c.get_indexed().to_string() };
            let rgb = if idx == "~" { hex(c.get_argb()) } else { "?".to_string() };
            format!("{},{},{},{}", idx, c.get_theme_index(), rgb, c.get_tint())
        }
    }
}

fn tab_expected(v: &Option<TabV>) -> String {
    match v {
        None => "none".into(),
        Some(v) if v.indexed.is_none() && v.theme.is_none() && v.argb.is_none() && v.tint.is_none() => "none".into(),
        Some(v) => format!(
            "{},{},{},{}",
            o_u32(&v.indexed),
            v.theme.unwrap_or(0),
            if v.indexed.is_some() { "?".to_string() } else { hex(v.argb.as_deref().unwrap_or("")) },
            v.tint.unwrap_or(0.0)
        ),
    }
}

const PANES: [(&str, PaneValues); 4] = [("bottomLeft", PaneValues::BottomLeft), ("bottomRight", PaneValues::BottomRight), ("topLeft", PaneValues::TopLeft), ("TopRight", PaneValues::TopRight)];
const STATES: [(&str, PaneStateValues); 3] = [("frozen", PaneStateValues::Frozen), ("frozenSplit", PaneStateValues::FrozenSplit), ("split", PaneStateValues::Split)];
const VIEWS: [(&str, SheetViewValues); 3] = [("normal", SheetViewValues::Normal), ("pageBreakPreview", SheetViewValues::PageBreakPreview), ("pageLayout", SheetViewValues::PageLayout)];
const ORIENTS: [(&str, OrientationValues); 3] = [("default", OrientationValues::Default), ("landscape", OrientationValues::Landscape), ("portrait", OrientationValues::Portrait)];

#[derive(Clone, Copy, Default)]
struct CoordV {
    col: u32,
    row: u32,
    lc: bool,
    lr: bool,
}
impl CoordV {
    fn gen(rng: &mut Rng) -> CoordV {
        CoordV { col: *rng.pick(&[1u32, 2, 3, 26, 27, 702, 703, 16384, 18278]), row: *rng.pick(&[1u32, 2, 7, 10, 1048576, 4294967295]), lc: rng.chance(1, 6), lr: rng.chance(1, 6) }
    }
    fn obj(&self) -> Coordinate {
        let mut c = Coordinate::default();
        c.set_col_num(self.col).set_row_num(self.row).set_is_lock_col(self.lc).set_is_lock_row(self.lr);
        c
    }
    fn spec(&self) -> String {
        format!("{}.{}.{}.{}", self.col, self.row, b01(self.lc), b01(self.lr))
    }
}
fn coord_getters(c: &Coordinate) -> String {
    format!("{}.{}.{}.{}", c.get_col_num(), c.get_row_num(), b01(*c.get_is_lock_col()), b01(*c.get_is_lock_row()))
}

#[derive(Clone, Default)]
struct PaneV {
    x: Option<f64>,
    y: Option<f64>,
    tl: CoordV,
    active: Option<usize>,
    state: Option<usize>,
}
#[derive(Clone, Default)]
struct SelV {
    pane: Option<usize>,
    ac: Option<CoordV>,
    sqref: Vec<String>,
}
#[derive(Clone, Default)]
struct ViewV {
    grid: Option<bool>,
    tab: Option<bool>,
    wid: Option<u32>,
    view: Option<usize>,
    z: [Option<u32>; 4],
    tl: Option<String>,
    pane: Option<PaneV>,
    sels: Vec<SelV>,
}

const RANGES: &[&str] = &["A1", "B2:C3", "AA10:AB12", "$A$1", "A$1:$B2", "3:5", "C:D", "XFD1048576", "ZZZ1", "A1:XFD1048576", "$3:$5", "$C:$D"];

impl ViewV {
    fn gen(rng: &mut Rng, out: &mut Out) -> ViewV {
        let mut v = ViewV { grid: g_bool(rng), tab: g_bool(rng), wid: if rng.chance(1, 2) { None } else { Some(*rng.pick(&[0u32, 1, 7])) }, ..Default::default() };
        if rng.chance(2, 3) {
            v.view = Some(rng.below(3) as usize);
        }
        out.count(&format!("vpp.view.view.{}", v.view.map(|i| VIEWS[i].0).unwrap_or("~")));
        out.count(&format!("vpp.view.tabSelected.{}", o_bool(&v.tab)));
        for k in 0..4 {
            if rng.chance(1, 3) {
                v.z[k] = Some(*rng.pick(&[10u32, 55, 100, 400, 0, 4294967295]));
            }
        }
        if rng.chance(1, 2) {
            v.tl = Some(rng.pick(&["A1", "B7", "XFD1048576", "", " C3 ", "a&<b"]).to_string());
        }
        if rng.chance(2, 3) {
            let mut p = PaneV { x: g_f64(rng), y: g_f64(rng), tl: CoordV::gen(rng), ..Default::default() };
            if rng.chance(3, 4) {
                p.active = Some(rng.below(4) as usize);
            }
            if rng.chance(3, 4) {
                p.state = Some(rng.below(3) as usize);
            }
            out.count(&format!("vpp.pane.activePane.{}", p.active.map(|i| PANES[i].0).unwrap_or("~")));
            out.count(&format!("vpp.pane.state.{}", p.state.map(|i| STATES[i].0).unwrap_or("~")));
            v.pane = Some(p);
        }
        let n = *rng.pick(&[0u64, 0, 1, 1, 2, 3, 4, 6]);
        out.count(&format!("vpp.view.selections.{}", n));
        for _ in 0..n {
            let mut s = SelV::default();
            if rng.chance(2, 3) {
                s.pane = Some(rng.below(4) as usize);
            }
            out.count(&format!("vpp.selection.pane.{}", s.pane.map(|i| PANES[i].0).unwrap_or("~")));
            if rng.chance(3, 4) {
                s.ac = Some(if rng.chance(1, 2) { CoordV { col: 1, row: 1, lc: false, lr: false } } else { CoordV::gen(rng) });
            }
            for _ in 0..*rng.pick(&[0u64, 1, 1, 2, 3]) {
                s.sqref.push(rng.pick(RANGES).to_string());
            }
            out.count(&format!("vpp.selection.ranges.{}", s.sqref.len()));
            v.sels.push(s);
        }
        v
    }
    fn obj(&self) -> SheetView {
        let mut sv = SheetView::default();
        if let Some(b) = self.grid {
            sv.set_show_grid_lines(b);
        }
        if let Some(b) = self.tab {
            sv.set_tab_selected(b);
        }
        if let Some(n) = self.wid {
            sv.set_workbook_view_id(n);
        }
        if let Some(i) = self.view {
            sv.set_view(VIEWS[i].1.clone());
        }
        if let Some(n) = self.z[0] {
            sv.set_zoom_scale(n);
        }
        if let Some(n) = self.z[1] {
            sv.set_zoom_scale_normal(n);
        }
        if let Some(n) = self.z[2] {
            sv.set_zoom_scale_page_layout_view(n);
        }
        if let Some(n) = self.z[3] {
            sv.set_zoom_scale_sheet_layout_view(n);
        }
        if let Some(t) = &self.tl {
            sv.set_top_left_cell(t.clone());
        }
        if let Some(p) = &self.pane {
            let mut o = Pane::default();
            if let Some(x) = p.x {
                o.set_horizontal_split(x);
            }
            if let Some(y) = p.y {
                o.set_vertical_split(y);
            }
            o.set_top_left_cell(p.tl.obj());
            if let Some(i) = p.active {
                o.set_active_pane(PANES[i].1.clone());
            }
            if let Some(i) = p.state {
                o.set_state(STATES[i].1.clone());
            }
            sv.set_pane(o);
        }
        for s in &self.sels {
            let mut o = Selection::default();
            if let Some(i) = s.pane {
                o.set_pane(PANES[i].1.clone());
            }
            if let Some(c) = &s.ac {
                o.set_active_cell(c.obj());
            }
            for r in &s.sqref {
                let mut rg = Range::default();
                rg.set_range(r);
                o.get_sequence_of_references_mut().add_range_collection(rg);
            }
            sv.set_selection(o);
        }
        sv
    }
    fn spec(&self) -> String {
        let mut s = format!(
            "{},{},{},{},{},{},{},{},{}",
            o_bool(&self.grid),
            o_bool(&self.tab),
            o_u32(&self.wid),
            o_str(&self.view.map(|i| VIEWS[i].0)),
            o_u32(&self.z[0]),
            o_u32(&self.z[1]),
            o_u32(&self.z[2]),
            o_u32(&self.z[3]),
            o_text(&self.tl)
        );
        s.push(';');
        match &self.pane {
            None => s.push('~'),
            Some(p) => s.push_str(&format!("{},{},{},{},{}", o_f64(&p.x), o_f64(&p.y), p.tl.spec(), o_str(&p.active.map(|i| PANES[i].0)), o_str(&p.state.map(|i| STATES[i].0)))),
        }
        for x in &self.sels {
            s.push_str(&format!(
                ";{},{},{}",
                o_str(&x.pane.map(|i| PANES[i].0)),
                x.ac.map(|c| c.spec()).unwrap_or("~".into()),
                if x.sqref.is_empty() { "~".to_string() } else { x.sqref.join("+") }
            ));
        }
        s
    }
    /// what the getters must return after reload = what they return before saving
    fn getters_set(&self) -> String {
        view_getters(&self.obj())
    }
}

fn enum_name<T: std::fmt::Debug>(tbl: &[(&'static str, T)], v: &T) -> &'static str {
    let d = format!("{:?}", v);
    tbl.iter().find(|(_, x)| format!("{:?}", x) == d).map(|(n, _)| *n).unwrap_or("?")
}

fn view_getters(v: &SheetView) -> String {
    let mut s = format!(
        "{},{},{},{},{},{},{},{},{}",
        b01(*v.get_show_grid_lines()),
        b01(*v.get_tab_selected()),
        v.get_workbook_view_id(),
        enum_name(&VIEWS, v.get_view()),
        v.get_zoom_scale(),
        v.get_zoom_scale_normal(),
        v.get_zoom_scale_page_layout_view(),
        v.get_zoom_scale_sheet_layout_view(),
        hex(v.get_top_left_cell())
    );
    s.push(';');
    match v.get_pane() {
        None => s.push('~'),
        Some(p) => s.push_str(&format!(
            "{},{},{},{},{}",
            p.get_horizontal_split(),
            p.get_vertical_split(),
            coord_getters(p.get_top_left_cell()),
            enum_name(&PANES, p.get_active_pane()),
            enum_name(&STATES, p.get_state())
        )),
    }
    for x in v.get_selection() {
        let sq = x.get_sequence_of_references().get_range_collection();
        s.push_str(&format!(
            ";{},{},{}",
            enum_name(&PANES, x.get_pane()),
            x.get_active_cell().map(coord_getters).unwrap_or("~".into()),
            if sq.is_empty() { "~".to_string() } else { sq.iter().map(|r| r.get_range()).collect::<Vec<_>>().join("+") }
        ));
    }
    s
}

#[derive(Clone, Default)]
struct PageV {
    paper: Option<u32>,
    orient: Option<usize>,
    scale: Option<u32>,
    fh: Option<u32>,
    fw: Option<u32>,
    hdpi: Option<u32>,
    vdpi: Option<u32>,
    data: Option<Vec<u8>>,
    margins: [Option<f64>; 6],
    hc: Option<bool>,
    vc: Option<bool>,
    header: Option<String>,
    footer: Option<String>,
}

const HF_TEXTS: &[&str] = &[
    "",
    "&L&\"Arial,Bold\"&12Left&C&P of &N&R&D &T",
    "&CTitle with trailing blank ",
    " &Lleading blank",
    "  ",
    "&L&&amp; && &A &F\n2nd line",
    "&C a<b>c \"q\" 'a' &K FF0000 ]]> ",
    "cr\rhere\r\nand lf",
    "\ttab",
    "é€𝄞",
    "&R&Z&F",
];

impl PageV {
    fn gen(rng: &mut Rng, out: &mut Out) -> PageV {
        let mut v = PageV::default();
        if rng.chance(3, 4) {
            v.paper = g_u32(rng);
            if rng.chance(2, 3) {
                v.orient = Some(rng.below(3) as usize);
            }
            v.scale = g_u32(rng);
            v.fh = g_u32(rng);
            v.fw = g_u32(rng);
            v.hdpi = g_u32(rng);
            v.vdpi = g_u32(rng);
            if rng.chance(1, 3) {
                v.data = Some(vec![1, 2, 3, 0, 255, rng.below(256) as u8]);
            }
        }
        out.count(&format!("vpp.page.orientation.{}", v.orient.map(|i| ORIENTS[i].0).unwrap_or("~")));
        if rng.chance(2, 3) {
            for k in 0..6 {
                v.margins[k] = g_f64(rng);
            }
        }
        v.hc = g_bool(rng);
        v.vc = g_bool(rng);
        out.count(&format!("vpp.print.h.{}", o_bool(&v.hc)));
        out.count(&format!("vpp.print.v.{}", o_bool(&v.vc)));
        if rng.chance(2, 3) {
            v.header = Some(rng.pick(HF_TEXTS).to_string());
        }
        if rng.chance(1, 2) {
            v.footer = Some(rng.pick(HF_TEXTS).to_string());
        }
        out.count(&format!("vpp.hf.{}{}", if v.header.is_some() { "h" } else { "-" }, if v.footer.is_some() { "f" } else { "-" }));
        v
    }
    fn apply(&self, ws: &mut Worksheet) {
        let ps = ws.get_page_setup_mut();
        if let Some(n) = self.paper {
            ps.set_paper_size(n);
        }
        if let Some(i) = self.orient {
            ps.set_orientation(ORIENTS[i].1.clone());
        }
        if let Some(n) = self.scale {
            ps.set_scale(n);
        }
        if let Some(n) = self.fh {
            ps.set_fit_to_height(n);
        }
        if let Some(n) = self.fw {
            ps.set_fit_to_width(n);
        }
        if let Some(n) = self.hdpi {
            ps.set_horizontal_dpi(n);
        }
        if let Some(n) = self.vdpi {
            ps.set_vertical_dpi(n);
        }
        if let Some(d) = &self.data {
            ps.set_object_data(d.clone());
        }
        let m = ws.get_page_margins_mut();
        if let Some(x) = self.margins[0] {
            m.set_left(x);
        }
        if let Some(x) = self.margins[1] {
            m.set_right(x);
        }
        if let Some(x) = self.margins[2] {
            m.set_top(x);
        }
        if let Some(x) = self.margins[3] {
            m.set_bottom(x);
        }
        if let Some(x) = self.margins[4] {
            m.set_header(x);
        }
        if let Some(x) = self.margins[5] {
            m.set_footer(x);
        }
        if let Some(b) = self.hc {
            ws.get_print_options_mut().set_horizontal_centered(b);
        }
        if let Some(b) = self.vc {
            ws.get_print_options_mut().set_vertical_centered(b);
        }
        if let Some(t) = &self.header {
            ws.get_header_footer_mut().get_odd_header_mut().set_value(t.clone());
        }
        if let Some(t) = &self.footer {
            ws.get_header_footer_mut().get_odd_footer_mut().set_value(t.clone());
        }
    }
    fn setup_spec(&self) -> String {
        format!(
            "{},{},{},{},{},{},{},{}",
            o_u32(&self.paper),
            o_str(&self.orient.map(|i| ORIENTS[i].0)),
            o_u32(&self.scale),
            o_u32(&self.fh),
            o_u32(&self.fw),
            o_u32(&self.hdpi),
            o_u32(&self.vdpi),
            if self.data.is_some() { "1" } else { "~" }
        )
    }
}

fn setup_getters(ps: &PageSetup) -> String {
    format!(
        "{},{},{},{},{},{},{},{}",
        ps.get_paper_size(),
        enum_name(&ORIENTS, ps.get_orientation()),
        ps.get_scale(),
        ps.get_fit_to_height(),
        ps.get_fit_to_width(),
        ps.get_horizontal_dpi(),
        ps.get_vertical_dpi(),
        b01(ps.get_object_data().is_some())
    )
}
fn margins_getters(m: &PageMargins) -> String {
    format!("{},{},{},{},{},{}", m.get_left(), m.get_right(), m.get_top(), m.get_bottom(), m.get_header(), m.get_footer())
}

#[derive(Clone, Default)]
struct DnV {
    name: String,
    local: Option<u32>,
    hidden: Option<bool>,
}

struct SheetV {
    prot: Option<SpV>,
    tab: Option<TabV>,
    views: Vec<ViewV>,
    page: PageV,
    names: Vec<DnV>,
}

/// one tie line: request, the harness's reply, and the implementation-level oracle
fn tie(out: &mut Out, header: &str, family: &str, kind: &str, spec: &str, raw1: Option<&str>, raw2: Option<&str>, reloaded: &str, expected: &str) {
    let line = format!("c06 {} {} {} {} {}", family, kind, spec, raw_hex(raw1), raw_hex(raw2));
    out.begin(&line);
    out.end(&line, &format!("w=ok;r={};w2=ok", reloaded), true);
    out.count(&format!("tie.{}.{}", family, kind));
    if reloaded == expected {
        out.oracle_ok();
    } else {
        out.oracle_fail(Fail::new("codec-value-changed").with("op", header).with("kind", format!("{}.{}", family, kind)).with("set", expected).with("reloaded", reloaded).with("spec", spec));
        out.count(&format!("changed.{}.{}", family, kind));
    }
}

pub fn vpp_case(out: &mut Out, header: &str, seed: u64) {
    out.begin(header);
    out.end(header, "ok", false);
    out.count("case.vpp");
    let mut rng = Rng::new(seed ^ 0x7670_70);
    let n_sheets = rng.range(1, 3) as usize;
    let mut book = umya_spreadsheet::new_file_empty_worksheet();
    let mut sheets: Vec<SheetV> = vec![];
    for si in 0..n_sheets {
        let mut sv = SheetV { prot: None, tab: None, views: vec![], page: PageV::default(), names: vec![] };
        if rng.chance(3, 4) {
            sv.prot = Some(SpV::gen(&mut rng, out));
        }
        sv.tab = TabV::gen(&mut rng, out);
        let nv = *rng.pick(&[0usize, 1, 1, 1, 2]);
        for _ in 0..nv {
            sv.views.push(ViewV::gen(&mut rng, out));
        }
        out.count(&format!("vpp.views.{}", nv));
        sv.page = PageV::gen(&mut rng, out);
        for k in 0..rng.range(0, 2) {
            let d = DnV {
                name: format!("{}{}_{}", rng.pick(&["N", "_xlnm.Print_Area", "Nm_é&<\"", "a b"]), si, k),
                local: if rng.chance(1, 2) { Some(if rng.chance(1, 2) { si as u32 } else { rng.below(n_sheets as u64) as u32 }) } else { None }, // an id beyond the sheet list makes the reader panic (workbook.rs: unwrap): outside this family
                hidden: g_bool(&mut rng),
            };
            out.count(&format!("vpp.dn.hidden.{}", o_bool(&d.hidden)));
            out.count(&format!("vpp.dn.local.{}", if d.local.is_some() { "some" } else { "~" }));
            sv.names.push(d);
        }
        sheets.push(sv);
    }
    let wprot = if rng.chance(2, 3) { Some(WpV::gen(&mut rng, out)) } else { None };
    let active: Option<u32> = if rng.chance(1, 4) { None } else { Some(rng.below(n_sheets as u64) as u32) };
    out.count(&format!("vpp.active.{}", o_u32(&active)));

    // ---- build through the public API
    let built = guard(|| {
        for (si, sv) in sheets.iter().enumerate() {
            let ws = book.new_sheet(format!("S{}", si + 1)).unwrap();
            if let Some(p) = &sv.prot {
                p.apply(ws.get_sheet_protection_mut());
            }
            if let Some(t) = &sv.tab {
                t.apply(ws);
            }
            for v in &sv.views {
                ws.get_sheet_views_mut().add_sheet_view_list_mut(v.obj());
            }
            sv.page.apply(ws);
            for d in &sv.names {
                // a constant text: the address codec is not this family's business; names are kept on their sheet
                // by scoping them to it unless a scope is given (re-homing is modelled elsewhere)
                let _ = ws.add_defined_name(d.name.clone(), "1+1".to_string());
                let dn = ws.get_defined_names_mut().last_mut().unwrap();
                if let Some(l) = d.local {
                    dn.set_local_sheet_id(l);
                }
                if let Some(h) = d.hidden {
                    dn.set_hidden(h);
                }
            }
        }
        if let Some(w) = &wprot {
            w.apply(book.get_workbook_protection_mut());
        }
        if let Some(a) = active {
            book.set_active_sheet(a);
        }
    });
    if built.is_err() {
        out.oracle_fail(Fail::new("case-build-failed").with("op", header));
        return;
    }
    let bytes1 = match guard(|| wb::save_bytes(&book, false)) {
        Ok(Ok(b)) => b,
        _ => {
            out.oracle_fail(Fail::new("save-failed").with("op", header));
            return;
        }
    };
    let back = match guard(|| umya_spreadsheet::reader::xlsx::read_reader(std::io::Cursor::new(&bytes1[..]), true)) {
        Ok(Ok(b)) => b,
        Ok(Err(e)) => {
            out.oracle_fail(Fail::new("reload-failed").with("op", header).with("detail", format!("{:?}", e)));
            return;
        }
        Err(_) => {
            out.oracle_fail(Fail::new("reload-failed").with("op", header).with("detail", "panic"));
            return;
        }
    };
    let bytes2 = match guard(|| wb::save_bytes(&back, false)) {
        Ok(Ok(b)) => b,
        _ => {
            out.oracle_fail(Fail::new("second-save-failed").with("op", header));
            return;
        }
    };
    let (p1, p2) = match (unzip_all(&bytes1), unzip_all(&bytes2)) {
        (Ok(a), Ok(b)) => (a, b),
        _ => return,
    };
    // ---- workbook part
    let (w1, w2) = (part(&p1, "xl/workbook.xml"), part(&p2, "xl/workbook.xml"));
    if let Some(w) = &wprot {
        let rd = back.get_workbook_protection().map(wp_getters).unwrap_or("none".into());
        tie(out, header, "prot", "book", &w.spec(), element_raw(w1, "workbookProtection"), element_raw(w2, "workbookProtection"), &rd, &w.getters_set());
    }
    {
        let rd = back.get_workbook_view().get_active_tab().to_string();
        tie(out, header, "prot", "active", &o_u32(&active), element_raw(w1, "workbookView"), element_raw(w2, "workbookView"), &rd, &active.unwrap_or(0).to_string());
    }
    // defined names: in write order = sheet order, then order on the sheet (local ones stay on that sheet if the id is theirs)
    {
        let tags = |x: &str| -> Vec<String> {
            let mut v = vec![];
            let mut rest = x;
            while let Some(i) = rest.find("<definedName ") {
                let r = &rest[i..];
                let j = r.find('>').unwrap_or(r.len() - 1);
                v.push(format!("{}/>", &r[..j]));
                rest = &r[j..];
            }
            v
        };
        let (t1, t2) = (tags(w1), tags(w2));
        let all: Vec<&DnV> = sheets.iter().flat_map(|s| s.names.iter()).collect();
        let back_names: Vec<&DefinedName> = {
            let mut v: Vec<&DefinedName> = back.get_defined_names().iter().collect();
            for i in 0..back.get_sheet_count() {
                v.extend(back.get_sheet(&i).unwrap().get_defined_names().iter());
            }
            v
        };
        if t1.len() == all.len() {
            for (k, d) in all.iter().enumerate() {
                // the second save may reorder names (re-homing by localSheetId): pair by name
                let r2 = t2.iter().find(|t| attr_of(t, "name") == attr_of(&t1[k], "name"));
                let rd = back_names.iter().find(|b| b.get_name() == d.name);
                let rds = match rd {
                    Some(b) => format!("{},{},{}", hex(b.get_name()), if b.has_local_sheet_id() { b.get_local_sheet_id().to_string() } else { "~".into() }, b01(*b.get_hidden())),
                    None => "missing".into(),
                };
                let exp = format!("{},{},{}", hex(&d.name), o_u32(&d.local), b01(d.hidden.unwrap_or(false)));
                // a scope pointing at a sheet that does not exist makes the reader panic or drop the name: out of this family's range
                if d.local.map(|l| (l as usize) < n_sheets).unwrap_or(true) {
                    tie(out, header, "prot", "dn", &format!("{},{},{}", o_text(&Some(d.name.clone())), o_u32(&d.local), o_bool(&d.hidden)), Some(&t1[k]), r2.map(|s| s.as_str()), &rds, &exp);
                } else {
                    out.count("tie.prot.dn.skipped-scope-out-of-range");
                }
            }
        } else {
            out.count("tie.prot.dn.skipped-count-mismatch");
        }
    }
    // ---- sheet parts
    for (si, sv) in sheets.iter().enumerate() {
        let name = format!("xl/worksheets/sheet{}.xml", si + 1);
        let (s1, s2) = (part(&p1, &name), part(&p2, &name));
        let bws = match back.get_sheet(&si) {
            Some(w) => w,
            None => continue,
        };
        if let Some(p) = &sv.prot {
            let rd = bws.get_sheet_protection().map(sp_getters).unwrap_or("none".into());
            tie(out, header, "prot", "sheet", &p.spec(), element_raw(s1, "sheetProtection"), element_raw(s2, "sheetProtection"), &rd, &p.getters_set());
        }
        tie(out, header, "prot", "tab", &TabV::spec(&sv.tab), element_raw(s1, "sheetPr"), element_raw(s2, "sheetPr"), &tab_getters(bws.get_tab_color()), &tab_expected(&sv.tab));
        {
            let spec = if sv.views.is_empty() { "~".to_string() } else { sv.views.iter().map(|v| v.spec()).collect::<Vec<_>>().join("|") };
            let rd = bws.get_sheets_views().get_sheet_view_list();
            let rds = if rd.is_empty() { "~".to_string() } else { rd.iter().map(view_getters).collect::<Vec<_>>().join("|") };
            let exp = if sv.views.is_empty() { "~".to_string() } else { sv.views.iter().map(|v| v.getters_set()).collect::<Vec<_>>().join("|") };
            tie(out, header, "view", "sv", &spec, element_raw(s1, "sheetViews"), element_raw(s2, "sheetViews"), &rds, &exp);
        }
        {
            let mut tmp = Worksheet::default();
            sv.page.apply(&mut tmp);
            tie(out, header, "page", "setup", &sv.page.setup_spec(), element_raw(s1, "pageSetup"), element_raw(s2, "pageSetup"), &setup_getters(bws.get_page_setup()), &setup_getters(tmp.get_page_setup()));
            if sv.page.data.is_some() {
                if bws.get_page_setup().get_object_data() == sv.page.data.as_deref() {
                    out.oracle_ok();
                } else {
                    out.oracle_fail(Fail::new("codec-value-changed").with("op", header).with("kind", "page.setup.object-data"));
                }
                out.count("vpp.page.printer-settings");
            }
            let mspec = sv.page.margins.iter().map(o_f64).collect::<Vec<_>>().join(",");
            tie(out, header, "page", "margins", &mspec, element_raw(s1, "pageMargins"), element_raw(s2, "pageMargins"), &margins_getters(bws.get_page_margins()), &margins_getters(tmp.get_page_margins()));
            let po = bws.get_print_options();
            tie(
                out,
                header,
                "page",
                "print",
                &format!("{},{}", o_bool(&sv.page.hc), o_bool(&sv.page.vc)),
                element_raw(s1, "printOptions"),
                element_raw(s2, "printOptions"),
                &format!("{}{}", b01(*po.get_horizontal_centered()), b01(*po.get_vertical_centered())),
                &format!("{}{}", b01(sv.page.hc.unwrap_or(false)), b01(sv.page.vc.unwrap_or(false))),
            );
            let hf = bws.get_header_footer();
            tie(
                out,
                header,
                "page",
                "hf",
                &format!("{},{}", o_text(&sv.page.header), o_text(&sv.page.footer)),
                element_raw(s1, "headerFooter"),
                element_raw(s2, "headerFooter"),
                &format!("{},{}", hex(hf.get_odd_header().get_value()), hex(hf.get_odd_footer().get_value())),
                &format!("{},{}", hex(sv.page.header.as_deref().unwrap_or("")), hex(sv.page.footer.as_deref().unwrap_or(""))),
            );
        }
    }
}
