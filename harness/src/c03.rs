//! C03 — the reader agrees with an independent decoder on valid xlsx files.
//!
//! A case is one xlsx file: a corpus file of the repository, or a package emitted by the grammar
//! below (the XML is written here, character by character, NOT through the library; zipped with
//! the zip crate).  Every part is sent to the Lean driver, whose `Umya.Spec.Xml` / `Umya.Spec.Sml`
//! decoder says what the file means; the harness prints the same canonical view from the workbook
//! the LIBRARY loaded (`read_reader(.., true)` + public getters).  A difference is an oracle failure.
//!
//! Productions covered (each use is counted in the evidence as `prod.<name>`):
//!   cell encodings  t=absent|n|s|str|inlineStr|b|e, with/without `<v>`, blank styled cells, `s=`;
//!   numbers         integer, decimal, exponent (e/E, signed), leading `+`, `.5`, `5.`, 17 digits;
//!   strings         shared: plain / empty / rich runs / phonetic runs / xml:space; inline: plain / rich /
//!                   phonetic / looks-like-number|boolean|error; `str` with and without formula;
//!   text encoding   literal, predefined entities, decimal and hexadecimal character references, in
//!                   character data and in attribute values (both quote styles);
//!   formulas        normal, array (`t="array" ref`), shared blocks: master anywhere in its `ref`, children
//!                   right/below/left-below of the master, `$` parts, ranges, whole columns/rows, quoted
//!                   sheet names, strings that look like references, function names that look like cells;
//!   structure       `r` present/omitted (cells and rows), `spans`, row attributes (ht, hidden, style),
//!                   `<col min max>` spans with width/hidden/style, merges, empty-element vs start/end tags;
//!   workbook        1–4 sheets, escaped sheet names, hidden / veryHidden, sheet parts under arbitrary
//!                   names and relationship ids, absolute and relative targets, activeTab, defined names
//!                   (global, localSheetId, hidden, constants, quoted sheet names with `&`);
//!   hyperlinks      external through the rels part, location only, both, tooltip, display;
//!   tables          one table with escaped column names; styles: numFmts (builtin and custom ids),
//!                   fonts (bold as `<b/>`, `<b val="1"/>`, `<b val="0"/>`), fills (none, gray125, solid rgb, theme).
use crate::common::*;
use crate::wb;
use std::collections::BTreeMap;
use std::io::Write;
use umya_spreadsheet::structs::*;

// ------------------------------------------------------------------------------------------------
// text encoders
// ------------------------------------------------------------------------------------------------

pub struct G {
    pub rng: Rng,
    pub prods: Vec<String>,
}
impl G {
    fn p(&mut self, name: &str) {
        self.prods.push(name.to_string());
    }
    fn charref(&mut self, c: char) -> String {
        if self.rng.chance(1, 2) {
            format!("&#{};", c as u32)
        } else if self.rng.chance(1, 2) {
            format!("&#x{:X};", c as u32)
        } else {
            format!("&#x{:x};", c as u32)
        }
    }
    /// character data for `s`
    fn text(&mut self, s: &str) -> String {
        let mut o = String::new();
        for c in s.chars() {
            match c {
                '&' => {
                    if self.rng.chance(2, 3) {
                        o.push_str("&amp;")
                    } else {
                        let r = self.charref(c);
                        o.push_str(&r)
                    }
                }
                '<' => {
                    if self.rng.chance(2, 3) {
                        o.push_str("&lt;")
                    } else {
                        let r = self.charref(c);
                        o.push_str(&r)
                    }
                }
                '>' => {
                    if o.ends_with(']') || self.rng.chance(1, 2) {
                        o.push_str("&gt;")
                    } else {
                        o.push('>')
                    }
                }
                '"' => o.push_str(if self.rng.chance(1, 3) { "&quot;" } else { "\"" }),
                '\'' => o.push_str(if self.rng.chance(1, 3) { "&apos;" } else { "'" }),
                '\r' => {
                    if self.rng.chance(1, 8) {
                        // a literal CR LF: valid XML, means a single LF (XML 1.0 2.11)
                        self.p("text.literal-crlf");
                        o.push_str("\r\n")
                    } else {
                        o.push_str("&#13;")
                    }
                }
                '\n' | '\t' => {
                    if self.rng.chance(1, 3) {
                        let r = self.charref(c);
                        o.push_str(&r)
                    } else {
                        o.push(c)
                    }
                }
                _ => {
                    if self.rng.chance(1, 14) {
                        self.p("text.charref");
                        let r = self.charref(c);
                        o.push_str(&r)
                    } else {
                        o.push(c)
                    }
                }
            }
        }
        o
    }
    /// ` name="value"` (or single-quoted)
    fn attr(&mut self, name: &str, s: &str) -> String {
        let q = if self.rng.chance(1, 10) { '\'' } else { '"' };
        if q == '\'' {
            self.p("attr.single-quoted");
        }
        let mut o = String::new();
        for c in s.chars() {
            match c {
                '&' => {
                    if self.rng.chance(2, 3) {
                        o.push_str("&amp;")
                    } else {
                        let r = self.charref(c);
                        o.push_str(&r)
                    }
                }
                '<' => o.push_str("&lt;"),
                '>' => o.push_str(if self.rng.chance(1, 2) { "&gt;" } else { ">" }),
                '"' => {
                    if q == '"' || self.rng.chance(1, 3) {
                        o.push_str("&quot;")
                    } else {
                        o.push('"')
                    }
                }
                '\'' => {
                    if q == '\'' || self.rng.chance(1, 3) {
                        o.push_str("&apos;")
                    } else {
                        o.push('\'')
                    }
                }
                '\r' | '\n' | '\t' => {
                    self.p("attr.ws-charref");
                    let r = self.charref(c);
                    o.push_str(&r)
                }
                _ => {
                    if self.rng.chance(1, 16) {
                        self.p("attr.charref");
                        let r = self.charref(c);
                        o.push_str(&r)
                    } else {
                        o.push(c)
                    }
                }
            }
        }
        format!(" {}={}{}{}", name, q, o, q)
    }
    /// plain attribute (numbers, references, enumerations)
    fn pa(&mut self, name: &str, v: &str) -> String {
        format!(" {}=\"{}\"", name, v)
    }
}

const WORDS: &[&str] = &["TRUE", "false", "123", "#N/A", "1e5", "-0", "0.5", "#DIV/0!", "A1", "abc", "x y", "R&D", "a<b>c", "it's", "\"q\"", "é日😀", "a]]>b", "\u{a0}", "x\u{2028}y", "tab\there", "line\nbreak", "cr\rhere", ""];

fn rand_string(g: &mut G) -> String {
    match g.rng.below(6) {
        0 | 1 => g.rng.pick(WORDS).to_string(),
        2 => format!("{}{}", g.rng.pick(WORDS), g.rng.pick(WORDS)),
        _ => wb::rand_text(&mut g.rng, wb::TEXT_ALPHABET, 0, 10),
    }
}

fn has_edge_ws(s: &str) -> bool {
    s.starts_with(|c: char| c == ' ' || c == '\n' || c == '\t') || s.ends_with(|c: char| c == ' ' || c == '\n' || c == '\t')
}

/// `<t>` element; leading / trailing literal white space only together with xml:space="preserve"
fn t_elem(g: &mut G, s: &str) -> String {
    let need = has_edge_ws(s) || s.chars().all(|c| c == ' ' || c == '\n' || c == '\t') && !s.is_empty();
    if s.is_empty() {
        return if g.rng.chance(1, 2) {
            g.p("t.empty-element");
            "<t/>".to_string()
        } else {
            g.p("t.empty-pair");
            "<t></t>".to_string()
        };
    }
    if need || g.rng.chance(1, 6) {
        g.p("t.xml-space");
        format!("<t xml:space=\"preserve\">{}</t>", g.text(s))
    } else {
        format!("<t>{}</t>", g.text(s))
    }
}

/// the children of a CT_Rst (`si` / `is`) and the text they mean
fn rst(g: &mut G, pfx: &str) -> (String, String) {
    match g.rng.below(10) {
        0..=4 => {
            let s = rand_string(g);
            g.p(&format!("{}.plain", pfx));
            (t_elem(g, &s), s)
        }
        5 | 6 => {
            g.p(&format!("{}.rich", pfx));
            let n = g.rng.range(1, 3);
            let mut xml = String::new();
            let mut val = String::new();
            for i in 0..n {
                let s = rand_string(g);
                let rpr = match g.rng.below(3) {
                    0 => "".to_string(),
                    1 => "<rPr><b/><sz val=\"11\"/><color rgb=\"FFFF0000\"/><rFont val=\"Arial\"/></rPr>".to_string(),
                    _ => format!("<rPr><i/><sz val=\"{}\"/><rFont val=\"Calibri\"/><family val=\"2\"/></rPr>", 9 + i),
                };
                xml.push_str(&format!("<r>{}{}</r>", rpr, t_elem(g, &s)));
                val.push_str(&s);
            }
            (xml, val)
        }
        7 => {
            g.p(&format!("{}.phonetic", pfx));
            let s = format!("日本{}", g.rng.pick(WORDS));
            let ph = if g.rng.chance(1, 2) { "ニホン" } else { "123" };
            let xml = format!("{}<rPh sb=\"0\" eb=\"2\">{}</rPh><phoneticPr fontId=\"1\"/>", t_elem(g, &s), t_elem(g, ph));
            (xml, s)
        }
        8 => {
            g.p(&format!("{}.rich-phonetic", pfx));
            let a = rand_string(g);
            let b = "漢字".to_string();
            let xml = format!("<r>{}</r><r><rPr><b/></rPr>{}</r><rPh sb=\"0\" eb=\"1\">{}</rPh>", t_elem(g, &a), t_elem(g, &b), t_elem(g, "カンジ"));
            (xml, format!("{}{}", a, b))
        }
        _ => {
            g.p(&format!("{}.looks-typed", pfx));
            let s = g.rng.pick(&["123", "TRUE", "false", "#N/A", "1e5", "-0", "0.50", "#REF!", " 12"]).to_string();
            (t_elem(g, &s), s)
        }
    }
}

// ------------------------------------------------------------------------------------------------
// references and formulas
// ------------------------------------------------------------------------------------------------

fn col_name(n: u32) -> String {
    umya_spreadsheet::helper::coordinate::string_from_column_index(&n)
}

fn a1(c: u32, r: u32) -> String {
    format!("{}{}", col_name(c), r)
}

/// a reference whose relative parts stay inside the grid for offsets up to ±13 columns / ±40 rows
fn gen_area(g: &mut G) -> String {
    let lc = |g: &mut G| if g.rng.chance(1, 3) { "$" } else { "" };
    let col = |g: &mut G| g.rng.range(15, 60) as u32;
    let row = |g: &mut G| g.rng.range(45, 400) as u32;
    match g.rng.below(10) {
        0..=4 => {
            g.p("ref.cell");
            format!("{}{}{}{}", lc(g), col_name(col(g)), lc(g), row(g))
        }
        5 | 6 => {
            g.p("ref.range");
            let (c1, c2) = (col(g), col(g));
            let (r1, r2) = (row(g), row(g));
            format!("{}{}{}{}:{}{}{}{}", lc(g), col_name(c1.min(c2)), lc(g), r1.min(r2), lc(g), col_name(c1.max(c2)), lc(g), r1.max(r2))
        }
        7 => {
            g.p("ref.columns");
            let (c1, c2) = (col(g), col(g));
            format!("{}{}:{}{}", lc(g), col_name(c1.min(c2)), lc(g), col_name(c1.max(c2)))
        }
        8 => {
            g.p("ref.rows");
            let (r1, r2) = (row(g), row(g));
            format!("{}{}:{}{}", lc(g), r1.min(r2), lc(g), r1.max(r2))
        }
        _ => {
            g.p("ref.absolute-corner");
            "$A$1".to_string()
        }
    }
}

fn gen_ref(g: &mut G, sheets: &[String]) -> String {
    let area = gen_area(g);
    match g.rng.below(8) {
        0 => {
            g.p("ref.qualified-plain");
            format!("Sheet1!{}", area)
        }
        1 | 2 => {
            g.p("ref.qualified-sheet");
            let s = g.rng.pick(sheets).clone();
            format!("{}!{}", wb::quote_sheet(&s), area)
        }
        3 => {
            g.p("ref.qualified-quoted");
            format!("'It''s A1 & B2'!{}", area)
        }
        _ => area,
    }
}

fn gen_atom(g: &mut G, sheets: &[String]) -> String {
    match g.rng.below(14) {
        0..=6 => gen_ref(g, sheets),
        7 => g.rng.pick(&["1", "2.5", "100", "0.25"]).to_string(),
        8 => {
            g.p("formula.string");
            g.rng.pick(&["\"A1\"", "\"a\"\"b\"", "\"it's\"", "\"x,y\"", "\"$B$2:C3\"", "\"<&>\"", "\"\""]).to_string()
        }
        9 => g.rng.pick(&["TRUE", "FALSE", "#N/A", "#REF!", "#DIV/0!"]).to_string(),
        10 => {
            g.p("formula.name");
            g.rng.pick(&["MyName", "_x1", "Tax.Rate", "LOG10", "A1B"]).to_string()
        }
        11 => {
            g.p("formula.call-looks-like-cell");
            format!("{}({})", g.rng.pick(&["LOG10", "ATAN2", "DEC2BIN"]), gen_ref(g, sheets))
        }
        _ => gen_ref(g, sheets),
    }
}

fn gen_expr(g: &mut G, sheets: &[String], depth: u32) -> String {
    if depth == 0 {
        return gen_atom(g, sheets);
    }
    match g.rng.below(12) {
        0..=2 => gen_atom(g, sheets),
        3..=5 => {
            let op = *g.rng.pick(&["+", "-", "*", "/", "^", "&", "=", "<", ">", "<=", ">=", "<>"]);
            format!("{}{}{}", gen_expr(g, sheets, depth - 1), op, gen_expr(g, sheets, depth - 1))
        }
        6 => format!("({})", gen_expr(g, sheets, depth - 1)),
        7 => format!("-{}", gen_atom(g, sheets)),
        8 => format!("{}%", gen_atom(g, sheets)),
        9 => {
            g.p("formula.call");
            let f = *g.rng.pick(&["SUM", "IF", "MAX", "COUNTIF", "INDEX"]);
            let n = g.rng.range(1, 3);
            let args: Vec<String> = (0..n).map(|_| if g.rng.chance(1, 10) { String::new() } else { gen_expr(g, sheets, depth - 1) }).collect();
            format!("{}({})", f, args.join(","))
        }
        10 => {
            g.p("formula.intersection");
            format!("{} {}", gen_area(g), gen_area(g))
        }
        _ => {
            g.p("formula.union");
            format!("SUM(({},{}))", gen_area(g), gen_area(g))
        }
    }
}

fn gen_number(g: &mut G) -> String {
    let k = g.rng.below(12);
    g.p(&format!("num.form{}", k));
    match k {
        0 | 1 => format!("{}", g.rng.below(100000)),
        2 => format!("-{}", g.rng.below(1000)),
        3 => format!("{}.{}", g.rng.below(1000), g.rng.below(1000)),
        4 => format!("{}.{:02}0", g.rng.below(100), g.rng.below(100)),
        5 => format!("{}E{}", g.rng.range(1, 9), g.rng.below(20)),
        6 => format!("{}.{}e-{}", g.rng.below(10), g.rng.below(1000), g.rng.below(30)),
        7 => format!("{}.{}E+{:02}", g.rng.below(10), g.rng.below(100000), g.rng.below(30)),
        8 => format!("0.{:017}", g.rng.next() % 100_000_000_000_000_000u64),
        9 => format!("{}.{:016}", g.rng.range(1, 9), g.rng.next() % 10_000_000_000_000_000u64),
        10 => g.rng.pick(&["0", "-0", "0.0", "1", "00012", "+5", ".5", "5.", "1e0", "4.9e-324", "1.7976931348623157E308", "9007199254740993", "0.1", "0.30000000000000004"]).to_string(),
        _ => format!("{}", g.rng.range(40000, 46000)),
    }
}

// ------------------------------------------------------------------------------------------------
// the package
// ------------------------------------------------------------------------------------------------

const NS_MAIN: &str = "http://schemas.openxmlformats.org/spreadsheetml/2006/main";
const NS_R: &str = "http://schemas.openxmlformats.org/officeDocument/2006/relationships";
const NS_PKG_REL: &str = "http://schemas.openxmlformats.org/package/2006/relationships";
const DECL: &str = "<?xml version=\"1.0\" encoding=\"UTF-8\" standalone=\"yes\"?>\n";

#[derive(Clone)]
enum Formula {
    None,
    Normal(String),
    Array(String, String),
    Master(u32, String, String), // si, ref, text
    Child(u32),
}

struct StyleBook {
    xml: String,
    n_xf: u32,
}

fn gen_styles(g: &mut G) -> StyleBook {
    let mut x = String::from(DECL);
    x.push_str(&format!("<styleSheet xmlns=\"{}\">", NS_MAIN));
    let custom: Vec<(u32, &str)> = vec![(164, "yyyy\\-mm\\-dd"), (165, "\"R&D\" 0.0"), (166, "#,##0.00 \"<x>\";[Red]\\-#,##0.00"), (170, "General")];
    let with_numfmts = g.rng.chance(4, 5);
    if with_numfmts {
        x.push_str(&format!("<numFmts count=\"{}\">", custom.len()));
        for (id, code) in &custom {
            x.push_str(&format!("<numFmt{}{}/>", g.pa("numFmtId", &id.to_string()), g.attr("formatCode", code)));
        }
        x.push_str("</numFmts>");
    }
    // fonts: children in different orders, optional children missing, <b val="0"/>, underline / strike, colours by rgb / theme+tint / indexed
    x.push_str("<fonts count=\"6\"><font><sz val=\"11\"/><name val=\"Calibri\"/><family val=\"2\"/></font>");
    x.push_str("<font><b/><sz val=\"11\"/><name val=\"Calibri\"/></font>");
    x.push_str("<font><b val=\"0\"/><i/><sz val=\"10\"/><color rgb=\"FF0000FF\"/><name val=\"Arial\"/></font>");
    x.push_str(if g.rng.chance(1, 2) { "<font><b val=\"1\"/><sz val=\"12\"/><color theme=\"1\"/><name val=\"Arial\"/></font>" } else { "<font><b val=\"true\"/><sz val=\"12\"/><name val=\"Arial\"/></font>" });
    x.push_str("<font><name val=\"R&amp;D Sans\"/><u/><strike/><color theme=\"4\" tint=\"-0.249977111117893\"/><sz val=\"9.5\"/><scheme val=\"minor\"/></font>");
    x.push_str(if g.rng.chance(1, 2) { "<font><i val=\"false\"/><u val=\"double\"/><color indexed=\"10\"/></font>" } else { "<font><strike val=\"0\"/><u val=\"singleAccounting\"/><vertAlign val=\"superscript\"/><sz val=\"8\"/></font>" });
    x.push_str("</fonts>");
    x.push_str("<fills count=\"6\"><fill><patternFill patternType=\"none\"/></fill><fill><patternFill patternType=\"gray125\"/></fill>");
    x.push_str("<fill><patternFill patternType=\"solid\"><fgColor rgb=\"FFFFFF00\"/><bgColor indexed=\"64\"/></patternFill></fill>");
    x.push_str("<fill><patternFill patternType=\"solid\"><fgColor theme=\"4\" tint=\"0.5\"/><bgColor indexed=\"64\"/></patternFill></fill>");
    x.push_str("<fill><patternFill patternType=\"darkGray\"><fgColor rgb=\"FF12AB9F\"/></patternFill></fill>");
    x.push_str("<fill><patternFill><bgColor theme=\"1\"/></patternFill></fill></fills>");
    x.push_str("<borders count=\"3\"><border><left/><right/><top/><bottom/><diagonal/></border>");
    x.push_str("<border><left style=\"thin\"><color auto=\"1\"/></left><right/><top/><bottom style=\"thin\"><color rgb=\"FF000000\"/></bottom><diagonal/></border>");
    x.push_str("<border diagonalUp=\"1\"><left style=\"double\"><color indexed=\"64\"/></left><right style=\"mediumDashDot\"><color theme=\"5\" tint=\"0.25\"/></right><top style=\"hair\"/><bottom/><diagonal style=\"thin\"><color rgb=\"FFFF0000\"/></diagonal></border></borders>");
    x.push_str("<cellStyleXfs count=\"1\"><xf numFmtId=\"0\" fontId=\"0\" fillId=\"0\" borderId=\"0\"/></cellStyleXfs>");
    let n_xf = g.rng.range(1, 9) as u32;
    x.push_str(&format!("<cellXfs count=\"{}\">", n_xf));
    let nfs: Vec<u32> = if with_numfmts { vec![0, 1, 2, 9, 10, 14, 22, 49, 164, 165, 166, 170] } else { vec![0, 1, 2, 9, 14, 49] };
    for i in 0..n_xf {
        if i == 0 {
            x.push_str("<xf numFmtId=\"0\" fontId=\"0\" fillId=\"0\" borderId=\"0\" xfId=\"0\"/>");
            continue;
        }
        let nf = *g.rng.pick(&nfs);
        // few components, many xfs: xfs share fonts / fills / borders
        let font = g.rng.below(6);
        let fill = g.rng.below(6);
        let border = g.rng.below(3);
        let mut a = format!("<xf numFmtId=\"{}\" fontId=\"{}\" fillId=\"{}\" borderId=\"{}\" xfId=\"0\"", nf, font, fill, border);
        let mode = g.rng.below(3);
        if mode == 0 {
            g.p("xf.no-apply-flags");
        } else {
            // every apply* flag independently: absent / 1 / 0 / true / false
            for k in ["applyNumberFormat", "applyFont", "applyFill", "applyBorder", "applyAlignment", "applyProtection"] {
                match g.rng.below(if mode == 1 { 4 } else { 8 }) {
                    0 | 4 | 5 | 6 | 7 => {}
                    1 => a.push_str(&format!(" {}=\"1\"", k)),
                    2 => {
                        a.push_str(&format!(" {}=\"0\"", k));
                        g.p("xf.apply-0");
                    }
                    _ => {
                        let w = if g.rng.chance(1, 2) { "true" } else { "false" };
                        a.push_str(&format!(" {}=\"{}\"", k, w));
                        g.p(&format!("xf.apply-{}", w));
                    }
                }
            }
        }
        let al = g.rng.below(4);
        let pr = g.rng.chance(1, 4);
        if al == 0 && !pr {
            a.push_str("/>");
        } else {
            a.push('>');
            match al {
                1 => a.push_str("<alignment horizontal=\"center\" wrapText=\"1\"/>"),
                2 => a.push_str("<alignment vertical=\"top\" textRotation=\"45\"/>"),
                3 => a.push_str("<alignment horizontal=\"right\" vertical=\"center\" wrapText=\"false\" indent=\"1\"/>"),
                _ => {}
            }
            if al != 0 {
                g.p("xf.alignment");
            }
            if pr {
                a.push_str(if g.rng.chance(1, 2) { "<protection locked=\"0\"/>" } else { "<protection locked=\"1\" hidden=\"true\"/>" });
                g.p("xf.protection");
            }
            a.push_str("</xf>");
        }
        x.push_str(&a);
        g.p(&format!("xf.numFmt{}", if nf >= 164 { "custom" } else { "builtin" }));
    }
    x.push_str("</cellXfs><cellStyles count=\"1\"><cellStyle name=\"Normal\" xfId=\"0\" builtinId=\"0\"/></cellStyles>");
    x.push_str("<dxfs count=\"0\"/></styleSheet>");
    StyleBook { xml: x, n_xf }
}

struct Sst {
    items: Vec<String>,
}

fn gen_cell_body(g: &mut G, sst: &mut Sst, n_xf: u32, formula: &Formula, sheets: &[String]) -> (String, String) {
    // returns (attributes after r, children)
    let mut attrs = String::new();
    if n_xf > 1 && g.rng.chance(1, 3) {
        let s = g.rng.below(n_xf as u64);
        attrs.push_str(&g.pa("s", &s.to_string()));
        g.p("cell.style-attr");
    }
    let f_xml = match formula {
        Formula::None => String::new(),
        Formula::Normal(t) => {
            g.p("f.normal");
            format!("<f>{}</f>", g.text(t))
        }
        Formula::Array(r, t) => {
            g.p("f.array");
            format!("<f t=\"array\" ref=\"{}\">{}</f>", r, g.text(t))
        }
        Formula::Master(si, r, t) => {
            g.p("f.shared-master");
            format!("<f t=\"shared\" ref=\"{}\" si=\"{}\">{}</f>", r, si, g.text(t))
        }
        Formula::Child(si) => {
            g.p("f.shared-child");
            if g.rng.chance(1, 4) {
                format!("<f t=\"shared\" si=\"{}\"></f>", si)
            } else {
                format!("<f t=\"shared\" si=\"{}\"/>", si)
            }
        }
    };
    let has_f = !matches!(formula, Formula::None);
    let _ = sheets;
    let kind = if has_f { *g.rng.pick(&["n", "n", "n", "absent", "absent", "str", "str", "str", "b", "e", "nov", "nov", "s", "inlineStr"]) } else { *g.rng.pick(&["n", "absent", "absent", "s", "s", "s", "str", "inlineStr", "inlineStr", "b", "e", "blank"]) };
    g.p(&format!("cell.{}{}", if has_f { "f+" } else { "" }, kind));
    let mut kids = f_xml;
    match kind {
        "n" => {
            attrs.push_str(" t=\"n\"");
            kids.push_str(&format!("<v>{}</v>", gen_number(g)));
        }
        "absent" => {
            kids.push_str(&format!("<v>{}</v>", gen_number(g)));
        }
        "s" => {
            attrs.push_str(" t=\"s\"");
            let idx = if !sst.items.is_empty() && g.rng.chance(1, 3) {
                g.rng.below(sst.items.len() as u64) as usize
            } else {
                let (xml, _) = rst(g, "si");
                sst.items.push(xml);
                sst.items.len() - 1
            };
            kids.push_str(&format!("<v>{}</v>", idx));
        }
        "str" => {
            attrs.push_str(" t=\"str\"");
            let mut s = rand_string(g);
            if has_edge_ws(&s) && !g.rng.chance(1, 4) {
                s = s.trim_matches(|c: char| c == ' ' || c == '\n' || c == '\t').to_string();
            }
            if has_edge_ws(&s) {
                g.p("v.str-edge-blank");
            }
            if s.is_empty() && g.rng.chance(1, 2) {
                kids.push_str("<v/>");
            } else {
                kids.push_str(&format!("<v>{}</v>", g.text(&s)));
            }
        }
        "inlineStr" => {
            attrs.push_str(" t=\"inlineStr\"");
            let (xml, _) = rst(g, "is");
            kids.push_str(&format!("<is>{}</is>", xml));
        }
        "b" => {
            attrs.push_str(" t=\"b\"");
            kids.push_str(&format!("<v>{}</v>", g.rng.below(2)));
        }
        "e" => {
            attrs.push_str(" t=\"e\"");
            let e = *g.rng.pick(&["#DIV/0!", "#N/A", "#NAME?", "#NULL!", "#NUM!", "#REF!", "#VALUE!"]);
            kids.push_str(&format!("<v>{}</v>", e));
        }
        "nov" => {
            if g.rng.chance(1, 2) {
                attrs.push_str(" t=\"str\"");
            }
        }
        _ => {}
    }
    (attrs, kids)
}

struct SheetOut {
    xml: String,
    rels: Vec<String>, // Relationship elements
    table: Option<String>,
}

fn gen_sheet(g: &mut G, sst: &mut Sst, n_xf: u32, sheets: &[String], want_table: bool, table_part_target: &str) -> SheetOut {
    let positional = g.rng.chance(1, 12);
    let mut cells: BTreeMap<(u32, u32), Formula> = BTreeMap::new();
    // shared-formula blocks in disjoint row bands
    let mut si = 0u32;
    let mut band = g.rng.range(1, 4) as u32;
    let n_blocks = if positional { 0 } else { *g.rng.pick(&[0u64, 0, 1, 1, 2, 3]) };
    for _ in 0..n_blocks {
        let c0 = g.rng.range(1, 8) as u32;
        let c1 = c0 + g.rng.below(5) as u32;
        let r0 = band;
        let r1 = r0 + g.rng.below(5) as u32;
        band = r1 + 1 + g.rng.below(3) as u32;
        let mut members: Vec<(u32, u32)> = vec![];
        for r in r0..=r1 {
            for c in c0..=c1 {
                if g.rng.chance(3, 5) {
                    members.push((r, c));
                }
            }
        }
        if members.len() < 2 {
            members = vec![(r0, c1), (r1, c0)];
            members.sort();
            members.dedup();
        }
        let master = members[0];
        let mut text = gen_expr(g, sheets, 2);
        if g.rng.chance(1, 25) {
            // insignificant blanks around an operator
            g.p("shared.master-with-blanks");
            text = format!("{} + 1", text);
        }
        let rf = format!("{}:{}", a1(c0, r0), a1(c1, r1));
        g.p(if master == (r0, c0) { "shared.master-top-left" } else { "shared.master-inside" });
        for (i, m) in members.iter().enumerate() {
            if i == 0 {
                cells.insert(*m, Formula::Master(si, rf.clone(), text.clone()));
            } else {
                if m.1 < master.1 {
                    g.p("shared.child-left-below");
                } else if m.0 == master.0 {
                    g.p("shared.child-right");
                } else {
                    g.p("shared.child-below");
                }
                cells.insert(*m, Formula::Child(si));
            }
        }
        si += 1;
    }
    // other cells
    let n_rows = if positional { g.rng.range(1, 5) } else { g.rng.range(0, 9) } as u32;
    let mut r = 0u32;
    for _ in 0..n_rows {
        r += if positional { 1 } else { g.rng.range(1, 4) as u32 };
        let n = g.rng.range(0, 6) as u32;
        let mut c = 0u32;
        for _ in 0..n {
            c += if positional { 1 } else { g.rng.range(1, 3) as u32 };
            if cells.contains_key(&(r, c)) {
                continue;
            }
            let f = match g.rng.below(10) {
                0 | 1 => Formula::Normal(gen_expr(g, sheets, 2)),
                2 if !positional => Formula::Array(format!("{}:{}", a1(c, r), a1(c, r)), gen_expr(g, sheets, 1)),
                _ => Formula::None,
            };
            cells.insert((r, c), f);
        }
        if g.rng.chance(1, 40) && !positional {
            cells.insert((r, 16384), Formula::None);
            g.p("cell.last-column");
        }
    }
    if g.rng.chance(1, 40) && !positional {
        cells.insert((1048576, 1), Formula::None);
        g.p("cell.last-row");
    }
    let mut x = String::from(DECL);
    x.push_str(&format!("<worksheet xmlns=\"{}\" xmlns:r=\"{}\">", NS_MAIN, NS_R));
    if g.rng.chance(1, 2) {
        x.push_str("<dimension ref=\"A1\"/>");
    }
    if g.rng.chance(1, 2) {
        x.push_str("<sheetViews><sheetView workbookViewId=\"0\"/></sheetViews><sheetFormatPr defaultRowHeight=\"15\"/>");
    }
    // cols
    if g.rng.chance(1, 2) {
        let n = g.rng.range(1, 3);
        let mut lo = 1u32;
        let mut s = String::from("<cols>");
        for _ in 0..n {
            let min = lo + g.rng.below(3) as u32;
            let max = if g.rng.chance(1, 12) { 16384 } else { min + g.rng.below(4) as u32 };
            lo = max + 1;
            let w = *g.rng.pick(&["9.140625", "12", "20.5", "0", "8.43"]);
            s.push_str(&format!("<col min=\"{}\" max=\"{}\" width=\"{}\" customWidth=\"1\"", min, max, w));
            if g.rng.chance(1, 4) {
                s.push_str(" hidden=\"1\"");
                g.p("col.hidden");
            }
            if n_xf > 1 && g.rng.chance(1, 3) {
                s.push_str(&format!(" style=\"{}\"", g.rng.below(n_xf as u64)));
                g.p("col.style");
            }
            s.push_str("/>");
            g.p(if max == 16384 { "col.to-last" } else if max > min { "col.span" } else { "col.single" });
            if lo > 16384 {
                break;
            }
        }
        s.push_str("</cols>");
        x.push_str(&s);
    }
    // sheetData
    if cells.is_empty() && g.rng.chance(1, 2) {
        x.push_str("<sheetData/>");
    } else {
        x.push_str("<sheetData>");
        let rows: Vec<u32> = {
            let mut v: Vec<u32> = cells.keys().map(|k| k.0).collect();
            v.dedup();
            v
        };
        let omit_row_r = positional && g.rng.chance(1, 2);
        let mut expect_row = 1u32;
        for rn in rows {
            // positional sheets have consecutive rows from 1: fill gaps with empty rows
            while positional && expect_row < rn {
                x.push_str(if omit_row_r { "<row/>" } else { "<row r=\"" });
                if !omit_row_r {
                    x.push_str(&format!("{}\"/>", expect_row));
                }
                expect_row += 1;
            }
            expect_row = rn + 1;
            let rc: Vec<(u32, Formula)> = cells.range((rn, 0)..=(rn, u32::MAX)).map(|(k, v)| (k.1, v.clone())).collect();
            let mut ra = String::new();
            if !omit_row_r {
                ra.push_str(&format!(" r=\"{}\"", rn));
            } else {
                g.p("row.no-r");
            }
            if g.rng.chance(1, 2) && !rc.is_empty() {
                ra.push_str(&format!(" spans=\"{}:{}\"", rc[0].0, rc[rc.len() - 1].0));
                g.p("row.spans");
            }
            if g.rng.chance(1, 5) {
                ra.push_str(&format!(" ht=\"{}\" customHeight=\"1\"", g.rng.pick(&["15.75", "30", "12.5"])));
                g.p("row.ht");
            }
            if g.rng.chance(1, 8) {
                ra.push_str(" hidden=\"1\"");
                g.p("row.hidden");
            }
            if n_xf > 1 && g.rng.chance(1, 6) {
                ra.push_str(&format!(" s=\"{}\" customFormat=\"1\"", g.rng.below(n_xf as u64)));
                g.p("row.style");
            }
            x.push_str(&format!("<row{}>", ra));
            let mut prev_col = 0u32;
            for (cn, f) in rc {
                let (attrs, kids) = gen_cell_body(g, sst, n_xf, &f, sheets);
                // in a positional sheet a cell directly after its predecessor may drop `r`
                let omit_r = positional && cn == prev_col + 1;
                prev_col = cn;
                let ra = if omit_r {
                    g.p("cell.no-r");
                    String::new()
                } else {
                    format!(" r=\"{}\"", a1(cn, rn))
                };
                if kids.is_empty() {
                    if g.rng.chance(1, 5) {
                        g.p("cell.start-end-empty");
                        x.push_str(&format!("<c{}{}></c>", ra, attrs));
                    } else {
                        x.push_str(&format!("<c{}{}/>", ra, attrs));
                    }
                } else {
                    x.push_str(&format!("<c{}{}>{}</c>", ra, attrs, kids));
                }
            }
            x.push_str("</row>");
        }
        x.push_str("</sheetData>");
    }
    // merges
    if g.rng.chance(1, 4) {
        let r0 = g.rng.range(40, 60);
        x.push_str(&format!("<mergeCells count=\"2\"><mergeCell ref=\"A{}:C{}\"/><mergeCell ref=\"E{}:E{}\"/></mergeCells>", r0, r0 + 1, r0, r0 + 3));
        g.p("merge");
    }
    // hyperlinks
    let mut rels: Vec<String> = vec![];
    let mut next_rid = 1;
    if g.rng.chance(1, 2) {
        let n = g.rng.range(1, 3);
        let mut s = String::from("<hyperlinks>");
        let mut used: Vec<String> = vec![];
        for _ in 0..n {
            let cell = a1(g.rng.range(1, 6) as u32, g.rng.range(1, 12) as u32);
            if used.contains(&cell) {
                continue;
            }
            used.push(cell.clone());
            let mut h = format!("<hyperlink ref=\"{}\"", cell);
            let kind = if g.rng.chance(1, 30) { 5 } else { g.rng.below(5) };
            let url = g.rng.pick(&["http://example.com/?a=1&b=2", "https://x.org/a%20b#frag", "mailto:a@b.c?subject=R&D <1>", "file:///C:/it's/\"q\".xlsx", "http://é.日/😀"]).to_string();
            let loc = g.rng.pick(&["Sheet1!A1", "'R&D <1>'!B2", "MyName", "'It''s'!$C$3"]).to_string();
            if kind <= 2 || kind == 5 {
                let rid = format!("rId{}", next_rid);
                next_rid += 1;
                h.push_str(&format!(" r:id=\"{}\"", rid));
                rels.push(format!("<Relationship Id=\"{}\" Type=\"{}/hyperlink\"{} TargetMode=\"External\"/>", rid, NS_R, g.attr("Target", &url)));
                g.p("link.external");
            }
            if kind >= 3 {
                h.push_str(&g.attr("location", &loc));
                g.p(if kind == 5 { "link.external+location" } else { "link.location" });
            }
            if g.rng.chance(1, 3) {
                let tip = rand_string(g);
                h.push_str(&g.attr("tooltip", &tip));
                g.p("link.tooltip");
            }
            if g.rng.chance(1, 3) {
                let d = rand_string(g);
                h.push_str(&g.attr("display", &d));
                g.p("link.display");
            }
            h.push_str("/>");
            s.push_str(&h);
        }
        s.push_str("</hyperlinks>");
        x.push_str(&s);
    }
    if g.rng.chance(1, 3) {
        x.push_str("<pageMargins left=\"0.7\" right=\"0.7\" top=\"0.75\" bottom=\"0.75\" header=\"0.3\" footer=\"0.3\"/>");
    }
    let mut table = None;
    if want_table {
        let rid = format!("rId{}", next_rid);
        x.push_str(&format!("<tableParts count=\"1\"><tablePart r:id=\"{}\"/></tableParts>", rid));
        rels.push(format!("<Relationship Id=\"{}\" Type=\"{}/table\" Target=\"{}\"/>", rid, NS_R, table_part_target));
        let names = ["Col & 1", "a<b>", "\"q\" 'x'", "Sum é日", "x\ny"];
        let n = g.rng.range(1, 4) as usize;
        let mut t = String::from(DECL);
        let tname = *g.rng.pick(&["Table1", "T_é", "Sales.2024"]);
        t.push_str(&format!("<table xmlns=\"{}\" id=\"1\"{}{} ref=\"H1:{}5\" totalsRowShown=\"0\"><autoFilter ref=\"H1:{}5\"/><tableColumns count=\"{}\">", NS_MAIN, g.attr("name", tname), g.attr("displayName", tname), col_name(7 + n as u32), col_name(7 + n as u32), n));
        for i in 0..n {
            t.push_str(&format!("<tableColumn id=\"{}\"{}/>", i + 1, g.attr("name", names[i])));
        }
        t.push_str("</tableColumns><tableStyleInfo name=\"TableStyleMedium2\" showFirstColumn=\"0\" showLastColumn=\"0\" showRowStripes=\"1\" showColumnStripes=\"0\"/></table>");
        table = Some(t);
        g.p("table");
    }
    x.push_str("</worksheet>");
    SheetOut { xml: x, rels, table }
}

/// the parts of one generated package, in zip order
pub fn gen_package(seed: u64) -> (Vec<(String, Vec<u8>)>, Vec<String>) {
    let mut g = G { rng: Rng::new(seed ^ 0xC03C03), prods: vec![] };
    let n_sheets = *g.rng.pick(&[1u32, 1, 2, 2, 3, 4]);
    let mut names: Vec<String> = vec![];
    for _ in 0..n_sheets {
        let n = wb::sheet_name(&mut g.rng, &names);
        names.push(n);
    }
    let styles = gen_styles(&mut g);
    let mut sst = Sst { items: vec![] };
    let table_sheet = if g.rng.chance(1, 4) { Some(g.rng.below(n_sheets as u64) as u32) } else { None };
    let mut parts: Vec<(String, Vec<u8>)> = vec![];
    let mut ct_overrides: Vec<(String, &str)> = vec![];
    let mut wb_rels: Vec<String> = vec![];
    let mut sheet_elems: Vec<String> = vec![];
    let mut sheet_parts: Vec<(String, String)> = vec![];
    // relationship ids in an order unrelated to the sheet order
    let rid_base = g.rng.range(1, 5);
    for i in 0..n_sheets {
        let part_name = match g.rng.below(4) {
            0 => format!("xl/worksheets/data{}.xml", i),
            1 => format!("xl/sheets/s{}.xml", i + 1),
            _ => format!("xl/worksheets/sheet{}.xml", n_sheets - i),
        };
        let out = gen_sheet(&mut g, &mut sst, styles.n_xf, &names, table_sheet == Some(i), "../tables/table1.xml");
        let rid = format!("rId{}", rid_base + (n_sheets - 1 - i) as u64);
        let target = if g.rng.chance(1, 4) {
            g.p("rel.absolute-target");
            format!("/{}", part_name)
        } else {
            part_name.trim_start_matches("xl/").to_string()
        };
        wb_rels.push(format!("<Relationship Id=\"{}\" Type=\"{}/worksheet\" Target=\"{}\"/>", rid, NS_R, target));
        let mut se = format!("<sheet{} sheetId=\"{}\"", g.attr("name", &names[i as usize]), 10 - i);
        if n_sheets > 1 && i > 0 && g.rng.chance(1, 4) {
            let st = *g.rng.pick(&["hidden", "veryHidden"]);
            se.push_str(&format!(" state=\"{}\"", st));
            g.p("sheet.hidden");
        }
        se.push_str(&format!(" r:id=\"{}\"/>", rid));
        sheet_elems.push(se);
        if !out.rels.is_empty() {
            let (dir, file) = part_name.rsplit_once('/').unwrap();
            let mut r = String::from(DECL);
            r.push_str(&format!("<Relationships xmlns=\"{}\">{}</Relationships>", NS_PKG_REL, out.rels.join("")));
            sheet_parts.push((format!("{}/_rels/{}.rels", dir, file), r));
        }
        if let Some(t) = out.table {
            // the table part lives next to the sheet directory
            let (dir, _) = part_name.rsplit_once('/').unwrap();
            let tdir = dir.rsplit_once('/').map(|x| x.0).unwrap_or("");
            let tname = format!("{}/tables/table1.xml", tdir);
            sheet_parts.push((tname.clone(), t));
            ct_overrides.push((tname, "application/vnd.openxmlformats-officedocument.spreadsheetml.table+xml"));
        }
        ct_overrides.push((part_name.clone(), "application/vnd.openxmlformats-officedocument.spreadsheetml.worksheet+xml"));
        sheet_parts.push((part_name, out.xml));
    }
    // workbook
    let mut w = String::from(DECL);
    w.push_str(&format!("<workbook xmlns=\"{}\" xmlns:r=\"{}\">", NS_MAIN, NS_R));
    if g.rng.chance(1, 2) {
        w.push_str("<workbookPr defaultThemeVersion=\"124226\"/>");
    }
    let active = if g.rng.chance(1, 2) { 0 } else { g.rng.below(n_sheets as u64) };
    if active != 0 || g.rng.chance(1, 2) {
        w.push_str(&format!("<bookViews><workbookView xWindow=\"0\" yWindow=\"0\" windowWidth=\"20000\" windowHeight=\"10000\" activeTab=\"{}\"/></bookViews>", active));
    }
    w.push_str(&format!("<sheets>{}</sheets>", sheet_elems.join("")));
    if g.rng.chance(3, 5) {
        let n = g.rng.range(1, 4);
        let mut d = String::from("<definedNames>");
        let mut used: Vec<String> = vec![];
        for _ in 0..n {
            let nm = g.rng.pick(&["MyName", "_x1", "Tax.Rate", "Über", "Print_Area", "N2", "P&L<1>", "Q\"uote'"]).to_string();
            let local = g.rng.chance(1, 3);
            let key = format!("{}{}", nm, local);
            if used.contains(&key) {
                continue;
            }
            used.push(key);
            let sheet = g.rng.pick(&names).clone();
            // another sheet than `sheet` when there is one (for areas that span sheets)
            let other = names.iter().find(|n| **n != sheet).cloned();
            let text = match g.rng.below(10) {
                7 | 8 if other.is_some() => {
                    // a list of areas whose FIRST area is on one sheet and whose LAST area is on another one
                    // (the library attaches an unscoped name to the sheet of its first area)
                    g.p("name.multi-sheet");
                    let o = other.clone().unwrap();
                    if g.rng.chance(1, 2) {
                        format!("{}!$A$1:$B$2,{}!$C$3", wb::quote_sheet(&sheet), wb::quote_sheet(&o))
                    } else {
                        format!("{}!$A$1,{}!$B$2:$B$3,{}!$C$3", wb::quote_sheet(&sheet), wb::quote_sheet(&sheet), wb::quote_sheet(&o))
                    }
                }
                9 => {
                    // an area on a sheet that does not exist (a stale name): stays in the workbook's list
                    g.p("name.unknown-sheet");
                    "Gone!$A$1".to_string()
                }
                0 | 1 => format!("{}!$A$1", wb::quote_sheet(&sheet)),
                2 => format!("{}!$B$2:$C$5", wb::quote_sheet(&sheet)),
                3 => {
                    g.p("name.constant");
                    g.rng.pick(&["42", "\"a&b\"", "0.5"]).to_string()
                }
                4 => {
                    g.p("name.formula");
                    format!("SUM({}!$A$1:$A$5)", wb::quote_sheet(&sheet))
                }
                5 => {
                    g.p("name.multi-area");
                    format!("{}!$A$1,{}!$C$3", wb::quote_sheet(&sheet), wb::quote_sheet(&sheet))
                }
                _ => format!("{}!$D$4", wb::quote_sheet(&sheet)),
            };
            let mut e = format!("<definedName{}", g.attr("name", &nm));
            if local {
                e.push_str(&format!(" localSheetId=\"{}\"", g.rng.below(n_sheets as u64)));
                g.p("name.local");
            } else {
                g.p("name.global");
            }
            if g.rng.chance(1, 6) {
                e.push_str(" hidden=\"1\"");
            }
            e.push_str(&format!(">{}</definedName>", g.text(&text)));
            d.push_str(&e);
        }
        d.push_str("</definedNames>");
        w.push_str(&d);
    }
    w.push_str("<calcPr calcId=\"145621\"/></workbook>");
    // shared strings
    let has_sst = !sst.items.is_empty() || g.rng.chance(1, 2);
    let mut next = rid_base + n_sheets as u64;
    if has_sst {
        wb_rels.push(format!("<Relationship Id=\"rId{}\" Type=\"{}/sharedStrings\" Target=\"sharedStrings.xml\"/>", next, NS_R));
        next += 1;
    }
    wb_rels.push(format!("<Relationship Id=\"rId{}\" Type=\"{}/styles\" Target=\"styles.xml\"/>", next, NS_R));
    // shuffle the relationship elements
    for i in (1..wb_rels.len()).rev() {
        let j = g.rng.below(i as u64 + 1) as usize;
        wb_rels.swap(i, j);
    }
    // content types
    let mut ct = String::from(DECL);
    ct.push_str("<Types xmlns=\"http://schemas.openxmlformats.org/package/2006/content-types\"><Default Extension=\"rels\" ContentType=\"application/vnd.openxmlformats-package.relationships+xml\"/><Default Extension=\"xml\" ContentType=\"application/xml\"/>");
    ct.push_str("<Override PartName=\"/xl/workbook.xml\" ContentType=\"application/vnd.openxmlformats-officedocument.spreadsheetml.sheet.main+xml\"/>");
    for (n, t) in &ct_overrides {
        ct.push_str(&format!("<Override PartName=\"/{}\" ContentType=\"{}\"/>", n, t));
    }
    ct.push_str("<Override PartName=\"/xl/styles.xml\" ContentType=\"application/vnd.openxmlformats-officedocument.spreadsheetml.styles+xml\"/>");
    if has_sst {
        ct.push_str("<Override PartName=\"/xl/sharedStrings.xml\" ContentType=\"application/vnd.openxmlformats-officedocument.spreadsheetml.sharedStrings+xml\"/>");
    }
    ct.push_str("</Types>");
    parts.push(("[Content_Types].xml".into(), ct.into_bytes()));
    parts.push(("_rels/.rels".into(), format!("{}<Relationships xmlns=\"{}\"><Relationship Id=\"rId1\" Type=\"{}/officeDocument\" Target=\"xl/workbook.xml\"/></Relationships>", DECL, NS_PKG_REL, NS_R).into_bytes()));
    parts.push(("xl/workbook.xml".into(), w.into_bytes()));
    parts.push(("xl/_rels/workbook.xml.rels".into(), format!("{}<Relationships xmlns=\"{}\">{}</Relationships>", DECL, NS_PKG_REL, wb_rels.join("")).into_bytes()));
    for (n, x) in sheet_parts {
        parts.push((n, x.into_bytes()));
    }
    parts.push(("xl/styles.xml".into(), styles.xml.into_bytes()));
    if has_sst {
        let mut s = String::from(DECL);
        let counts = if g.rng.chance(1, 2) { format!(" count=\"{}\" uniqueCount=\"{}\"", sst.items.len() + 3, sst.items.len()) } else { String::new() };
        s.push_str(&format!("<sst xmlns=\"{}\"{}>", NS_MAIN, counts));
        for it in &sst.items {
            s.push_str(&format!("<si>{}</si>", it));
        }
        s.push_str("</sst>");
        parts.push(("xl/sharedStrings.xml".into(), s.into_bytes()));
    }
    (parts, g.prods)
}

/// hand-written boundary packages (the `edge` stream): one small workbook around a given sheetData
pub fn edge_package(k: u64) -> Option<Vec<(String, Vec<u8>)>> {
    if k == 14 {
        return Some(edge_names_package());
    }
    let ct = format!("{}<Types xmlns=\"http://schemas.openxmlformats.org/package/2006/content-types\"><Default Extension=\"rels\" ContentType=\"application/vnd.openxmlformats-package.relationships+xml\"/><Default Extension=\"xml\" ContentType=\"application/xml\"/><Override PartName=\"/xl/workbook.xml\" ContentType=\"application/vnd.openxmlformats-officedocument.spreadsheetml.sheet.main+xml\"/><Override PartName=\"/xl/worksheets/sheet1.xml\" ContentType=\"application/vnd.openxmlformats-officedocument.spreadsheetml.worksheet+xml\"/><Override PartName=\"/xl/styles.xml\" ContentType=\"application/vnd.openxmlformats-officedocument.spreadsheetml.styles+xml\"/><Override PartName=\"/xl/sharedStrings.xml\" ContentType=\"application/vnd.openxmlformats-officedocument.spreadsheetml.sharedStrings+xml\"/></Types>", DECL);
    let rels = format!("{}<Relationships xmlns=\"{}\"><Relationship Id=\"rId1\" Type=\"{}/officeDocument\" Target=\"xl/workbook.xml\"/></Relationships>", DECL, NS_PKG_REL, NS_R);
    let wrels = format!("{}<Relationships xmlns=\"{}\"><Relationship Id=\"rId1\" Type=\"{}/worksheet\" Target=\"worksheets/sheet1.xml\"/><Relationship Id=\"rId2\" Type=\"{}/styles\" Target=\"styles.xml\"/><Relationship Id=\"rId3\" Type=\"{}/sharedStrings\" Target=\"sharedStrings.xml\"/></Relationships>", DECL, NS_PKG_REL, NS_R, NS_R, NS_R);
    let styles = format!("{}<styleSheet xmlns=\"{}\"><fonts count=\"1\"><font><sz val=\"11\"/><name val=\"Calibri\"/></font></fonts><fills count=\"1\"><fill><patternFill patternType=\"none\"/></fill></fills><borders count=\"1\"><border><left/><right/><top/><bottom/><diagonal/></border></borders><cellStyleXfs count=\"1\"><xf numFmtId=\"0\" fontId=\"0\" fillId=\"0\" borderId=\"0\"/></cellStyleXfs><cellXfs count=\"2\"><xf numFmtId=\"0\" fontId=\"0\" fillId=\"0\" borderId=\"0\" xfId=\"0\"/><xf numFmtId=\"2\" fontId=\"0\" fillId=\"0\" borderId=\"0\" xfId=\"0\" applyNumberFormat=\"1\"/></cellXfs></styleSheet>", DECL, NS_MAIN);
    let mut sheet_tag = "<sheet name=\"S\" sheetId=\"1\" r:id=\"rId1\"/>".to_string();
    let mut sst = "<si><t>x</t></si>".to_string();
    let mut after_data = String::new();
    let mut sheet_rels: Option<String> = None;
    let mut wrels = wrels;
    let mut sheet2: Option<String> = None;
    let data = match k {
        // a DUPLICATED relationship id in the workbook's relationships part (OPC forbids it): reader/xlsx.rs reads the
        // part of every relationship with the sheet's r:id and keeps the LAST (model `sheetRel`, theorem
        // C03_sheet_part_last); the decoder names the first and reports a diagnostic, so `c03 decode` compares the head
        // of the view only and `c03 model` the sheet (value 2 from sheet2.xml, a merged range only there)
        15 => {
            wrels = format!("{}<Relationships xmlns=\"{}\"><Relationship Id=\"rId1\" Type=\"{}/worksheet\" Target=\"worksheets/sheet1.xml\"/><Relationship Id=\"rId2\" Type=\"{}/styles\" Target=\"styles.xml\"/><Relationship Id=\"rId3\" Type=\"{}/sharedStrings\" Target=\"sharedStrings.xml\"/><Relationship Id=\"rId1\" Type=\"{}/worksheet\" Target=\"worksheets/sheet2.xml\"/></Relationships>", DECL, NS_PKG_REL, NS_R, NS_R, NS_R, NS_R);
            sheet2 = Some(format!("{}<worksheet xmlns=\"{}\" xmlns:r=\"{}\"><sheetData><row r=\"1\"><c r=\"A1\"><v>2</v></c><c r=\"B1\" t=\"s\"><v>0</v></c></row></sheetData><mergeCells count=\"1\"><mergeCell ref=\"A5:B6\"/></mergeCells></worksheet>", DECL, NS_MAIN, NS_R));
            "<row r=\"1\"><c r=\"A1\"><v>1</v></c></row>".to_string()
        }
        // the non-vacuity example of C03_sheet_store (Thm/C03Store.lean `dupRows`): position A1 three times (twice in
        // row 1, once more in a second <row r="1">), B1 once: Cells::set_fast keeps the LAST cell of a position
        16 => "<row r=\"1\"><c r=\"A1\"><v>1</v></c><c r=\"B1\"><v>2</v></c><c r=\"A1\"><v>3</v></c></row><row r=\"1\"><c r=\"A1\" t=\"str\"><v>last</v></c></row>".to_string(),
        // a shared-formula child left of / below its master whose relative reference would leave the grid
        1 => "<row r=\"2\"><c r=\"C2\"><f t=\"shared\" ref=\"B2:C3\" si=\"0\">A1+$A$1</f><v>1</v></c></row><row r=\"3\"><c r=\"B3\"><f t=\"shared\" si=\"0\"/><v>2</v></c><c r=\"C3\"><f t=\"shared\" si=\"0\"/><v>3</v></c></row>".to_string(),
        // the same block inside the grid: children left-below and below
        2 => "<row r=\"2\"><c r=\"C2\"><f t=\"shared\" ref=\"A2:C4\" si=\"7\">B1+$B1+B$1+SUM(B1:C2)</f><v>1</v></c></row><row r=\"3\"><c r=\"A3\"><f t=\"shared\" si=\"7\"/><v>2</v></c></row><row r=\"4\"><c r=\"B4\"><f t=\"shared\" si=\"7\"/></c><c r=\"C4\"><f t=\"shared\" si=\"7\"/></c></row>".to_string(),
        // start/end tag form of <sheet>
        3 => {
            sheet_tag = "<sheet name=\"S\" sheetId=\"1\" r:id=\"rId1\"></sheet>".to_string();
            "<row r=\"1\"><c r=\"A1\"><v>1</v></c></row>".to_string()
        }
        // CDATA section and a comment inside text
        4 => {
            sst = "<si><t><![CDATA[a<b]]></t></si><si><t>x<!-- c -->y</t></si>".to_string();
            "<row r=\"1\"><c r=\"A1\" t=\"s\"><v>0</v></c><c r=\"B1\" t=\"s\"><v>1</v></c><c r=\"C1\" t=\"str\"><v>p<!-- c -->q</v></c></row>".to_string()
        }
        // a literal line feed inside an attribute value (XML 3.3.3: it is a blank); witness of C03_attr_literal_whitespace_fails
        5 => {
            sheet_tag = "<sheet name=\"a\nb\" sheetId=\"1\" r:id=\"rId1\"/>".to_string();
            "<row r=\"1\"><c r=\"A1\"><v>1</v></c></row>".to_string()
        }
        // t="b" with the xsd:boolean words (before fix_1: `true` was loaded as FALSE); replayed witness of C03_cell_bool
        6 => "<row r=\"1\"><c r=\"A1\" t=\"b\"><v>true</v></c><c r=\"B1\" t=\"b\"><v>false</v></c><c r=\"C1\" t=\"b\"><v>1</v></c><c r=\"D1\" t=\"b\"><v>0</v></c></row>".to_string(),
        // a string item with both a plain t and runs, inline and shared (witness of C03_cell_t_and_runs_fails)
        7 => {
            sst = "<si><t>a</t><r><t>b</t></r></si>".to_string();
            "<row r=\"1\"><c r=\"A1\" t=\"inlineStr\"><is><t>a</t><r><t>b</t></r></is></c><c r=\"B1\" t=\"s\"><v>0</v></c></row>".to_string()
        }
        // an empty-element string item occupies its index (before fix_2 the reader skipped it: index 1 panicked)
        8 => {
            sst = "<si/><si><t>x</t></si>".to_string();
            "<row r=\"1\"><c r=\"A1\" t=\"s\"><v>1</v></c></row>".to_string()
        }
        // blanks at the ends of texts: kept in t="str", in <f>, in the shared-strings part; trimmed in an inline
        // <t> without xml:space (witness of C03_cell_edge_blanks_fails)
        9 => {
            sst = "<si><t> a </t></si>".to_string();
            "<row r=\"1\"><c r=\"A1\" t=\"str\"><v> x </v></c><c r=\"B1\"><f> A1 </f><v>1</v></c><c r=\"C1\" t=\"inlineStr\"><is><t> a </t></is></c><c r=\"D1\" t=\"s\"><v>0</v></c></row>".to_string()
        }
        // shared-formula children whose relative references land EXACTLY on the last row / last column of the grid
        // (A1048576, XFD1): still inside; and, for the last child, one step beyond (-> #REF!)
        10 => "<row r=\"1\"><c r=\"A1\"><f t=\"shared\" ref=\"A1:B3\" si=\"0\">SUM(A3:A1048574)+XFC1+$A1048574+XFC$1</f><v>1</v></c><c r=\"B1\"><f t=\"shared\" si=\"0\"/><v>2</v></c></row><row r=\"2\"><c r=\"A2\"><f t=\"shared\" si=\"0\"/><v>3</v></c></row><row r=\"3\"><c r=\"A3\"><f t=\"shared\" si=\"0\"/><v>4</v></c><c r=\"B3\"><f t=\"shared\" si=\"0\"/><v>5</v></c></row>".to_string(),
        11 => "<row r=\"1\"><c r=\"A1\"><f t=\"shared\" ref=\"A1:C4\" si=\"0\">SUM(A3:A1048574)+XFC1</f><v>1</v></c></row><row r=\"4\"><c r=\"A4\"><f t=\"shared\" si=\"0\"/><v>3</v></c><c r=\"C4\"><f t=\"shared\" si=\"0\"/><v>4</v></c></row>".to_string(),
        // the non-vacuity example of theorem C03_sheet (Thm/C03Sheet.lean `exampleSheet` / `sheetSis`): two shared
        // groups, children right of / below left of the master, a row and cells without r, an inline string, <si/>
        12 => {
            sst = "<si><t>x</t></si><si/><si><r><t>a</t></r><r><t>b</t></r><rPh><t>y</t></rPh></si>".to_string();
            "<row r=\"2\"><c r=\"C2\"><f t=\"shared\" ref=\"A2:D3\" si=\"0\">A1+$B$1</f><v>1</v></c><c><f t=\"shared\" si=\"0\"/><v>2</v></c></row><row><c t=\"s\"><f t=\"shared\" si=\"0\"/><v>1</v></c><c t=\"inlineStr\"><f t=\"shared\" si=\"0\"/><is><t>12</t></is></c><c s=\"1\" t=\"s\"><f t=\"shared\" ref=\"C3:C4\" si=\"7\">SUM(A$1:B2)</f><v>2</v></c></row><row><c r=\"C4\"><f t=\"shared\" si=\"7\"/></c></row>".to_string()
        }
        // the witness of C03_hyperlink_location_with_rid_fails: r:id and location on one hyperlink, next to the
        // non-vacuity example of C03_hyperlinks (an external link with tooltip, an internal link) and two merges
        13 => {
            after_data = "<mergeCells count=\"2\"><mergeCell ref=\"A5:B6\"/><mergeCell ref=\"C5:XFD7\"/></mergeCells><hyperlinks><hyperlink ref=\"A1\" r:id=\"rId1\" location=\"S!B2\"/><hyperlink ref=\"A2\" r:id=\"rId2\" tooltip=\"tip\"/><hyperlink ref=\"B2\" location=\"'S 2'!A1\"/></hyperlinks>".to_string();
            sheet_rels = Some(format!("{}<Relationships xmlns=\"{}\"><Relationship Id=\"rId1\" Type=\"{}/hyperlink\" Target=\"http://x/\" TargetMode=\"External\"/><Relationship Id=\"rId2\" Type=\"{}/hyperlink\" Target=\"http://x/?a=1&amp;b=2\" TargetMode=\"External\"/></Relationships>", DECL, NS_PKG_REL, NS_R, NS_R));
            "<row r=\"1\"><c r=\"A1\"><v>1</v></c></row>".to_string()
        }
        _ => return None,
    };
    let wb = format!("{}<workbook xmlns=\"{}\" xmlns:r=\"{}\"><sheets>{}</sheets></workbook>", DECL, NS_MAIN, NS_R, sheet_tag);
    let sheet = format!("{}<worksheet xmlns=\"{}\" xmlns:r=\"{}\"><sheetData>{}</sheetData>{}</worksheet>", DECL, NS_MAIN, NS_R, data, after_data);
    let sst = format!("{}<sst xmlns=\"{}\">{}</sst>", DECL, NS_MAIN, sst);
    let mut v: Vec<(String, Vec<u8>)> = vec![
        ("[Content_Types].xml".into(), ct.into_bytes()),
        ("_rels/.rels".into(), rels.into_bytes()),
        ("xl/workbook.xml".into(), wb.into_bytes()),
        ("xl/_rels/workbook.xml.rels".into(), wrels.into_bytes()),
        ("xl/worksheets/sheet1.xml".into(), sheet.into_bytes()),
        ("xl/styles.xml".into(), styles.into_bytes()),
        ("xl/sharedStrings.xml".into(), sst.into_bytes()),
    ];
    if let Some(r) = sheet_rels {
        v.push(("xl/worksheets/_rels/sheet1.xml.rels".into(), r.into_bytes()));
    }
    if let Some(s2) = sheet2 {
        v.push(("xl/worksheets/sheet2.xml".into(), s2.into_bytes()));
    }
    Some(v)
}

pub const N_EDGE: u64 = 16;

/// edge 14: where defined names live after loading (the example package of `C03_names_home`, Thm/C03Names.lean
/// `exampleNames`).  Three sheets `Data`, `S 2`, `T&U` (escaped in the attribute); names:
///   Loc      localSheetId=2, area on Data                  -> sheet 2 (the scope, not the sheet of the area)
///   First    no scope, areas 'S 2'!A1:B2 , Data!C3           -> sheet 1 (FIRST area; a rule by the last area says sheet 0)
///   Amp      no scope, area 'T&U'!$A$1 (escaped text)      -> sheet 2
///   P&L      no scope, escaped NAME, formula body          -> workbook list
///   Txt      no scope, text constant "a,b"                 -> workbook list
///   Gone     no scope, area on a sheet that does not exist -> workbook list
///   Rows     localSheetId=0, whole rows (not an `is_address`: kept as text) -> sheet 0
fn edge_names_package() -> Vec<(String, Vec<u8>)> {
    let ct = format!("{}<Types xmlns=\"http://schemas.openxmlformats.org/package/2006/content-types\"><Default Extension=\"rels\" ContentType=\"application/vnd.openxmlformats-package.relationships+xml\"/><Default Extension=\"xml\" ContentType=\"application/xml\"/><Override PartName=\"/xl/workbook.xml\" ContentType=\"application/vnd.openxmlformats-officedocument.spreadsheetml.sheet.main+xml\"/><Override PartName=\"/xl/worksheets/sheet1.xml\" ContentType=\"application/vnd.openxmlformats-officedocument.spreadsheetml.worksheet+xml\"/><Override PartName=\"/xl/worksheets/sheet2.xml\" ContentType=\"application/vnd.openxmlformats-officedocument.spreadsheetml.worksheet+xml\"/><Override PartName=\"/xl/worksheets/sheet3.xml\" ContentType=\"application/vnd.openxmlformats-officedocument.spreadsheetml.worksheet+xml\"/><Override PartName=\"/xl/styles.xml\" ContentType=\"application/vnd.openxmlformats-officedocument.spreadsheetml.styles+xml\"/></Types>", DECL);
    let rels = format!("{}<Relationships xmlns=\"{}\"><Relationship Id=\"rId1\" Type=\"{}/officeDocument\" Target=\"xl/workbook.xml\"/></Relationships>", DECL, NS_PKG_REL, NS_R);
    // relative, absolute and dotted targets for the three sheets
    let wrels = format!("{}<Relationships xmlns=\"{}\"><Relationship Id=\"rId1\" Type=\"{}/worksheet\" Target=\"worksheets/sheet1.xml\"/><Relationship Id=\"rId2\" Type=\"{}/worksheet\" Target=\"/xl/worksheets/sheet2.xml\"/><Relationship Id=\"rId3\" Type=\"{}/worksheet\" Target=\"./worksheets/../worksheets/sheet3.xml\"/><Relationship Id=\"rId4\" Type=\"{}/styles\" Target=\"styles.xml\"/></Relationships>", DECL, NS_PKG_REL, NS_R, NS_R, NS_R, NS_R);
    let styles = format!("{}<styleSheet xmlns=\"{}\"><fonts count=\"1\"><font><sz val=\"11\"/><name val=\"Calibri\"/></font></fonts><fills count=\"1\"><fill><patternFill patternType=\"none\"/></fill></fills><borders count=\"1\"><border><left/><right/><top/><bottom/><diagonal/></border></borders><cellStyleXfs count=\"1\"><xf numFmtId=\"0\" fontId=\"0\" fillId=\"0\" borderId=\"0\"/></cellStyleXfs><cellXfs count=\"1\"><xf numFmtId=\"0\" fontId=\"0\" fillId=\"0\" borderId=\"0\" xfId=\"0\"/></cellXfs></styleSheet>", DECL, NS_MAIN);
    let wb = format!("{}<workbook xmlns=\"{}\" xmlns:r=\"{}\"><sheets><sheet name=\"Data\" sheetId=\"1\" r:id=\"rId1\"/><sheet name=\"S 2\" sheetId=\"2\" r:id=\"rId2\"/><sheet name=\"T&amp;U\" sheetId=\"3\" r:id=\"rId3\"/></sheets><definedNames><definedName name=\"Loc\" localSheetId=\"2\">'Data'!$A$1</definedName><definedName name=\"First\">'S 2'!$A$1:$B$2,'Data'!$C$3</definedName><definedName name=\"Amp\">'T&amp;U'!$A$1</definedName><definedName name=\"P&amp;L\">SUM(Data!$A$1:$A$5)-'S 2'!$B$1</definedName><definedName name=\"Txt\">\"a,b\"</definedName><definedName name=\"Gone\">'Gone'!$A$1</definedName><definedName name=\"Rows\" localSheetId=\"0\">Data!$1:$2</definedName></definedNames></workbook>", DECL, NS_MAIN, NS_R);
    let sheet = |v: u32, extra: &str| format!("{}<worksheet xmlns=\"{}\" xmlns:r=\"{}\"><sheetData><row r=\"1\"><c r=\"A1\"><v>{}</v></c></row></sheetData>{}</worksheet>", DECL, NS_MAIN, NS_R, v, extra);
    vec![
        ("[Content_Types].xml".into(), ct.into_bytes()),
        ("_rels/.rels".into(), rels.into_bytes()),
        ("xl/workbook.xml".into(), wb.into_bytes()),
        ("xl/_rels/workbook.xml.rels".into(), wrels.into_bytes()),
        ("xl/worksheets/sheet1.xml".into(), sheet(1, "<mergeCells count=\"3\"><mergeCell ref=\"A5:B6\"/><mergeCell ref=\"C5:XFD7\"/><mergeCell ref=\"A9:A1048576\"/></mergeCells>").into_bytes()),
        ("xl/worksheets/sheet2.xml".into(), sheet(2, "").into_bytes()),
        ("xl/worksheets/sheet3.xml".into(), sheet(3, "").into_bytes()),
        ("xl/styles.xml".into(), styles.into_bytes()),
    ]
}

pub fn zip_parts(parts: &[(String, Vec<u8>)], stored: bool) -> Vec<u8> {
    let mut buf: Vec<u8> = Vec::new();
    {
        let mut z = zip::ZipWriter::new(std::io::Cursor::new(&mut buf));
        let opt = zip::write::SimpleFileOptions::default().compression_method(if stored { zip::CompressionMethod::Stored } else { zip::CompressionMethod::Deflated });
        for (n, d) in parts {
            z.start_file(n.as_str(), opt).unwrap();
            z.write_all(d).unwrap();
        }
        z.finish().unwrap();
    }
    buf
}

// ------------------------------------------------------------------------------------------------
// the view of what the library loaded
// ------------------------------------------------------------------------------------------------

const DEFAULT_FACTS: &str = "0_-_none_";

fn color_text(c: &Color) -> String {
    // Color keeps rgb / theme / indexed apart; get_argb() maps an indexed colour through the palette
    let d = format!("{:?}", c);
    let has = |k: &str| -> bool {
        // `k: <Kind>Value { value: Some(` in the derived Debug text
        d.split(&format!("{}: ", k)).nth(1).map(|r| r.split('}').next().unwrap_or("").contains("Some(")).unwrap_or(false)
    };
    if has("argb") {
        format!("rgb:{}", c.get_argb())
    } else if has("theme_index") {
        format!("theme:{}", c.get_theme_index())
    } else if has("indexed") {
        format!("indexed:{}", c.get_indexed())
    } else {
        String::new()
    }
}

fn facts(st: &Style) -> String {
    let nf = match st.get_number_format() {
        Some(n) => {
            let id = *n.get_number_format_id();
            if id >= 164 {
                let code = n.get_format_code();
                format!("{}:{}", id, if code.is_empty() { "~".to_string() } else { hex(code) })
            } else {
                id.to_string()
            }
        }
        None => "0".to_string(),
    };
    let bold = st.get_font().map(|f| *f.get_bold()).unwrap_or(false);
    let (pat, fg) = match st.get_fill().and_then(|f| f.get_pattern_fill()) {
        Some(p) => (p.get_pattern_type().get_value_string().to_string(), p.get_foreground_color().map(color_text).unwrap_or_default()),
        None => ("none".to_string(), String::new()),
    };
    format!("{}_{}_{}_{}", nf, if bold { "b" } else { "-" }, pat, fg)
}

/// presence of a value in a `…Value` field, from the derived Debug text (`field: XValue { value: Some(`)
fn dbg_has<T: std::fmt::Debug>(x: &T, field: &str) -> bool {
    let d = format!("{:?}", x);
    d.split(&format!("{}: ", field)).nth(1).map(|r| r.split('}').next().unwrap_or("").contains("Some(")).unwrap_or(false)
}

fn color_full(c: &Color) -> String {
    let idx = dbg_has(c, "indexed");
    let rgb = if idx || !dbg_has(c, "argb") { "~".to_string() } else { hex(c.get_argb()) };
    let theme = if dbg_has(c, "theme_index") { c.get_theme_index().to_string() } else { "~".into() };
    let indexed = if idx { c.get_indexed().to_string() } else { "~".into() };
    let tint = if dbg_has(c, "tint") { bits(*c.get_tint()) } else { "~".into() };
    format!("{}^{}^{}^{}", rgb, theme, indexed, tint)
}

fn flag(b: bool) -> &'static str {
    if b {
        "1"
    } else {
        "0"
    }
}

pub const DEFAULT_FULL: &str = "0_-_-_-_-_-";

/// the resolved effective facts of a cell's style through the public getters: number format, font (name, size, bold,
/// italic, strike, underline, colour), pattern fill (type, both colours), the five border edges (style, colour) and the
/// diagonal flags, alignment, protection
fn facts_full(st: &Style) -> String {
    let nf = match st.get_number_format() {
        Some(n) => {
            let id = *n.get_number_format_id();
            if id >= 164 {
                let code = n.get_format_code();
                format!("{}:{}", id, if code.is_empty() { "~".to_string() } else { hex(code) })
            } else {
                id.to_string()
            }
        }
        None => "0".to_string(),
    };
    let font = match st.get_font() {
        Some(f) => format!("{}:{}:{}{}{}:{}:{}", or_tilde(f.get_name()), bits(*f.get_size()), flag(*f.get_bold()), flag(*f.get_italic()), flag(*f.get_strikethrough()), if dbg_has(f, "font_underline") { f.get_underline() } else { "none" }, color_full(f.get_color())),
        None => "-".into(),
    };
    let fill = match st.get_fill() {
        Some(f) => match f.get_pattern_fill() {
            Some(p) => format!(
                "{}:{}:{}",
                p.get_pattern_type().get_value_string(),
                p.get_foreground_color().map(color_full).unwrap_or("-".into()),
                p.get_background_color().map(color_full).unwrap_or("-".into())
            ),
            None => "none:-:-".into(),
        },
        None => "-".into(),
    };
    let edge = |b: &Border| format!("{}^{}", b.get_border_style(), color_full(b.get_color()));
    let border = match st.get_borders() {
        Some(b) => format!("{}:{}:{}:{}:{}:{}{}", edge(b.get_left()), edge(b.get_right()), edge(b.get_top()), edge(b.get_bottom()), edge(b.get_diagonal()), flag(*b.get_diagonal_up()), flag(*b.get_diagonal_down())),
        None => "-".into(),
    };
    let align = match st.get_alignment() {
        Some(a) => format!("{}:{}:{}:{}", a.get_horizontal().get_value_string(), a.get_vertical().get_value_string(), flag(*a.get_wrap_text()), a.get_text_rotation()),
        None => "-".into(),
    };
    let prot = match st.get_protection() {
        Some(p) => {
            let mut q = p.clone();
            let h = *q.get_hidden();
            format!("{}{}", flag(*p.get_locked()), flag(h))
        }
        None => "-".into(),
    };
    format!("{}_{}_{}_{}_{}_{}", nf, font, fill, border, align, prot)
}

fn bits(f: f64) -> String {
    format!("{:016x}", f.to_bits())
}

fn or_tilde(s: &str) -> String {
    if s.is_empty() {
        "~".into()
    } else {
        hex(s)
    }
}

fn is_word_char(c: char) -> bool {
    c.is_ascii_alphanumeric() || "_.$\\?".contains(c) || (c as u32) >= 0x80
}

/// below the abstraction: a sheet qualifier may be written with or without apostrophes when it is a
/// plain word (`Sheet1!A1` = `'Sheet1'!A1`); defined names are compared with every such word quoted
pub fn quote_qualifiers(s: &str) -> String {
    let cs: Vec<char> = s.chars().collect();
    let mut out = String::new();
    let mut i = 0;
    while i < cs.len() {
        let c = cs[i];
        if c == '"' || c == '\'' {
            // literal up to the closing quote (a doubled quote toggles twice)
            out.push(c);
            i += 1;
            while i < cs.len() {
                out.push(cs[i]);
                if cs[i] == c {
                    if i + 1 < cs.len() && cs[i + 1] == c {
                        out.push(c);
                        i += 2;
                        continue;
                    }
                    i += 1;
                    break;
                }
                i += 1;
            }
        } else if c == '[' {
            let mut depth = 0;
            while i < cs.len() {
                out.push(cs[i]);
                if cs[i] == '[' {
                    depth += 1;
                } else if cs[i] == ']' {
                    depth -= 1;
                    if depth == 0 {
                        i += 1;
                        break;
                    }
                }
                i += 1;
            }
        } else if is_word_char(c) {
            let st = i;
            while i < cs.len() && is_word_char(cs[i]) {
                i += 1;
            }
            let w: String = cs[st..i].iter().collect();
            if i < cs.len() && cs[i] == '!' {
                out.push_str(&format!("'{}'", w));
            } else {
                out.push_str(&w);
            }
        } else {
            out.push(c);
            i += 1;
        }
    }
    out
}

pub fn view(book: &Spreadsheet) -> String {
    let n = book.get_sheet_count();
    let sheets: Vec<String> = (0..n)
        .map(|i| {
            let ws = book.get_sheet(&i).unwrap();
            format!("{}:{}", hex(ws.get_name()), match ws.get_state() { SheetStateValues::Hidden => "hidden", SheetStateValues::VeryHidden => "veryHidden", SheetStateValues::Visible => "visible" })
        })
        .collect();
    let mut names: Vec<String> = vec![];
    // every defined name with its HOME: the list it is found in after loading (`w` = Spreadsheet::get_defined_names(),
    // k = get_sheet(k).get_defined_names()).  `dview_of` / `mview_of` decide what of it each comparison sees.
    // 5th field: the text exactly as `get_address()` returns it (the spelling of the qualifiers included) - kept by `mview_of` for
    // the comparison with the reader MODEL (C03_defined_names_any_spelling: the library shows canonText of the file's text), dropped by
    // `dview_of` (the independent decoder shows the file's spelling; the two are compared with plain qualifiers quoted, field 3)
    let dn = |d: &DefinedName, home: &str| format!("{}:{}:{}:{}:{}", hex(d.get_name()), if d.has_local_sheet_id() { d.get_local_sheet_id().to_string() } else { "~".into() }, hex(&quote_qualifiers(&d.get_address())), home, hex(&d.get_address()));
    for d in book.get_defined_names() {
        names.push(dn(d, "w"));
    }
    for i in 0..n {
        for d in book.get_sheet(&i).unwrap().get_defined_names() {
            names.push(dn(d, &i.to_string()));
        }
    }
    names.sort();
    let per: Vec<String> = (0..n)
        .map(|i| {
            let ws = book.get_sheet(&i).unwrap();
            let mut cells = vec![];
            let mut links = vec![];
            for c in ws.get_cell_collection_sorted() {
                let coord = c.get_coordinate().get_coordinate();
                let f = c.get_formula();
                // a formula cell whose cached string result is empty is the same as one without a cached result
                // (below the abstraction: an empty string value is not distinguished from no value)
                let kind = if c.get_data_type() == "s" && c.get_value().is_empty() { "" } else { c.get_data_type() };
                let fx = facts_full(c.get_style());
                // the library creates a cell for every hyperlink anchor (it inherits the column / row style):
                // a cell without value and formula that anchors a hyperlink is not compared
                let anchor_only = kind.is_empty() && f.is_empty() && c.get_hyperlink().is_some();
                if !(kind.is_empty() && f.is_empty() && fx == DEFAULT_FULL) && !anchor_only {
                    let val = if kind == "n" { c.get_value_number().map(bits).unwrap_or("nan?".into()) } else { hex(&c.get_value()) };
                    cells.push(format!("{}/{}/{}/{}/{}", coord, kind, val, if f.is_empty() { "~".to_string() } else { hex(f) }, fx));
                }
                if let Some(h) = c.get_hyperlink() {
                    links.push(format!("{}/{}/{}/~/{}", coord, if *h.get_location() { "l" } else { "e" }, hex(h.get_url()), or_tilde(h.get_tooltip())));
                }
            }
            links.sort();
            let merges: Vec<String> = ws.get_merge_cells().iter().map(|m| m.get_range()).collect();
            // columns, run-length encoded
            let mut cols: Vec<(u32, String)> = ws
                .get_column_dimensions()
                .iter()
                .map(|c| (*c.get_col_num(), format!("{}:{}:{}", bits(*c.get_width()), if *c.get_hidden() { "h" } else { "-" }, facts(c.get_style()))))
                .collect();
            // the library creates a default Column (width 8.38) for every column it touches: no content
            cols.retain(|c| c.1 != format!("{}:-:{}", bits(8.38), DEFAULT_FACTS));
            cols.sort();
            let mut runs: Vec<(u32, u32, String)> = vec![];
            for (i, f) in cols {
                match runs.last_mut() {
                    Some(l) if l.1 + 1 == i && l.2 == f => l.1 = i,
                    _ => runs.push((i, i, f)),
                }
            }
            let cols: Vec<String> = runs.iter().map(|(a, b, f)| format!("{}-{}:{}", a, b, f)).collect();
            let mut rows: Vec<(u32, String)> = vec![];
            for r in ws.get_row_dimensions() {
                let fx = facts(r.get_style());
                let ht = if *r.get_height() == 0.0 { "~".to_string() } else { bits(*r.get_height()) };
                if !(ht == "~" && !*r.get_hidden() && fx == DEFAULT_FACTS) {
                    rows.push((*r.get_row_num(), format!("{}:{}:{}:{}", r.get_row_num(), ht, if *r.get_hidden() { "h" } else { "-" }, fx)));
                }
            }
            rows.sort();
            let rows: Vec<String> = rows.into_iter().map(|x| x.1).collect();
            let tables: Vec<String> = ws
                .get_tables()
                .iter()
                .map(|t| {
                    let a = t.get_area();
                    format!("{}:{}:{}:{}:{}", hex(t.get_name()), hex(t.get_display_name()), a.0.to_string(), a.1.to_string(), t.get_columns().iter().map(|c| hex(c.get_name())).collect::<Vec<_>>().join("|"))
                })
                .collect();
            let mut tables = tables;
            tables.sort();
            format!("cells={};merges={};links={};cols={};rows={};tables={}", cells.join(","), merges.join(","), links.join(","), cols.join(","), rows.join(","), tables.join(","))
        })
        .collect();
    format!("active={};sheets={};names={} # {}", book.get_workbook_view().get_active_tab(), sheets.join("|"), names.join("|"), per.join(" # "))
}

// ------------------------------------------------------------------------------------------------
// cases
// ------------------------------------------------------------------------------------------------

fn corpus_dir() -> String {
    format!("{}/tests/test_files", std::env::var("UMYA_REPO").unwrap_or("/repo".into()))
}

pub fn corpus_files(include_large: bool) -> Vec<String> {
    let mut v: Vec<String> = std::fs::read_dir(corpus_dir()).map(|d| d.filter_map(|e| e.ok()).map(|e| e.file_name().to_string_lossy().to_string()).collect()).unwrap_or_default();
    v.retain(|n| (n.ends_with(".xlsx") || n.ends_with(".xlsm")) && std::fs::metadata(format!("{}/{}", corpus_dir(), n)).map(|m| m.len() > 0 && (include_large || m.len() < 1_000_000)).unwrap_or(false));
    v.sort();
    v
}

/// the bytes of the file of a case header `c03 reset gen <seed>` / `c03 reset file <name>`
fn file_of(out: &mut Out, a: &[&str]) -> Result<Vec<u8>, String> {
    match a.get(2) {
        Some(&"gen") => {
            let seed: u64 = a.get(3).and_then(|s| s.parse().ok()).ok_or("seed")?;
            let (parts, prods) = gen_package(seed);
            for p in prods {
                out.count(&format!("prod.{}", p));
            }
            Ok(zip_parts(&parts, seed % 3 == 0))
        }
        Some(&"edge") => {
            let k: u64 = a.get(3).and_then(|s| s.parse().ok()).ok_or("k")?;
            edge_package(k).map(|p| zip_parts(&p, false)).ok_or("no such edge case".to_string())
        }
        Some(&"file") => std::fs::read(format!("{}/{}", corpus_dir(), a.get(3).ok_or("name")?)).map_err(|e| e.to_string()),
        _ => Err("bad case".into()),
    }
}

pub fn run_case(out: &mut Out, header: &str) {
    let a: Vec<&str> = header.split(' ').collect();
    out.begin(header);
    out.end(header, "ok", false);
    let bytes = match file_of(out, &a) {
        Ok(b) => b,
        Err(e) => {
            out.oracle_fail(Fail::new("case-build-failed").with("op", header).with("detail", e));
            return;
        }
    };
    out.count(&format!("case.{}", a[2]));
    out.count("programs");
    let parts = match unzip_all(&bytes) {
        Ok(p) => p,
        Err(e) => {
            out.oracle_fail(Fail::new("not-a-zip").with("op", header).with("detail", e));
            return;
        }
    };
    let parts: Vec<(String, Vec<u8>)> = parts.into_iter().filter(|p| !p.0.ends_with('/')).collect();
    out.count_n("parts", parts.len() as u64);
    for (name, data) in &parts {
        let isx = wb::is_xml_part(name);
        // drawings, charts, media … are outside the view: send only what the decoder reads
        let relevant = name == "[Content_Types].xml" || name.ends_with(".rels") || name.starts_with("xl/workbook") || name.contains("sheet") || name.contains("haredStrings") || name.contains("styles") || name.contains("table") || !name.contains('/') || a[2] != "file";
        let line = if relevant { format!("c03 part {} {} {}", hex(name), if isx { 1 } else { 0 }, hexb(data)) } else { format!("c03 part {} 0 -", hex(name)) };
        out.begin(&line);
        out.end(&line, "ok", true);
    }
    let line = "c03 decode".to_string();
    out.begin(&line);
    let v = match guard(|| umya_spreadsheet::reader::xlsx::read_reader(std::io::Cursor::new(&bytes), true)) {
        Ok(Ok(book)) => guard(|| view(&book)).unwrap_or("view-panicked".into()),
        Ok(Err(e)) => format!("read-error {}", format!("{:?}", e).replace('\n', " ")),
        Err(_) => "read-panicked".into(),
    };
    // a relationships part with a duplicated Id (OPC Part 2 9.3.2.2 forbids it): the decoder resolves the id to the
    // first relationship and reports a diagnostic, the library reads the last; compared is what both define: the head of
    // the view (active tab, sheet list, defined names).  The sheets are compared with the reader MODEL in `c03 model`.
    let dup_rel = parts.iter().any(|(n, d)| n.ends_with(".rels") && has_duplicate_rel_id(d));
    let reply = if dup_rel && !v.starts_with("read-") && !v.starts_with("view-") {
        out.count("case.duplicate-relationship-id");
        let dv = dview_of(out, &v);
        format!("errs=dup-rel-ids;;view={}", dv.split(" # ").next().unwrap_or(""))
    } else if a[2] == "edge" && a.get(3) == Some(&"16") {
        // repeated positions: the decoder must flag the order of rows / cells (`errs=order`) and show the LAST cell of a
        // position, as the library's store does (C03_sheet_store)
        format!("errs=order;;view={}", dview_of(out, &v))
    } else {
        format!("errs=0;;view={}", dview_of(out, &v))
    };
    out.end(&line, &reply, true);
    // the Lean MODEL of the reader above the cell level (sheetData loop with shared groups, shared strings,
    // hyperlinks, merges, sheet list, defined names) against the implementation: correspondence
    for (name, data) in &parts {
        if name.contains("sheet") && name.ends_with(".xml") && !name.contains("_rels") {
            sheet_counters(out, data);
        }
    }
    let line = "c03 model".to_string();
    out.begin(&line);
    let reply = format!("mview={}", mview_of(&v));
    out.end(&line, &reply, true);
}

/// `Id="…"` / `Id='…'` values of the <Relationship> elements of a relationships part, textually
fn has_duplicate_rel_id(data: &[u8]) -> bool {
    let t = String::from_utf8_lossy(data);
    let mut ids: Vec<String> = vec![];
    for el in t.split('<').filter(|e| e.starts_with("Relationship ") || e.starts_with("Relationship\n") || e.starts_with("Relationship\t")) {
        for q in ['"', '\''] {
            let pat = format!(" Id={}", q);
            if let Some(i) = el.find(&pat) {
                let rest = &el[i + pat.len()..];
                if let Some(j) = rest.find(q) {
                    ids.push(rest[..j].to_string());
                }
            }
        }
    }
    let n = ids.len();
    ids.sort();
    ids.dedup();
    ids.len() != n
}

/// the view the independent DECODER is compared with.  Where a defined name lives: ECMA-376 18.2.5 gives a name with
/// `localSheetId` = i the scope "sheet i" and a name without it the scope "workbook"; the standard knows no sheet that
/// "holds" a workbook-scoped name.  So for a scoped name the home the library chose is shown (the decoder expects i), for
/// an unscoped name `g` is shown whatever list the library put it into (that choice — the re-homing by the sheet of the
/// first area — is the library's API convention and is compared with the reader MODEL in `c03 model`, which sees every home).
pub fn dview_of(out: &mut Out, v: &str) -> String {
    let Some((head, rest)) = v.split_once(" # ") else { return v.to_string() };
    let fields: Vec<String> = head
        .split(';')
        .map(|f| match f.strip_prefix("names=") {
            Some(ns) if !ns.is_empty() => {
                let mut items: Vec<String> = ns
                    .split('|')
                    .map(|it| {
                        let p: Vec<&str> = it.split(':').collect();
                        let p: Vec<&str> = if p.len() == 5 { p[..4].to_vec() } else { p };
                        if p.len() == 4 {
                            out.count(if p[1] != "~" { "name.home.scoped" } else if p[3] == "w" { "name.home.global-in-workbook-list" } else { "name.home.global-rehomed-to-sheet" });
                        }
                        if p.len() == 4 && p[1] == "~" {
                            format!("{}:{}:{}:g", p[0], p[1], p[2])
                        } else {
                            p.join(":")
                        }
                    })
                    .collect();
                items.sort();
                format!("names={}", items.join("|"))
            }
            _ => f.to_string(),
        })
        .collect();
    format!("{} # {}", fields.join(";"), rest)
}

/// the modelled components of a view: sheet list, defined names WITH the home of every name, per sheet cells / merges / links
pub fn mview_of(v: &str) -> String {
    if v.starts_with("read-panicked") || v.starts_with("view-panicked") {
        return "read-panicked".into();
    }
    if v.starts_with("read-error") {
        return "read-error".into();
    }
    let chunks: Vec<&str> = v.split(" # ").collect();
    let keep = |chunk: &str, keys: &[&str]| -> String { chunk.split(';').filter(|f| keys.iter().any(|k| f.starts_with(k))).collect::<Vec<_>>().join(";") };
    let mut o = vec![keep(chunks[0], &["sheets=", "names="])];
    for ch in &chunks[1..] {
        o.push(keep(ch, &["cells=", "merges=", "links="]));
    }
    o.join(" # ")
}

/// distribution of the shared-formula groups and implied positions of one worksheet part (quick-xml scan,
/// informational: what the whole-sheet theorem C03_sheet quantifies over actually occurs in the inputs)
fn sheet_counters(out: &mut Out, data: &[u8]) {
    use quick_xml::events::Event;
    let mut rd = quick_xml::Reader::from_reader(data);
    let mut buf = Vec::new();
    let attr = |e: &quick_xml::events::BytesStart, k: &[u8]| -> Option<String> {
        e.attributes().with_checks(false).flatten().find(|a| a.key.as_ref() == k).map(|a| String::from_utf8_lossy(&a.value).to_string())
    };
    let split = |r: &str| -> (u32, u32) {
        let letters: String = r.chars().filter(|c| c.is_ascii_alphabetic()).collect();
        let digits: String = r.chars().filter(|c| c.is_ascii_digit()).collect();
        (letters.chars().fold(0u32, |a, c| a * 26 + (c.to_ascii_uppercase() as u32 - 64)), digits.parse().unwrap_or(0))
    };
    let (mut row, mut col) = (0u32, 0u32);
    let mut masters: BTreeMap<String, (u32, u32)> = BTreeMap::new();
    let (mut is_ws, mut rows_no_r, mut cells_no_r, mut children, mut inline, mut last_row_master) = (false, 0u64, 0u64, 0u64, 0u64, false);
    let (mut left, mut above, mut right, mut below) = (0u64, 0u64, 0u64, 0u64);
    let mut master_rows: Vec<u32> = vec![];
    loop {
        match rd.read_event_into(&mut buf) {
            Ok(Event::Start(ref e)) | Ok(Event::Empty(ref e)) => match e.name().as_ref() {
                b"worksheet" => is_ws = true,
                b"row" => {
                    match attr(e, b"r").and_then(|v| v.parse::<u32>().ok()) {
                        Some(r) => row = r,
                        None => {
                            row += 1;
                            rows_no_r += 1;
                        }
                    }
                    col = 0;
                }
                b"c" => {
                    match attr(e, b"r") {
                        Some(r) => col = split(&r).0,
                        None => {
                            col += 1;
                            cells_no_r += 1;
                        }
                    }
                    if attr(e, b"t").as_deref() == Some("inlineStr") {
                        inline += 1;
                    }
                }
                b"f" => {
                    if attr(e, b"t").as_deref() == Some("shared") {
                        let si = attr(e, b"si").unwrap_or_default();
                        match masters.get(&si) {
                            None => {
                                masters.insert(si, (col, row));
                                master_rows.push(row);
                            }
                            Some(&(mc, mr)) => {
                                children += 1;
                                if col < mc {
                                    left += 1;
                                }
                                if col > mc {
                                    right += 1;
                                }
                                if row < mr {
                                    above += 1;
                                }
                                if row > mr {
                                    below += 1;
                                }
                            }
                        }
                    }
                }
                _ => {}
            },
            Ok(Event::Eof) | Err(_) => break,
            _ => {}
        }
        buf.clear();
    }
    if !is_ws {
        return;
    }
    if master_rows.iter().any(|r| *r == row) {
        last_row_master = true;
    }
    out.count("sheet.scanned");
    if !masters.is_empty() {
        out.count("sheet.with-shared-groups");
    }
    if masters.len() >= 2 {
        out.count("sheet.with-2+-shared-groups");
    }
    out.count_n("shared.groups", masters.len() as u64);
    out.count_n("shared.children", children);
    out.count_n("shared.child-left-of-master", left);
    out.count_n("shared.child-right-of-master", right);
    out.count_n("shared.child-above-master", above);
    out.count_n("shared.child-below-master", below);
    if last_row_master {
        out.count("sheet.master-in-last-row");
    }
    out.count_n("sheet.rows-without-r", rows_no_r);
    out.count_n("sheet.cells-without-r", cells_no_r);
    out.count_n("sheet.inline-string-cells", inline);
}

pub fn gen(tier: Tier, seed: u64) -> Vec<String> {
    let mut rng = Rng::new(seed ^ 0xC03);
    let mut v = vec![];
    for f in corpus_files(tier == Tier::Thorough) {
        v.push(format!("c03 reset file {}", f));
    }
    for k in 1..=N_EDGE {
        v.push(format!("c03 reset edge {}", k));
    }
    let n = if tier == Tier::Thorough { 5000 } else { 300 };
    for _ in 0..n {
        v.push(format!("c03 reset gen {}", rng.next() % 1_000_000_007));
    }
    v
}

pub fn run(out: &mut Out, tier: Tier, seed: u64, replay: Option<Vec<String>>) {
    let headers: Vec<String> = match replay {
        // only the case headers of a replay are acted on: the part lines are regenerated
        Some(r) => r.into_iter().filter(|l| l.starts_with("c03 reset ")).collect(),
        None => gen(tier, seed),
    };
    for h in headers {
        run_case(out, &h);
    }
}
