//! Correspondence harness: drives the real umya-spreadsheet API, one request per line, and
//! writes `ops.txt` (requests, also fed to the Lean driver), `impl.txt` (the implementation's
//! canonical replies), `oracle.txt` (implementation-level oracle failures) and `stats.json`.
mod common;
mod c17;
mod c10;
mod c11;
mod c07;
mod c20;
mod c12;
mod c16;
mod c18;
mod c13;
mod c19;
mod fx;
mod c09;
mod c08;
mod ind;
mod c15;
mod c14;
mod wb;
mod c02;
mod c03;
mod c05;
mod c05_codec;
mod c06;
mod c06_view;
mod c06codec;
mod c06cmt;
mod c06names;
mod c01;
mod c04;

use common::*;
use std::path::PathBuf;

fn main() {
    let args: Vec<String> = std::env::args().collect();
    if args.len() < 5 {
        eprintln!("usage: umya_harness <prop> <quick|thorough|replay> <seed> <outdir> [replay-file]");
        std::process::exit(2);
    }
    if std::env::var("UMYA_SHOW_PANIC").is_err() { std::panic::set_hook(Box::new(|_| {})); }
    let prop = args[1].to_lowercase();
    if prop == "c11cyclic" {
        // child process of C11's experiment with cyclic relationship graphs (see c11::cyclic_experiment)
        std::process::exit(c11::cyclic_child(&args[2], &args[4]));
    }
    let tier = if args[2] == "thorough" { Tier::Thorough } else { Tier::Quick };
    let seed: u64 = args[3].parse().unwrap_or(0);
    let dir = PathBuf::from(&args[4]);
    let replay: Option<Vec<String>> = if args[2] == "replay" {
        Some(std::fs::read_to_string(&args[5]).unwrap().lines().map(|s| s.to_string()).collect())
    } else {
        None
    };
    let mut out = Out::new(&dir);
    match prop.as_str() {
        "c17" => c17::run(&mut out, tier, seed, replay),
        "c10" => c10::run(&mut out, tier, seed, replay),
        "c11" => c11::run(&mut out, tier, seed, replay),
        "c07" => c07::run(&mut out, tier, seed, replay),
        "c20" => c20::run(&mut out, tier, seed, replay),
        "c12" => c12::run(&mut out, tier, seed, replay),
        "c16" => c16::run(&mut out, tier, seed, replay),
        "c18" => c18::run(&mut out, tier, seed, replay),
        "c13" => c13::run(&mut out, tier, seed, replay),
        "c19" => c19::run(&mut out, tier, seed, replay),
        "c09" => c09::run(&mut out, tier, seed, replay),
        "c08" => c08::run(&mut out, tier, seed, replay),
        "c15" => c15::run(&mut out, tier, seed, replay),
        "c14" => c14::run(&mut out, tier, seed, replay),
        "c02" => c02::run(&mut out, tier, seed, replay),
        "c03" => c03::run(&mut out, tier, seed, replay),
        "c05" => c05::run(&mut out, tier, seed, replay),
        "c06" => c06::run(&mut out, tier, seed, replay),
        "c01" => c01::run(&mut out, tier, seed, replay),
        "c04" => c04::run(&mut out, tier, seed, replay),
        _ => {
            eprintln!("unknown property {}", prop);
            std::process::exit(2);
        }
    }
    out.finish();
}
