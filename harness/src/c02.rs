//! C02 — written files are valid packages that an independent reader decodes to the model.
//! The independent reader is the Lean driver (`Umya.Spec.Xml` + `Umya.Spec.Sml`): every part of
//! the written package is sent to it; it answers with the list of violations and the decoded view.
use crate::common::*;
use crate::wb;
use umya_spreadsheet::structs::{Cell, CellRawValue, Spreadsheet, Style};

fn corpus_dir() -> String {
    format!("{}/tests/test_files", std::env::var("UMYA_REPO").unwrap_or("/repo".into()))
}

pub fn corpus_files(include_large: bool) -> Vec<String> {
    let mut v: Vec<String> = std::fs::read_dir(corpus_dir())
        .map(|d| d.filter_map(|e| e.ok()).map(|e| e.file_name().to_string_lossy().to_string()).collect())
        .unwrap_or_default();
    v.retain(|n| (n.ends_with(".xlsx") || n.ends_with(".xlsm")) && std::fs::metadata(format!("{}/{}", corpus_dir(), n)).map(|m| m.len() > 0 && (include_large || m.len() < 400_000)).unwrap_or(false));
    v.sort();
    v
}

/// build the workbook of a case from its header line `c02 reset gen <seed> <std|light>` / `c02 reset file <name> <std|light>`
pub fn book_of(a: &[&str]) -> Result<Spreadsheet, String> {
    match a[2] {
        "gen" => {
            let seed: u64 = a[3].parse().map_err(|_| "seed")?;
            let mut rng = Rng::new(seed);
            guard(|| wb::gen_book(&mut rng, &wb::GenOpts::default())).map_err(|_| "generator panicked".to_string())
        }
        "file" => {
            let path = format!("{}/{}", corpus_dir(), a[3]);
            guard(|| umya_spreadsheet::reader::xlsx::read(std::path::Path::new(&path))).map_err(|_| "read panicked".to_string())?.map_err(|e| format!("{:?}", e))
        }
        _ => Err("bad case".into()),
    }
}

/// the in-memory workbook as cells of the writer model (`Umya/Model/CellXml.lean`), in the format of C01's
/// dump: per sheet (`|`) the cells in emission order (`;`): `col,row,kind,value,formula,styled,runs`
fn model_dump(book: &Spreadsheet) -> String {
    let cell = |c: &Cell| -> String {
        let (kind, runs) = match c.get_raw_value() {
            CellRawValue::Empty => ("z", "~".to_string()),
            CellRawValue::String(_) => ("s", "~".to_string()),
            CellRawValue::RichText(rt) => {
                let els = rt.get_rich_text_elements();
                let r = if els.is_empty() {
                    "-".to_string()
                } else {
                    els.iter().map(|e| format!("{}:{}", if e.get_font().is_some() { "1" } else { "~" }, hex(e.get_text()))).collect::<Vec<_>>().join("+")
                };
                ("r", r)
            }
            CellRawValue::Numeric(_) => ("n", "~".to_string()),
            CellRawValue::Bool(_) => ("b", "~".to_string()),
            CellRawValue::Error(_) => ("e", "~".to_string()),
            CellRawValue::Lazy(_) => ("l", "~".to_string()),
        };
        format!(
            "{},{},{},{},{},{},{}",
            c.get_coordinate().get_col_num(),
            c.get_coordinate().get_row_num(),
            kind,
            hex(&c.get_value()),
            if c.is_formula() { hex(c.get_formula()) } else { "~".into() },
            if c.get_style() != &Style::default() { 1 } else { 0 },
            runs
        )
    };
    (0..book.get_sheet_count())
        .map(|i| book.get_sheet(&i).unwrap().get_cell_collection_sorted().iter().map(|c| cell(c)).collect::<Vec<_>>().join(";"))
        .collect::<Vec<_>>()
        .join("|")
}

pub fn run_case(out: &mut Out, header: &str) {
    let a: Vec<&str> = header.split(' ').collect();
    out.begin(header);
    let light = a.get(4) == Some(&"light");
    // `lazygen` / `lazyfile`: the same workbook saved once, opened LAZILY, one sheet deserialized (the others stay
    // raw and are copied verbatim with their indexes into the loaded tables) and saved again: that second file is
    // the one under test; what it must mean is what the eager reading of the first file holds
    let lazy = a[2].starts_with("lazy");
    let mut a0 = a.clone();
    if lazy {
        a0[2] = &a[2][4..];
    }
    let book = match book_of(&a0) {
        Ok(b) => b,
        Err(e) => {
            out.oracle_fail(Fail::new("case-build-failed").with("op", header).with("detail", e));
            out.end(header, "ok", false);
            return;
        }
    };
    out.end(header, "ok", false);
    out.count(&format!("case.{}.{}", a[2], if light { "light" } else { "std" }));
    out.count("programs");
    let (book, bytes) = if lazy {
        let r = guard(|| -> Result<(Spreadsheet, Vec<u8>), String> {
            let b0 = wb::save_bytes(&book, false).map_err(|e| format!("{:?}", e))?;
            let eager = umya_spreadsheet::reader::xlsx::read_reader(std::io::Cursor::new(b0.clone()), true).map_err(|e| format!("{:?}", e))?;
            let mut l = umya_spreadsheet::reader::xlsx::read_reader(std::io::Cursor::new(b0), false).map_err(|e| format!("{:?}", e))?;
            let n = l.get_sheet_count();
            let seed: usize = a[3].bytes().map(|x| x as usize).sum();
            // deserialize one sheet (two when there are more than three); never all of them unless there is only one
            let _ = l.get_sheet_mut(&(seed % n));
            if n > 3 {
                let _ = l.get_sheet_mut(&((seed / 7) % n));
            }
            let b1 = wb::save_bytes(&l, light).map_err(|e| format!("{:?}", e))?;
            Ok((eager, b1))
        });
        match r {
            Ok(Ok(x)) => x,
            Ok(Err(e)) => {
                out.oracle_fail(Fail::new("lazy-resave-failed").with("op", header).with("detail", e));
                return;
            }
            Err(_) => {
                out.oracle_fail(Fail::new("lazy-resave-panicked").with("op", header));
                return;
            }
        }
    } else {
        let bytes = match guard(|| wb::save_bytes(&book, light)) {
            Ok(Ok(b)) => b,
            _ => {
                out.oracle_fail(Fail::new("save-failed").with("op", header));
                return;
            }
        };
        (book, bytes)
    };
    let parts = match unzip_all(&bytes) {
        Ok(p) => p,
        Err(e) => {
            out.oracle_fail(Fail::new("not-a-zip").with("op", header).with("detail", e));
            return;
        }
    };
    out.count_n("parts", parts.len() as u64);
    for (name, data) in &parts {
        let isx = wb::is_xml_part(name);
        let line = format!("c02 part {} {} {}", hex(name), if isx { 1 } else { 0 }, hexb(data));
        out.begin(&line);
        // the implementation's claim: every XML part it writes is well-formed
        out.end(&line, "ok", true);
    }
    let line = "c02 decode".to_string();
    out.begin(&line);
    let v = guard(|| wb::view(&book)).unwrap_or("view-panicked".into());
    // the implementation's claim: no violations, and the file means what the workbook holds
    let reply = format!("errs=0;;view={}", v);
    out.end(&line, &reply, true);
    // the cell bridge (theorems C02_cell_decodes / C02_book_cells_decode): the facts a non-unescaping scanner
    // reads from the real parts, and — for generated workbooks — the in-memory cells for the writer model;
    // the claim is that the driver finds the rendering of the facts equal to what its XML reader parsed
    match guard(|| crate::c01::package_facts(&bytes, book.get_sheet_count())) {
        Ok(Ok(facts)) => {
            let model = if a[2] == "gen" { guard(|| model_dump(&book)).unwrap_or("~".into()) } else { "~".to_string() };
            out.count(if model == "~" { "bridge.facts-only" } else { "bridge.with-model" });
            let line = format!("c02 bridge {} model={}", facts, model);
            out.begin(&line);
            out.end(&line, "ok", true);
        }
        _ => out.count("bridge.skipped-scanner"),
    }
}

pub fn gen(tier: Tier, seed: u64) -> Vec<String> {
    let mut rng = Rng::new(seed ^ 0xC02);
    let mut v = vec![];
    let n = if tier == Tier::Thorough { 2000 } else { 150 };
    for i in 0..n {
        v.push(format!("c02 reset gen {} {}", rng.next() % 1_000_000_007, if i % 4 == 3 { "light" } else { "std" }));
    }
    for (i, f) in corpus_files(tier == Tier::Thorough).iter().enumerate() {
        if tier == Tier::Thorough || i % 4 == 0 {
            v.push(format!("c02 reset file {} {}", f, if i % 2 == 1 { "light" } else { "std" }));
        }
    }
    // partly deserialized workbooks (opened lazily, one sheet touched, saved)
    let n = if tier == Tier::Thorough { 400 } else { 40 };
    for i in 0..n {
        v.push(format!("c02 reset lazygen {} {}", rng.next() % 1_000_000_007, if i % 4 == 3 { "light" } else { "std" }));
    }
    for (i, f) in corpus_files(tier == Tier::Thorough).iter().enumerate() {
        if tier == Tier::Thorough || i % 6 == 1 {
            v.push(format!("c02 reset lazyfile {} {}", f, if i % 2 == 1 { "light" } else { "std" }));
        }
    }
    v
}

pub fn run(out: &mut Out, tier: Tier, seed: u64, replay: Option<Vec<String>>) {
    let headers: Vec<String> = match replay {
        // only the case headers of a replay are acted on: the part lines are regenerated
        Some(r) => r.into_iter().filter(|l| l.starts_with("c02 reset ")).collect(),
        None => gen(tier, seed),
    };
    for h in headers {
        run_case(out, &h);
    }
}
