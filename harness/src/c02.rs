//! C02 — written files are valid packages that an independent reader decodes to the model.
//! The independent reader is the Lean driver (`Umya.Spec.Xml` + `Umya.Spec.Sml`): every part of
//! the written package is sent to it; it answers with the list of violations and the decoded view.
use crate::common::*;
use crate::wb;
use umya_spreadsheet::structs::{Cell, CellRawValue, Spreadsheet, Style};

fn corpus_dir() -> String {
    format!("{}/tests/test_files", std::env::var("UMYA_REPO").unwrap_or("/repo".into()))
}

pub fn corpus_files(include_large: bool) -> Vec<String> {
    let mut v: Vec<String> = std::fs::read_dir(corpus_dir())
        .map(|d| d.filter_map(|e| e.ok()).map(|e| e.file_name().to_string_lossy().to_string()).collect())
        .unwrap_or_default();
    v.retain(|n| (n.ends_with(".xlsx") || n.ends_with(".xlsm")) && std::fs::metadata(format!("{}/{}", corpus_dir(), n)).map(|m| m.len() > 0 && (include_large || m.len() < 400_000)).unwrap_or(false));
    v.sort();
    v
}

/// build the workbook of a case from its header line `c02 reset gen <seed> <std|light>` / `c02 reset file <name> <std|light>`
pub fn book_of(a: &[&str]) -> Result<Spreadsheet, String> {
    match a[2] {
        "gen" => {
            let seed: u64 = a[3].parse().map_err(|_| "seed")?;
            let mut rng = Rng::new(seed);
            guard(|| wb::gen_book(&mut rng, &wb::GenOpts::default())).map_err(|_| "generator panicked".to_string())
        }
        "xml" => {
            let seed: u64 = a[3].parse().map_err(|_| "seed")?;
            let mut rng = Rng::new(seed ^ 0x7a67);
            guard(|| xml_book(&mut rng)).map_err(|_| "generator panicked".to_string())
        }
        "edge" => {
            // witnesses of `C02_sheet_names_case_fails`: sheet titles that differ only by case (refused by `new_sheet`
            // since fix 95713cc), and a duplicate title produced through `Worksheet::set_name`, which checks nothing
            let mut book = umya_spreadsheet::new_file_empty_worksheet();
            book.new_sheet("A").map_err(|e| e.to_string())?;
            match a[3] {
                "dupcase" => {
                    if book.new_sheet("a").is_ok() {
                        return Ok(book);
                    }
                    book.new_sheet("b").map_err(|e| e.to_string())?;
                }
                _ => {
                    book.new_sheet("B").map_err(|e| e.to_string())?;
                    book.get_sheet_mut(&1).unwrap().set_name("A");
                }
            }
            book.get_sheet_mut(&0).unwrap().get_cell_mut((1u32, 1u32)).set_value_string("x");
            Ok(book)
        }
        "sgen" => {
            let seed: u64 = a[3].parse().map_err(|_| "seed")?;
            let mut rng = Rng::new(seed);
            guard(|| gen_sheet_book(&mut rng)).map_err(|_| "generator panicked".to_string())
        }
        "pgen" => {
            let seed: u64 = a[3].parse().map_err(|_| "seed")?;
            let mut rng = Rng::new(seed ^ 0x706b67);
            guard(|| gen_pkg_book(&mut rng)).map_err(|_| "generator panicked".to_string())
        }
        "file" => {
            let path = format!("{}/{}", corpus_dir(), a[3]);
            guard(|| umya_spreadsheet::reader::xlsx::read(std::path::Path::new(&path))).map_err(|_| "read panicked".to_string())?.map_err(|e| format!("{:?}", e))
        }
        _ => Err("bad case".into()),
    }
}

/// texts for the tag-level serialisation check: XML specials, tab / LF / CR / CR LF, `]]>`, a non-BMP character,
/// leading and trailing blanks, NBSP, U+2028
const XML_ALPHABET: &str = "ab Z9&<>\"'\n\t\r,;=é日😀]]>\u{a0}\u{2028}";

/// a workbook that exercises `writer/driver.rs` itself: attribute values (hyperlink tooltips and locations, comment
/// authors, sheet names, defined names) and texts (cell strings, rich-text runs, formulas, cached results,
/// comments) over `XML_ALPHABET`; empty elements in both forms (`<c r s/>`, `<v/>`, `<t></t>`, `<f></f>`)
fn xml_book(rng: &mut Rng) -> Spreadsheet {
    use umya_spreadsheet::structs::{Comment, Hyperlink, RichText, TextElement};
    let mut book = umya_spreadsheet::new_file_empty_worksheet();
    let n_sheets = rng.range(1, 3) as usize;
    for i in 0..n_sheets {
        let nm = format!("S{}{}", i, wb::rand_text(rng, "a &<>\"é😀", 0, 5));
        book.new_sheet(nm).unwrap();
    }
    for si in 0..n_sheets {
        let ws = book.get_sheet_mut(&si).unwrap();
        let ncells = rng.range(4, 30);
        for _ in 0..ncells {
            let (c, r) = (rng.range(1, 7) as u32, rng.range(1, 10) as u32);
            let cell = ws.get_cell_mut((c, r));
            match rng.below(10) {
                0..=2 => {
                    cell.set_value_string(wb::rand_text(rng, XML_ALPHABET, 1, 12));
                }
                3 => {
                    cell.set_value_string(*rng.pick(&["\r", "a\r\nb", "\r\n", " \t", "]]>", "&amp;", "&#13;", "<![CDATA[x]]>", "😀\r"]));
                }
                4 => {
                    let mut rt = RichText::default();
                    for _ in 0..rng.range(1, 3) {
                        let mut te = TextElement::default();
                        te.set_text(wb::rand_text(rng, XML_ALPHABET, 0, 6));
                        if rng.chance(1, 2) {
                            te.get_font_mut().set_bold(true);
                        }
                        rt.add_rich_text_elements(te);
                    }
                    let has_text = !rt.get_text().is_empty();
                    cell.set_rich_text(rt);
                    if rng.chance(1, 3) && has_text {
                        // a rich text as the cached result of a formula: a shared-string item next to <f> (C01 fix 5);
                        // not over an empty text: that is the documented "formula without cached value" ambiguity (below)
                        cell.set_formula("A1&B1");
                    }
                }
                5 => {
                    if rng.chance(1, 4) {
                        // a lazy value that is never resolved: saved as the typed value it stands for (C01 fix 6)
                        cell.set_value_lazy(*rng.pick(&["42", "12.5", "TRUE", "#N/A", "a<b", " x "]));
                        if rng.chance(1, 3) {
                            cell.set_formula("A1");
                        }
                    } else {
                        cell.set_value_number(rng.range(0, 1000) as f64 / 8.0);
                    }
                }
                6 => {
                    cell.set_formula(*rng.pick(&["A1&\"x\"", "IF(A1>1,\"<a&b>\",\"'q'\")", "\"a\"\"b\"&C3", "A1<>B1"]));
                    // always with a cached result: a formula over an empty string value is the documented
                    // "formula without cached value" ambiguity (C02_cell_uncached_formula_fails), not the subject here
                    cell.set_formula_result_default(wb::rand_text(rng, "abc <&>\"'\r", 1, 5));
                }
                7 => {
                    // styled blank: `<c r s/>`
                    cell.get_style_mut().get_font_mut().set_bold(true);
                }
                8 => {
                    cell.set_value_bool(rng.chance(1, 2));
                }
                _ => {
                    cell.set_value_string("");
                }
            }
            if rng.chance(1, 4) {
                let mut h = Hyperlink::default();
                h.set_url(format!("https://example.com/{}", wb::rand_text(rng, "az09<'&\"", 0, 5)));
                h.set_tooltip(wb::rand_text(rng, XML_ALPHABET, 1, 8));
                cell.set_hyperlink(h);
            }
        }
        for _ in 0..rng.below(3) {
            let mut c = Comment::default();
            c.new_comment((rng.range(1, 6) as u32, rng.range(1, 9) as u32));
            c.set_author(wb::rand_text(rng, "Ann &<é\"'", 1, 6));
            c.set_text_string(wb::rand_text(rng, XML_ALPHABET, 1, 8));
            ws.add_comments(c);
        }
    }
    book
}

/// the kind of a part, for the evidence counters
fn part_kind(name: &str) -> String {
    let base = name.rsplit('/').next().unwrap_or(name);
    if name == "[Content_Types].xml" {
        return "content-types".into();
    }
    if name.ends_with(".rels") {
        return "rels".into();
    }
    if name.ends_with(".vml") {
        return "vml".into();
    }
    let stem: String = base.trim_end_matches(".xml").chars().filter(|c| !c.is_ascii_digit()).collect();
    if name.starts_with("docProps/") {
        return format!("docProps-{}", stem);
    }
    stem
}

/// must the part be a rendering of the tag-level writer model (`Umya/Model/XmlWrite.lean`)?  `Err(reason)` = not claimed.
/// Parts of a freshly built workbook are all written through `writer/driver.rs`; a workbook that came from a file
/// carries parts the library copies verbatim (raw sheets of a lazily opened book, drawings, charts, themes, VML, …).
fn render_claim(case: &str, name: &str) -> Result<(), &'static str> {
    if name.ends_with(".vml") {
        return Err("vml-written-raw");
    }
    let fresh = case == "gen" || case == "xml" || case == "lazygen" || case == "pgen";
    if fresh {
        return Ok(());
    }
    let core = name == "[Content_Types].xml"
        || name == "_rels/.rels"
        || name == "xl/workbook.xml"
        || name == "xl/_rels/workbook.xml.rels"
        || name == "xl/styles.xml"
        || name == "xl/sharedStrings.xml"
        || name.starts_with("docProps/");
    if core {
        return Ok(());
    }
    if case == "file" && name.starts_with("xl/worksheets/sheet") && name.ends_with(".xml") {
        return Ok(());
    }
    Err("loaded-file-part")
}

/// the in-memory workbook as cells of the writer model (`Umya/Model/CellXml.lean`), in the format of C01's
/// dump: per sheet (`|`) the cells in emission order (`;`): `col,row,kind,value,formula,styled,runs`
fn model_dump(book: &Spreadsheet) -> String {
    let cell = |c: &Cell| -> String {
        let (kind, runs) = match c.get_raw_value() {
            CellRawValue::Empty => ("z", "~".to_string()),
            CellRawValue::String(_) => ("s", "~".to_string()),
            CellRawValue::RichText(rt) => {
                let els = rt.get_rich_text_elements();
                let r = if els.is_empty() {
                    "-".to_string()
                } else {
                    els.iter().map(|e| format!("{}:{}", if e.get_font().is_some() { "1" } else { "~" }, hex(e.get_text()))).collect::<Vec<_>>().join("+")
                };
                ("r", r)
            }
            CellRawValue::Numeric(_) => ("n", "~".to_string()),
            CellRawValue::Bool(_) => ("b", "~".to_string()),
            CellRawValue::Error(_) => ("e", "~".to_string()),
            // an unresolved lazy value: its stored text travels in the last field (`=<text>`, as in C01's dump);
            // the writer model types it the way `Cell::write_to` does
            CellRawValue::Lazy(v) => ("l", format!("={}", hex(v))),
        };
        format!(
            "{},{},{},{},{},{},{}",
            c.get_coordinate().get_col_num(),
            c.get_coordinate().get_row_num(),
            kind,
            hex(&c.get_value()),
            if c.is_formula() { hex(c.get_formula()) } else { "~".into() },
            if c.get_style() != &Style::default() { 1 } else { 0 },
            runs
        )
    };
    (0..book.get_sheet_count())
        .map(|i| book.get_sheet(&i).unwrap().get_cell_collection_sorted().iter().map(|c| cell(c)).collect::<Vec<_>>().join(";"))
        .collect::<Vec<_>>()
        .join("|")
}

/// Workbooks for the sheet / workbook bridge (`c02 sheetbridge`): sheets without cells, rows that carry only a
/// style / height / hidden flag, rows whose cells all are blank, at least three hyperlinks per linked sheet mixing
/// external, internal, the same URL twice, tooltips and a tooltip-only link, several merged ranges, hidden sheets,
/// a sheet removed and another one added afterwards, defined names (workbook and sheet scope) whose address
/// quotes the sheet name.
pub fn gen_sheet_book(rng: &mut Rng) -> Spreadsheet {
    use umya_spreadsheet::helper::coordinate::coordinate_from_index;
    use umya_spreadsheet::structs::{DefinedName, Hyperlink, SheetStateValues};
    let mut book = umya_spreadsheet::new_file_empty_worksheet();
    let n_sheets = rng.range(1, 4) as usize;
    let mut names: Vec<String> = vec![];
    for _ in 0..n_sheets {
        let n = wb::sheet_name(rng, &names);
        book.new_sheet(n.clone()).unwrap();
        names.push(n);
    }
    if rng.chance(1, 2) {
        // remove a sheet (any position) and add a new one: ids and part numbers follow the positions
        let n = wb::sheet_name(rng, &names);
        book.new_sheet(n.clone()).unwrap();
        names.push(n);
        let victim = rng.below(names.len() as u64) as usize;
        book.get_sheet_mut(&victim).unwrap().get_cell_mut((1u32, 1u32)).set_value_string("gone");
        book.remove_sheet(victim).unwrap();
        names.remove(victim);
        let n = wb::sheet_name(rng, &names);
        book.new_sheet(n.clone()).unwrap();
        names.push(n);
    }
    let n_sheets = names.len();
    for si in 0..n_sheets {
        let ws = book.get_sheet_mut(&si).unwrap();
        let empty = rng.chance(1, 5);
        if !empty {
            for _ in 0..rng.range(1, 14) {
                let (c, r) = if rng.chance(1, 12) { (*rng.pick(&[1u32, 16384]), *rng.pick(&[1u32, 1048576])) } else { (rng.range(1, 6) as u32, rng.range(1, 9) as u32) };
                let cell = ws.get_cell_mut((c, r));
                match rng.below(6) {
                    0 => { cell.set_value_string(wb::rand_text(rng, wb::TEXT_ALPHABET, 1, 8)); }
                    1 => { cell.set_value_number(rng.range(0, 5000) as f64 / 4.0); }
                    2 => { cell.set_value_bool(rng.chance(1, 2)); }
                    3 => { cell.set_formula("A1&\"<x>\""); cell.set_formula_result_default("r&"); }
                    4 => { cell.get_style_mut().set_background_color("FF00FF00"); }
                    _ => {} // blank, unstyled: the row gets spans but no <c>
                }
            }
        }
        // rows that carry only attributes
        for _ in 0..rng.below(4) {
            let r = rng.range(1, 30) as u32;
            let row = ws.get_row_dimension_mut(&r);
            match rng.below(4) {
                0 => { row.set_height(rng.range(10, 40) as f64 + 0.5); }
                1 => { row.set_hidden(true); }
                2 => { row.get_style_mut().set_background_color("FFFFFF00"); }
                _ => { row.set_height(18.0); row.get_style_mut().get_font_mut().set_bold(true); row.set_hidden(rng.chance(1, 2)); }
            }
        }
        // hyperlinks: 0 or 3..7 on distinct cells
        if rng.chance(3, 4) {
            let k = rng.range(3, 7);
            let dup = format!("https://example.com/dup?x=1&y={}", rng.below(10));
            let mut used: Vec<(u32, u32)> = vec![];
            for j in 0..k {
                let (c, r) = loop {
                    let p = (rng.range(1, 12) as u32, rng.range(1, 12) as u32);
                    if !used.contains(&p) { break p; }
                };
                used.push((c, r));
                let mut h = Hyperlink::default();
                match if j < 4 { j } else { rng.below(5) } {
                    0 => { h.set_url(dup.clone()); }
                    1 => { h.set_url(format!("{}!B{}", wb::quote_sheet(&names[rng.below(names.len() as u64) as usize]), rng.range(1, 9))); h.set_location(true); }
                    2 => { h.set_url(dup.clone()); h.set_tooltip(wb::rand_text(rng, "tip &<>\"'", 1, 6)); }
                    3 => { h.set_tooltip("only a tooltip"); }
                    _ => { h.set_url(format!("mailto:a{}@b.c?subject=<{}>", rng.below(9), j)); }
                }
                if rng.chance(1, 4) { h.set_tooltip(wb::rand_text(rng, "tip &<>\"'", 1, 6)); }
                ws.get_cell_mut((c, r)).set_hyperlink(h);
            }
        }
        // merged ranges
        let mut row = 40;
        for _ in 0..rng.below(5) {
            let h = rng.range(0, 2) as u32;
            let c = rng.range(1, 5) as u32;
            ws.add_merge_cells(format!("{}:{}", coordinate_from_index(&c, &row), coordinate_from_index(&(c + rng.range(1, 3) as u32), &(row + h))));
            row += h + 2;
        }
        if rng.chance(1, 3) {
            ws.set_state(if rng.chance(1, 2) { SheetStateValues::Hidden } else { SheetStateValues::VeryHidden });
        }
        if rng.chance(1, 2) {
            let addr = format!("{}!$A$1:$B${}", wb::quote_sheet(&names[si]), rng.range(1, 9));
            let _ = ws.add_defined_name(format!("L{}_{}", si, rng.below(100)), addr);
        }
        if rng.chance(1, 3) {
            let mut c = umya_spreadsheet::structs::Comment::default();
            c.new_comment((2u32, 2u32));
            c.set_text_string("note");
            ws.add_comments(c);
        }
    }
    // at least one visible sheet
    if (0..n_sheets).all(|i| !matches!(book.get_sheet(&i).unwrap().get_state(), SheetStateValues::Visible)) {
        book.get_sheet_mut(&0).unwrap().set_state(SheetStateValues::Visible);
    }
    for _ in 0..rng.below(3) {
        let mut d = DefinedName::default();
        let target = names[rng.below(names.len() as u64) as usize].clone();
        d.set_address(format!("{}!$C${}", wb::quote_sheet(&target), rng.range(1, 20)));
        let addr = d.get_address();
        let _ = book.get_sheet_mut(&0).unwrap().add_defined_name(format!("G{}", rng.below(1000)), addr);
    }
    book.set_active_sheet(0);
    book
}

/// Workbooks for the package bridge (`c02 pkgbridge`): 1..6 sheets inside the package model (nothing that adds parts
/// but COMMENTS: no drawings, tables, printer settings), with or without any string (so that the shared-string part,
/// its Override and its workbook relationship are present or absent), hidden sheets, a sheet removed and others added
/// afterwards, defined names, and per sheet no hyperlink / only internal ones (no relationships part) / external ones.
/// Comments (each adds a VML part, a comments part, two sheet relationships after the hyperlink ones, a
/// `legacyDrawing` child): on no sheet (2 of 5), on a random subset, on every sheet but the first, on every sheet; one
/// or several per sheet; also on a sheet that is removed afterwards (its numbers must be free again).
pub fn gen_pkg_book(rng: &mut Rng) -> Spreadsheet {
    use umya_spreadsheet::structs::{Comment, Hyperlink, SheetStateValues};
    let mut book = umya_spreadsheet::new_file_empty_worksheet();
    let cmt_mode = rng.below(5);
    let tbl_mode = rng.below(5);
    let add_comments = |ws: &mut umya_spreadsheet::structs::Worksheet, rng: &mut Rng| {
        for _ in 0..rng.range(1, 3) {
            let mut c = Comment::default();
            c.new_comment((rng.range(1, 6) as u32, rng.range(1, 9) as u32));
            c.set_author(*rng.pick(&["Ann", "Bob", "a&b"]));
            c.set_text_string(wb::rand_text(rng, wb::TEXT_ALPHABET, 1, 6));
            ws.add_comments(c);
        }
    };
    let n_sheets = rng.range(1, 6) as usize;
    let mut names: Vec<String> = vec![];
    for _ in 0..n_sheets {
        let n = wb::sheet_name(rng, &names);
        book.new_sheet(n.clone()).unwrap();
        names.push(n);
    }
    if rng.chance(1, 3) && names.len() < 6 {
        // remove a sheet (any position, after using it) and add a new one: part numbers and ids follow the positions
        let victim = rng.below(names.len() as u64) as usize;
        book.get_sheet_mut(&victim).unwrap().get_cell_mut((1u32, 1u32)).set_value_string("gone");
        if cmt_mode >= 2 && rng.chance(1, 2) {
            add_comments(book.get_sheet_mut(&victim).unwrap(), rng);
        }
        book.remove_sheet(victim).unwrap();
        names.remove(victim);
        for _ in 0..rng.range(1, 2) {
            let n = wb::sheet_name(rng, &names);
            book.new_sheet(n.clone()).unwrap();
            names.push(n);
        }
    }
    let n_sheets = names.len();
    let with_strings = rng.chance(2, 3);
    for si in 0..n_sheets {
        let ws = book.get_sheet_mut(&si).unwrap();
        for _ in 0..rng.below(8) {
            let (c, r) = (rng.range(1, 6) as u32, rng.range(1, 9) as u32);
            let cell = ws.get_cell_mut((c, r));
            match rng.below(4) {
                0 if with_strings => { cell.set_value_string(wb::rand_text(rng, wb::TEXT_ALPHABET, 1, 6)); }
                1 => { cell.set_value_number(rng.range(0, 5000) as f64 / 4.0); }
                2 => { cell.set_value_bool(rng.chance(1, 2)); }
                _ => { cell.set_value_number(rng.range(0, 9) as f64); }
            }
        }
        match rng.below(4) {
            0 => {}
            1 => {
                // only internal links: no relationships part
                for j in 0..rng.range(1, 3) {
                    let mut h = Hyperlink::default();
                    h.set_url(format!("{}!B{}", wb::quote_sheet(&names[rng.below(names.len() as u64) as usize]), j + 1));
                    h.set_location(true);
                    ws.get_cell_mut((j as u32 + 1, 20u32)).set_hyperlink(h);
                }
            }
            _ => {
                for j in 0..rng.range(1, 4) {
                    let mut h = Hyperlink::default();
                    if j == 2 { h.set_url(format!("{}!A1", wb::quote_sheet(&names[0]))); h.set_location(true); }
                    else { h.set_url(format!("https://example.com/p{}?a=1&b={}", rng.below(5), j)); }
                    if rng.chance(1, 3) { h.set_tooltip("tip"); }
                    ws.get_cell_mut((j as u32 + 1, 21u32)).set_hyperlink(h);
                }
            }
        }
        let with_comments = match cmt_mode {
            0 | 1 => false,
            2 => rng.chance(1, 2),
            3 => si > 0,
            _ => true,
        };
        if with_comments {
            add_comments(ws, rng);
        }
        // tables: on sheets with and without comments, one to three per sheet, names unique in the book; the table
        // relationships sit between the vmlDrawing and the comments relationship, the part numbers run over the sheets
        let with_tables = match tbl_mode {
            0 | 1 => false,
            2 => rng.chance(1, 2),
            3 => si + 1 == n_sheets || rng.chance(1, 3),
            _ => true,
        };
        if with_tables {
            for j in 0..rng.range(1, 3) {
                let c0 = 1 + 3 * j as u32;
                let mut t = umya_spreadsheet::structs::Table::new(&format!("Tbl{}_{}", si, j), ((c0, 30u32), (c0 + 1, 33u32)));
                for cn in 0..2u32 {
                    let name = format!("col{}", cn + 1);
                    ws.get_cell_mut((c0 + cn, 30u32)).set_value_number((cn + 1) as f64);
                    t.add_column(umya_spreadsheet::structs::TableColumn::new(&name));
                }
                ws.add_table(t);
            }
        }
        if rng.chance(1, 3) {
            ws.set_state(if rng.chance(1, 2) { SheetStateValues::Hidden } else { SheetStateValues::VeryHidden });
        }
        if rng.chance(1, 3) {
            let addr = format!("{}!$A$1:$B${}", wb::quote_sheet(&names[si]), rng.range(1, 9));
            let _ = ws.add_defined_name(format!("L{}_{}", si, rng.below(100)), addr);
        }
    }
    if (0..n_sheets).all(|i| !matches!(book.get_sheet(&i).unwrap().get_state(), SheetStateValues::Visible)) {
        book.get_sheet_mut(&0).unwrap().set_state(SheetStateValues::Visible);
    }
    for _ in 0..rng.below(3) {
        let target = names[rng.below(names.len() as u64) as usize].clone();
        let _ = book.get_sheet_mut(&0).unwrap().add_defined_name(format!("G{}", rng.below(1000)), format!("{}!$C${}", wb::quote_sheet(&target), rng.range(1, 20)));
    }
    book.set_active_sheet(rng.below(n_sheets as u64) as u32);
    book
}

/// the in-memory workbook for `c02 pkgbridge`: per sheet whether it is plain (nothing BUT comments adds parts), whether
/// it has comments (`cmt=`), how many tables (`tbl=`) and its hyperlinks; whether the workbook is plain (no macros, no custom properties); the
/// cells as `model=`
fn pkg_dump(book: &Spreadsheet) -> String {
    use umya_spreadsheet::helper::coordinate::coordinate_from_index;
    let n = book.get_sheet_count();
    let mut plain = vec![];
    let mut cmt = vec![];
    let mut tbl: Vec<String> = vec![];
    let mut links = vec![];
    for i in 0..n {
        let ws = book.get_sheet(&i).unwrap();
        tbl.push(ws.get_tables().len().to_string());
        let p = !ws.has_drawing_object() && ws.get_page_setup().get_object_data().is_none() && ws.get_ole_objects().get_ole_object().is_empty();
        plain.push(if p { "1" } else { "0" });
        cmt.push(if ws.has_comments() { "1" } else { "0" });
        let mut ls = vec![];
        for c in ws.get_cell_collection_sorted() {
            if let Some(h) = c.get_hyperlink() {
                ls.push(format!("{}:{}:{}:{}", hex(&coordinate_from_index(c.get_coordinate().get_col_num(), c.get_coordinate().get_row_num())), if *h.get_location() { 1 } else { 0 }, hex(h.get_url()), hex(h.get_tooltip())));
            }
        }
        links.push(if ls.is_empty() { "~".to_string() } else { ls.join(",") });
    }
    let wbplain = !book.get_has_macros() && book.get_properties().get_custom_properties().get_custom_document_property_list().is_empty();
    format!("plain={} wbplain={} links={} model={} cmt={} tbl={}", plain.join("|"), if wbplain { 1 } else { 0 }, links.join("|"), model_dump(book), cmt.join("|"), tbl.join("|"))
}

/// the in-memory workbook for `c02 sheetbridge`: per sheet the row table, merged ranges and hyperlinks; the sheet
/// list and the defined names (the cells travel as `model=` in the format of `model_dump`)
fn sheet_dump(book: &Spreadsheet) -> String {
    use umya_spreadsheet::helper::coordinate::coordinate_from_index;
    let n = book.get_sheet_count();
    let opt = |v: Vec<String>| if v.is_empty() { "~".to_string() } else { v.join(",") };
    let mut rows = vec![];
    let mut merges = vec![];
    let mut links = vec![];
    let mut sheets = vec![];
    let mut names = vec![];
    let dn = |d: &umya_spreadsheet::structs::DefinedName| format!("{}:{}:{}", hex(d.get_name()), if d.has_local_sheet_id() { d.get_local_sheet_id().to_string() } else { "~".into() }, hex(&d.get_address()));
    for d in book.get_defined_names() {
        names.push(dn(d));
    }
    for i in 0..n {
        let ws = book.get_sheet(&i).unwrap();
        let mut rs: Vec<(u32, String)> = ws
            .get_row_dimensions()
            .iter()
            .map(|r| {
                let h = *r.get_height();
                (*r.get_row_num(), format!("{}:{}:{}:{}", r.get_row_num(), if h != 0f64 { hex(&format!("{}", h)) } else { "~".into() }, if *r.get_hidden() { 1 } else { 0 }, if r.get_style() != &Style::default() { 1 } else { 0 }))
            })
            .collect();
        rs.sort_by_key(|p| p.0);
        rows.push(opt(rs.into_iter().map(|p| p.1).collect()));
        merges.push(opt(ws.get_merge_cells().iter().map(|m| hex(&m.get_range())).collect()));
        let mut ls = vec![];
        for c in ws.get_cell_collection_sorted() {
            if let Some(h) = c.get_hyperlink() {
                ls.push(format!("{}:{}:{}:{}", hex(&coordinate_from_index(c.get_coordinate().get_col_num(), c.get_coordinate().get_row_num())), if *h.get_location() { 1 } else { 0 }, hex(h.get_url()), hex(h.get_tooltip())));
            }
        }
        links.push(opt(ls));
        sheets.push(format!("{}:{}", hex(ws.get_name()), match ws.get_state() { umya_spreadsheet::structs::SheetStateValues::Hidden => "hidden", umya_spreadsheet::structs::SheetStateValues::VeryHidden => "veryHidden", _ => "visible" }));
        for d in ws.get_defined_names() {
            names.push(dn(d));
        }
    }
    format!("rows={} merges={} links={} model={} wb={} names={}", rows.join("|"), merges.join("|"), links.join("|"), model_dump(book), sheets.join("|"), opt(names))
}

pub fn run_case(out: &mut Out, header: &str) {
    let a: Vec<&str> = header.split(' ').collect();
    out.begin(header);
    let light = a.get(4) == Some(&"light");
    // `lazygen` / `lazyfile`: the same workbook saved once, opened LAZILY, one sheet deserialized (the others stay
    // raw and are copied verbatim with their indexes into the loaded tables) and saved again: that second file is
    // the one under test; what it must mean is what the eager reading of the first file holds
    let lazy = a[2].starts_with("lazy");
    let mut a0 = a.clone();
    if lazy {
        a0[2] = &a[2][4..];
    }
    let book = match book_of(&a0) {
        Ok(b) => b,
        Err(e) => {
            out.oracle_fail(Fail::new("case-build-failed").with("op", header).with("detail", e));
            out.end(header, "ok", false);
            return;
        }
    };
    out.end(header, "ok", false);
    out.count(&format!("case.{}.{}", a[2], if light { "light" } else { "std" }));
    out.count("programs");
    let (book, bytes) = if lazy {
        let r = guard(|| -> Result<(Spreadsheet, Vec<u8>), String> {
            let b0 = wb::save_bytes(&book, false).map_err(|e| format!("{:?}", e))?;
            let eager = umya_spreadsheet::reader::xlsx::read_reader(std::io::Cursor::new(b0.clone()), true).map_err(|e| format!("{:?}", e))?;
            let mut l = umya_spreadsheet::reader::xlsx::read_reader(std::io::Cursor::new(b0), false).map_err(|e| format!("{:?}", e))?;
            let n = l.get_sheet_count();
            let seed: usize = a[3].bytes().map(|x| x as usize).sum();
            // deserialize one sheet (two when there are more than three); never all of them unless there is only one
            let _ = l.get_sheet_mut(&(seed % n));
            if n > 3 {
                let _ = l.get_sheet_mut(&((seed / 7) % n));
            }
            let b1 = wb::save_bytes(&l, light).map_err(|e| format!("{:?}", e))?;
            Ok((eager, b1))
        });
        match r {
            Ok(Ok(x)) => x,
            Ok(Err(e)) => {
                out.oracle_fail(Fail::new("lazy-resave-failed").with("op", header).with("detail", e));
                return;
            }
            Err(_) => {
                out.oracle_fail(Fail::new("lazy-resave-panicked").with("op", header));
                return;
            }
        }
    } else {
        let bytes = match guard(|| wb::save_bytes(&book, light)) {
            Ok(Ok(b)) => b,
            _ => {
                out.oracle_fail(Fail::new("save-failed").with("op", header));
                return;
            }
        };
        (book, bytes)
    };
    let parts = match unzip_all(&bytes) {
        Ok(p) => p,
        Err(e) => {
            out.oracle_fail(Fail::new("not-a-zip").with("op", header).with("detail", e));
            return;
        }
    };
    out.count_n("parts", parts.len() as u64);
    for (name, data) in &parts {
        let isx = wb::is_xml_part(name);
        if !isx {
            let line = format!("c02 part {} 0 {}", hex(name), hexb(data));
            out.begin(&line);
            out.end(&line, "ok", true);
            continue;
        }
        // the implementation's claims: every XML part it writes is well-formed, and every part written through
        // writer/driver.rs is, character for character, a rendering of the tag-level writer model
        let claim = render_claim(a[2], name);
        let line = format!("c02 part {} 1 {} {}", hex(name), hexb(data), if claim.is_ok() { "w" } else { "r" });
        out.begin(&line);
        match claim {
            Ok(()) => {
                out.count(&format!("render.claimed.{}", part_kind(name)));
                // what the claimed bytes exercise (parts containing the marker)
                for (m, key) in [("&#13;", "cr-ref"), ("&#9;", "tab-ref"), ("&#10;", "lf-ref"), ("&quot;", "quot"), ("&apos;", "apos"), ("&amp;", "amp"),
                    ("&lt;", "lt"), ("]]&gt;", "cdata-end"), ("></", "start-end-childless"), ("/>", "empty-element"), ("\u{1F600}", "non-bmp")] {
                    if data.windows(m.len()).any(|w| w == m.as_bytes()) {
                        out.count(&format!("render.bytes.{}", key));
                    }
                }
                out.end(&line, "ok render=same", true);
            }
            Err(why) => {
                out.count(&format!("render.skipped.{}.{}", why, part_kind(name)));
                out.end(&line, "ok render=skipped", true);
            }
        }
    }
    let line = "c02 decode".to_string();
    out.begin(&line);
    let v = guard(|| wb::view(&book)).unwrap_or("view-panicked".into());
    // the implementation's claim: no violations, and the file means what the workbook holds
    let reply = format!("errs=0;;view={}", v);
    out.end(&line, &reply, true);
    // the cell bridge (theorems C02_cell_decodes / C02_book_cells_decode): the facts a non-unescaping scanner
    // reads from the real parts, and — for generated workbooks — the in-memory cells for the writer model;
    // the claim is that the driver finds the rendering of the facts equal to what its XML reader parsed
    match guard(|| crate::c01::package_facts(&bytes, book.get_sheet_count())) {
        Ok(Ok(facts)) => {
            let model = if a[2] == "gen" || a[2] == "xml" || a[2] == "sgen" || a[2] == "pgen" { guard(|| model_dump(&book)).unwrap_or("~".into()) } else { "~".to_string() };
            out.count(if model == "~" { "bridge.facts-only" } else { "bridge.with-model" });
            let line = format!("c02 bridge {} model={}", facts, model);
            out.begin(&line);
            out.end(&line, "ok", true);
        }
        _ => out.count("bridge.skipped-scanner"),
    }
    // the sheet / workbook bridge (theorems C02_sheet_decodes, C02_merges_decode, C02_hyperlinks_decode, C02_book_sheets_decode):
    // the in-memory rows, cells, merged ranges, hyperlinks, sheet list and defined names; the claim is that the driver
    // finds the trees its writer model renders equal to what its XML reader parsed from the real parts
    if a[2] == "gen" || a[2] == "sgen" || a[2] == "pgen" {
        // the package bridge (theorems C02_content_types_cover, C02_package_rels_resolve, C02_rel_ids_unique, C02_book_decodes):
        // the claim is that the skeleton of the MODEL package (part names, content types, relationship triples) is the
        // skeleton of the real one
        if let Ok(d) = guard(|| pkg_dump(&book)) {
            let line = format!("c02 pkgbridge {}", d);
            out.begin(&line);
            out.count("pkgbridge");
            out.count(&format!("pkgbridge.sheets.{}", book.get_sheet_count()));
            let pf = d.split(' ').next().unwrap_or("").trim_start_matches("plain=").to_string();
            let cf = d.split(' ').find(|x| x.starts_with("cmt=")).unwrap_or("").trim_start_matches("cmt=").to_string();
            let tf = d.split(' ').find(|x| x.starts_with("tbl=")).unwrap_or("").trim_start_matches("tbl=").to_string();
            let tcs: Vec<usize> = tf.split('|').map(|x| x.parse::<usize>().unwrap_or(0)).collect();
            let inside = pf.split('|').all(|x| x == "1") && d.contains(" wbplain=1 ");
            let n_cmt = cf.split('|').filter(|x| *x == "1").count();
            out.count(if !inside { "pkgbridge.not-plain" } else if n_cmt > 0 { "pkgbridge.with-comments" } else { "pkgbridge.plain" });
            out.count(if !inside { "workbook.outside-model" } else if n_cmt > 0 { "workbook.with-comments" } else { "workbook.plain" });
            if inside && n_cmt > 0 {
                out.count(&format!("pkgbridge.sheets-with-comments.{}", n_cmt));
                if !cf.starts_with('1') { out.count("pkgbridge.comments.first-sheet-without"); }
                out.count_n("pkgbridge.vml-parts", parts.iter().filter(|(n, _)| n.starts_with("xl/drawings/vmlDrawing")).count() as u64);
                out.count_n("pkgbridge.comments-parts", parts.iter().filter(|(n, _)| n.starts_with("xl/comments")).count() as u64);
            }
            if inside {
                // tables (Umya/Model/PackageNodeTbl.lean): workbooks / sheets with tables, with and without comments on the same sheet
                let n_tbl = tcs.iter().filter(|x| **x > 0).count();
                out.count(if n_tbl > 0 { "workbook.with-tables" } else { "workbook.without-tables" });
                if n_tbl > 0 {
                    out.count(&format!("pkgbridge.sheets-with-tables.{}", n_tbl));
                    if n_tbl >= 2 { out.count("pkgbridge.tables.on-several-sheets"); }
                    out.count_n("pkgbridge.table-parts", parts.iter().filter(|(n, _)| n.starts_with("xl/tables/table")).count() as u64);
                    for (i, c) in cf.split('|').enumerate() {
                        let t = tcs.get(i).copied().unwrap_or(0);
                        out.count(match (t > 0, c == "1") { (true, true) => "pkgbridge.sheet.tables-and-comments", (true, false) => "pkgbridge.sheet.tables-only", (false, true) => "pkgbridge.sheet.comments-only", _ => "pkgbridge.sheet.neither" });
                        if t > 0 { out.count(&format!("pkgbridge.tables-per-sheet.{}", t)); }
                    }
                }
            }
            out.count(if parts.iter().any(|(n, _)| n == "xl/sharedStrings.xml") { "pkgbridge.sst.present" } else { "pkgbridge.sst.absent" });
            out.count_n("pkgbridge.sheet-rels-parts", parts.iter().filter(|(n, _)| n.starts_with("xl/worksheets/_rels/")).count() as u64);
            for i in 0..book.get_sheet_count() {
                if !matches!(book.get_sheet(&i).unwrap().get_state(), umya_spreadsheet::structs::SheetStateValues::Visible) { out.count("pkgbridge.sheet.hidden"); }
            }
            out.end(&line, "ok", true);
        }
        if let Ok(d) = guard(|| sheet_dump(&book)) {
            let line = format!("c02 sheetbridge {}", d);
            out.begin(&line);
            out.count("sheetbridge");
            out.count_n("sheetbridge.el.sheet", book.get_sheet_count() as u64);
            out.count_n("sheetbridge.el.definedName", (book.get_defined_names().len() + (0..book.get_sheet_count()).map(|i| book.get_sheet(&i).unwrap().get_defined_names().len()).sum::<usize>()) as u64);
            for i in 0..book.get_sheet_count() {
                let ws = book.get_sheet(&i).unwrap();
                out.count_n("sheetbridge.el.row", ws.get_row_dimensions().len() as u64);
                out.count_n("sheetbridge.el.cell", ws.get_cell_collection_sorted().len() as u64);
                out.count_n("sheetbridge.el.mergeCell", ws.get_merge_cells().len() as u64);
                out.count_n("sheetbridge.el.hyperlink", ws.get_cell_collection_sorted().iter().filter(|c| c.get_hyperlink().is_some()).count() as u64);
                if !matches!(ws.get_state(), umya_spreadsheet::structs::SheetStateValues::Visible) { out.count("sheetbridge.sheet.hidden"); }
                let nl = ws.get_cell_collection_sorted().iter().filter(|c| c.get_hyperlink().is_some()).count();
                out.count(if ws.get_cell_collection_sorted().is_empty() { "sheetbridge.sheet.no-cells" } else { "sheetbridge.sheet.with-cells" });
                out.count(match nl { 0 => "sheetbridge.links.0", 1..=2 => "sheetbridge.links.1-2", _ => "sheetbridge.links.3+" });
                out.count(match ws.get_merge_cells().len() { 0 => "sheetbridge.merges.0", 1 => "sheetbridge.merges.1", _ => "sheetbridge.merges.2+" });
                if ws.get_row_dimensions().iter().any(|r| ws.get_collection_by_row(r.get_row_num()).is_empty()) {
                    out.count("sheetbridge.sheet.row-without-cells");
                }
            }
            out.end(&line, "ok", true);
        }
    }
}

pub fn gen(tier: Tier, seed: u64) -> Vec<String> {
    let mut rng = Rng::new(seed ^ 0xC02);
    let mut v = vec![];
    let n = if tier == Tier::Thorough { 2000 } else { 150 };
    for i in 0..n {
        v.push(format!("c02 reset gen {} {}", rng.next() % 1_000_000_007, if i % 4 == 3 { "light" } else { "std" }));
    }
    for (i, f) in corpus_files(tier == Tier::Thorough).iter().enumerate() {
        if tier == Tier::Thorough || i % 4 == 0 {
            v.push(format!("c02 reset file {} {}", f, if i % 2 == 1 { "light" } else { "std" }));
        }
    }
    v.push("c02 reset edge dupcase std".to_string());
    v.push("c02 reset edge setname std".to_string());
    // workbooks for the sheet / workbook bridge
    let n = if tier == Tier::Thorough { 600 } else { 60 };
    for i in 0..n {
        v.push(format!("c02 reset sgen {} {}", rng.next() % 1_000_000_007, if i % 4 == 3 { "light" } else { "std" }));
    }
    // workbooks for the package bridge (1..6 sheets, plain or with comments)
    let n = if tier == Tier::Thorough { 600 } else { 80 };
    for i in 0..n {
        v.push(format!("c02 reset pgen {} {}", rng.next() % 1_000_000_007, if i % 4 == 3 { "light" } else { "std" }));
    }
    // partly deserialized workbooks (opened lazily, one sheet touched, saved)
    let n = if tier == Tier::Thorough { 400 } else { 40 };
    for i in 0..n {
        v.push(format!("c02 reset lazygen {} {}", rng.next() % 1_000_000_007, if i % 4 == 3 { "light" } else { "std" }));
    }
    for (i, f) in corpus_files(tier == Tier::Thorough).iter().enumerate() {
        if tier == Tier::Thorough || i % 6 == 1 {
            v.push(format!("c02 reset lazyfile {} {}", f, if i % 2 == 1 { "light" } else { "std" }));
        }
    }
    // workbooks aimed at the tag-level serialisation (attribute values and texts with XML specials, tab / LF / CR)
    let n = if tier == Tier::Thorough { 600 } else { 40 };
    for i in 0..n {
        v.push(format!("c02 reset xml {} {}", rng.next() % 1_000_000_007, if i % 4 == 3 { "light" } else { "std" }));
    }
    v
}

pub fn run(out: &mut Out, tier: Tier, seed: u64, replay: Option<Vec<String>>) {
    let headers: Vec<String> = match replay {
        // only the case headers of a replay are acted on: the part lines are regenerated
        Some(r) => r.into_iter().filter(|l| l.starts_with("c02 reset ")).collect(),
        None => gen(tier, seed),
    };
    for h in headers {
        run_case(out, &h);
    }
}
