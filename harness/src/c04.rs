//! C04 — re-saving is stable: no drift, no loss of untouched content.
use crate::c02::{book_of, corpus_files};
use crate::common::*;
use crate::wb;
use std::io::Cursor;
use umya_spreadsheet::structs::*;

/// everything `wb::view` shows plus annotations, dimensions and style facts (the "full public-getter view")
pub fn full_view(book: &Spreadsheet) -> String {
    let n = book.get_sheet_count();
    let mut per = vec![];
    for i in 0..n {
        let ws = book.get_sheet(&i).unwrap();
        let mut comments: Vec<String> = ws
            .get_comments()
            .iter()
            .map(|c| format!("{}:{}:{}", c.get_coordinate().get_coordinate(), hex(c.get_author()), hex(&c.get_text().get_text())))
            .collect();
        comments.sort();
        let af = ws.get_auto_filter().map(|a| a.get_range().get_range()).unwrap_or("-".into());
        let tab = ws.get_tab_color().map(|c| c.get_argb().to_string()).unwrap_or("-".into());
        let dv: Vec<String> = ws
            .get_data_validations()
            .map(|d| d.get_data_validation_list().iter().map(|v| format!("{}:{}:{}", v.get_sequence_of_references().get_sqref(), hex(v.get_formula1()), hex(v.get_prompt()))).collect())
            .unwrap_or_default();
        let cf: Vec<String> = ws
            .get_conditional_formatting_collection()
            .iter()
            .map(|f| format!("{}:{}", f.get_sequence_of_references().get_sqref(), f.get_conditional_collection().iter().map(|r| format!("{}.{}", r.get_priority(), hex(r.get_formula().map(|x| x.get_address_str()).unwrap_or_default().as_str()))).collect::<Vec<_>>().join("+")))
            .collect();
        let hf = format!("{}~{}", hex(ws.get_header_footer().get_odd_header().get_value()), hex(ws.get_header_footer().get_odd_footer().get_value()));
        let ps = format!("{:?}.{}", ws.get_page_setup().get_orientation(), ws.get_page_setup().get_paper_size());
        let prot = ws.get_sheet_protection().map(|p| format!("{}", p.get_sheet())).unwrap_or("-".into());
        let mut cols: Vec<String> = ws.get_column_dimensions().iter().map(|c| format!("{}:{}:{}", c.get_col_num(), c.get_width(), c.get_hidden())).collect();
        cols.sort();
        let mut rows: Vec<String> = ws.get_row_dimensions().iter().map(|r| format!("{}:{}:{}", r.get_row_num(), r.get_height(), r.get_hidden())).collect();
        rows.sort();
        let styles: Vec<String> = ws
            .get_cell_collection_sorted()
            .iter()
            .filter_map(|c| {
                // the EFFECTIVE style facts; a style object that says nothing but "General" is the default style
                let s = c.get_style();
                let code = s.get_number_format().map(|n| n.get_format_code()).unwrap_or("");
                let code = if code == "General" { "" } else { code };
                let bold = s.get_font().map(|f| *f.get_bold()).unwrap_or(false);
                let bg = s.get_background_color().map(|c| c.get_argb().to_string()).unwrap_or("-".into());
                if code.is_empty() && !bold && bg == "-" {
                    None
                } else {
                    Some(format!("{}:{}:{}:{}", c.get_coordinate().get_coordinate(), hex(code), bold, bg))
                }
            })
            .collect();
        per.push(format!(
            "cm={};af={};tab={};dv={};cf={};hf={};ps={};prot={};cols={};rows={};st={}",
            comments.join(","), af, tab, dv.join(","), cf.join(","), hf, ps, prot, cols.join(","), rows.join(","), styles.join(",")
        ));
    }
    format!("{} ## {}", wb::view(book), per.join(" ## "))
}

fn reload(bytes: &[u8]) -> Result<Spreadsheet, String> {
    guard(|| umya_spreadsheet::reader::xlsx::read_reader(Cursor::new(bytes.to_vec()), true)).map_err(|_| "reader panicked".to_string())?.map_err(|e| format!("{:?}", e))
}

fn first_diff(a: &str, b: &str) -> String {
    let pa: Vec<&str> = a.split(|c| c == ';' || c == '#').collect();
    let pb: Vec<&str> = b.split(|c| c == ';' || c == '#').collect();
    for (x, y) in pa.iter().zip(pb.iter()) {
        if x != y {
            let xs: Vec<&str> = x.split(',').collect();
            let ys: Vec<&str> = y.split(',').collect();
            for (p, q) in xs.iter().zip(ys.iter()) {
                if p != q {
                    return format!("{} -> {}", &p[..p.len().min(160)], &q[..q.len().min(160)]);
                }
            }
            return format!("{}… ({} items) -> {}… ({} items)", &x[..x.len().min(60)], xs.len(), &y[..y.len().min(60)], ys.len());
        }
    }
    format!("lengths {} vs {}", pa.len(), pb.len())
}

/// raw (still escaped) values of attribute `attr` of elements `<tag …>` in document order
fn raw_attrs(xml: &str, tag: &str, attr: &str) -> Vec<String> {
    let mut out = vec![];
    for t in scan_between(xml, &format!("<{} ", tag), ">") {
        if let Some(v) = attr_of(&format!(" {}", t), attr) {
            out.push(v.to_string());
        }
    }
    out
}

pub fn run_case(out: &mut Out, header: &str) {
    let a: Vec<&str> = header.split(' ').collect();
    out.begin(header);
    out.end(header, "ok", false);
    out.count("programs");
    let light = a.get(4) == Some(&"light");
    let book0 = match book_of(&a) {
        Ok(b) => b,
        Err(e) => {
            out.oracle_fail(Fail::new("case-build-failed").with("op", header).with("detail", e));
            return;
        }
    };
    let v0 = guard(|| full_view(&book0)).unwrap_or("view-panicked".into());
    // generations
    let mut views = vec![];
    let mut books = vec![];
    let mut bytes_list = vec![];
    let mut cur = book0.clone();
    for g in 1..=3 {
        let bytes = match guard(|| wb::save_bytes(&cur, light)) {
            Ok(Ok(b)) => b,
            _ => {
                out.oracle_fail(Fail::new("save-failed").with("op", header).with("generation", g.to_string()));
                return;
            }
        };
        let next = match reload(&bytes) {
            Ok(b) => b,
            Err(e) => {
                out.oracle_fail(Fail::new("reload-failed").with("op", header).with("generation", g.to_string()).with("detail", e));
                return;
            }
        };
        views.push(guard(|| full_view(&next)).unwrap_or("view-panicked".into()));
        bytes_list.push(bytes);
        books.push(next.clone());
        cur = next;
    }
    // the second generation is a fixed point
    if views[0] == views[1] && views[1] == views[2] {
        out.oracle_ok();
    } else {
        let (g, d) = if views[0] != views[1] { (2, first_diff(&views[0], &views[1])) } else { (3, first_diff(&views[1], &views[2])) };
        out.oracle_fail(Fail::new("generation-drift").with("op", header).with("generation", g.to_string()).with("detail", d));
    }
    // the first generation shows what the original showed (semantic projection: blank unstyled cells carry nothing)
    let p0 = guard(|| wb::view(&book0)).unwrap_or_default();
    let p1 = guard(|| wb::view(&books[0])).unwrap_or_default();
    if p0 == p1 {
        out.oracle_ok();
    } else {
        out.oracle_fail(Fail::new("first-generation-differs").with("op", header).with("detail", first_diff(&p0, &p1)));
    }
    // ... and the same for the full view (annotations, column / row dimensions, style facts), section by section
    {
        let s0: Vec<&str> = v0.split(';').collect();
        let s1: Vec<&str> = views[0].split(';').collect();
        let mut diff = vec![];
        if s0.len() == s1.len() {
            for (x, y) in s0.iter().zip(s1.iter()) {
                if x != y {
                    let key = x.split('=').next().unwrap_or("?").trim_start_matches(|c: char| !c.is_ascii_alphabetic());
                    diff.push(format!("{}: {}", key, first_diff(x, y)));
                }
            }
        } else {
            diff.push(format!("sections {} vs {}", s0.len(), s1.len()));
        }
        if diff.is_empty() {
            out.oracle_ok();
        } else {
            let keys: std::collections::BTreeSet<String> = diff.iter().map(|d| d.split(':').next().unwrap_or("?").to_string()).collect();
            out.oracle_fail(Fail::new("first-generation-full-view-differs").with("op", header).with("sections", keys.into_iter().collect::<Vec<_>>().join("+")).with("detail", diff.join(" | ")));
        }
    }
    // saving the same unchanged workbook twice: same parts, same content
    match guard(|| wb::save_bytes(&books[0], light)) {
        Ok(Ok(b2)) => {
            let pa: Vec<String> = unzip_all(&bytes_list[1]).map(|p| p.into_iter().map(|x| x.0).collect()).unwrap_or_default();
            let pb: Vec<String> = unzip_all(&b2).map(|p| p.into_iter().map(|x| x.0).collect()).unwrap_or_default();
            let vb = reload(&b2).map(|b| full_view(&b)).unwrap_or_default();
            if pa == pb && vb == views[1] {
                out.oracle_ok();
            } else {
                out.oracle_fail(Fail::new("second-save-differs").with("op", header).with("detail", if pa != pb { format!("parts {:?} vs {:?}", pa, pb) } else { first_diff(&views[1], &vb) }));
            }
        }
        _ => out.oracle_fail(Fail::new("save-failed").with("op", header).with("generation", "second-save")),
    }
    // a single-cell edit changes nothing else
    {
        let mut edited = books[0].clone();
        let seed: u64 = header.bytes().fold(7u64, |h, b| h.wrapping_mul(131).wrapping_add(b as u64));
        let mut rng = Rng::new(seed);
        let si = rng.below(edited.get_sheet_count() as u64) as usize;
        let (c, r) = (rng.range(1, 6) as u32, rng.range(1, 9) as u32);
        let ok = guard(|| {
            edited.get_sheet_mut(&si).unwrap().get_cell_mut((c, r)).set_value_string("EDITED<&>");
        });
        if ok.is_ok() {
            if let Ok(Ok(b)) = guard(|| wb::save_bytes(&edited, light)) {
                if let Ok(nb) = reload(&b) {
                    let ve = guard(|| full_view(&nb)).unwrap_or_default();
                    // generation 1 is a fixed point, so the edited workbook must reload as itself:
                    // it differs from generation 1 in that one cell only (by construction, in memory)
                    let want = guard(|| full_view(&edited)).unwrap_or_default();
                    let coord = umya_spreadsheet::helper::coordinate::coordinate_from_index(&c, &r);
                    if ve == want {
                        out.oracle_ok();
                    } else {
                        out.oracle_fail(Fail::new("edit-not-local").with("op", header).with("cell", format!("{}!{}", si, coord)).with("detail", first_diff(&want, &ve)));
                    }
                }
            }
        }
    }
    // the attribute channel: stored text -> raw attribute text in the file -> text after reload
    if let Ok(parts) = unzip_all(&bytes_list[0]) {
        if let Some((_, wbx)) = parts.iter().find(|p| p.0 == "xl/workbook.xml") {
            let xml = String::from_utf8_lossy(wbx).to_string();
            let raws = raw_attrs(&xml, "sheet", "name");
            for (i, raw) in raws.iter().enumerate() {
                if i < book0.get_sheet_count() && i < books[0].get_sheet_count() {
                    let stored = book0.get_sheet(&i).unwrap().get_name().to_string();
                    let back = books[0].get_sheet(&i).unwrap().get_name().to_string();
                    let line = format!("c04 attr {} {}", hex(&stored), hex(raw));
                    out.begin(&line);
                    out.end(&line, &hex(&back), true);
                    out.count("attr.sheet-name");
                }
            }
        }
        for i in 0..books[0].get_sheet_count().min(book0.get_sheet_count()) {
            let relname = format!("xl/worksheets/_rels/sheet{}.xml.rels", i + 1);
            if let Some((_, rx)) = parts.iter().find(|p| p.0 == relname) {
                let xml = String::from_utf8_lossy(rx).to_string();
                // external hyperlink targets in relationship order = sorted coordinate order
                let mut stored: Vec<(String, String)> = book0.get_sheet(&i).unwrap().get_cell_collection().iter().filter_map(|c| c.get_hyperlink().filter(|h| !*h.get_location()).map(|h| (c.get_coordinate().get_coordinate(), h.get_url().to_string()))).collect();
                stored.sort();
                let mut back: Vec<(String, String)> = books[0].get_sheet(&i).unwrap().get_cell_collection().iter().filter_map(|c| c.get_hyperlink().filter(|h| !*h.get_location()).map(|h| (c.get_coordinate().get_coordinate(), h.get_url().to_string()))).collect();
                back.sort();
                let mut raws = vec![];
                for t in scan_between(&xml, "<Relationship ", ">") {
                    let t2 = format!(" {}", t);
                    if attr_of(&t2, "TargetMode") == Some("External") && attr_of(&t2, "Type").map(|x| x.ends_with("/hyperlink")).unwrap_or(false) {
                        raws.push(attr_of(&t2, "Target").unwrap_or("").to_string());
                    }
                }
                if raws.len() == stored.len() && back.len() == stored.len() {
                    for k in 0..raws.len() {
                        let line = format!("c04 attr {} {}", hex(&stored[k].1), hex(&raws[k]));
                        out.begin(&line);
                        out.end(&line, &hex(&back[k].1), true);
                        out.count("attr.hyperlink-target");
                    }
                }
            }
        }
    }
}

pub fn gen(tier: Tier, seed: u64) -> Vec<String> {
    let mut rng = Rng::new(seed ^ 0xC04);
    let mut v = vec![];
    let n = if tier == Tier::Thorough { 1000 } else { 100 };
    for i in 0..n {
        v.push(format!("c04 reset gen {} {}", rng.next() % 1_000_000_007, if i % 4 == 3 { "light" } else { "std" }));
    }
    for (i, f) in corpus_files(tier == Tier::Thorough).iter().enumerate() {
        if tier == Tier::Thorough || i % 4 == 1 {
            v.push(format!("c04 reset file {} std", f));
        }
    }
    v
}

pub fn run(out: &mut Out, tier: Tier, seed: u64, replay: Option<Vec<String>>) {
    let headers: Vec<String> = match replay {
        Some(r) => r.into_iter().filter(|l| l.starts_with("c04 reset ")).collect(),
        None => gen(tier, seed),
    };
    for h in headers {
        run_case(out, &h);
    }
}
