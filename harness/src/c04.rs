//! C04 — re-saving is stable: no drift, no loss of untouched content.
use crate::c02::{book_of, corpus_files};
use crate::common::*;
use crate::wb;
use std::io::Cursor;
use umya_spreadsheet::structs::*;

/// everything `wb::view` shows plus annotations, dimensions and style facts (the "full public-getter view")
pub fn full_view(book: &Spreadsheet) -> String {
    let n = book.get_sheet_count();
    let mut per = vec![];
    for i in 0..n {
        let ws = book.get_sheet(&i).unwrap();
        let mut comments: Vec<String> = ws
            .get_comments()
            .iter()
            .map(|c| format!("{}:{}:{}", c.get_coordinate().get_coordinate(), hex(c.get_author()), hex(&c.get_text().get_text())))
            .collect();
        comments.sort();
        let af = ws.get_auto_filter().map(|a| a.get_range().get_range()).unwrap_or("-".into());
        let tab = ws.get_tab_color().map(|c| c.get_argb().to_string()).unwrap_or("-".into());
        let dv: Vec<String> = ws
            .get_data_validations()
            .map(|d| d.get_data_validation_list().iter().map(|v| format!("{}:{}:{}", v.get_sequence_of_references().get_sqref(), hex(v.get_formula1()), hex(v.get_prompt()))).collect())
            .unwrap_or_default();
        let cf: Vec<String> = ws
            .get_conditional_formatting_collection()
            .iter()
            .map(|f| format!("{}:{}", f.get_sequence_of_references().get_sqref(), f.get_conditional_collection().iter().map(|r| format!("{}.{}", r.get_priority(), hex(r.get_formula().map(|x| x.get_address_str()).unwrap_or_default().as_str()))).collect::<Vec<_>>().join("+")))
            .collect();
        let hf = format!("{}~{}", hex(ws.get_header_footer().get_odd_header().get_value()), hex(ws.get_header_footer().get_odd_footer().get_value()));
        let ps = format!("{:?}.{}", ws.get_page_setup().get_orientation(), ws.get_page_setup().get_paper_size());
        let prot = ws.get_sheet_protection().map(|p| format!("{}", p.get_sheet())).unwrap_or("-".into());
        let mut cols: Vec<String> = ws.get_column_dimensions().iter().map(|c| format!("{}:{}:{}", c.get_col_num(), c.get_width(), c.get_hidden())).collect();
        cols.sort();
        let mut rows: Vec<String> = ws.get_row_dimensions().iter().map(|r| format!("{}:{}:{}", r.get_row_num(), r.get_height(), r.get_hidden())).collect();
        rows.sort();
        let styles: Vec<String> = ws
            .get_cell_collection_sorted()
            .iter()
            .filter_map(|c| {
                // the EFFECTIVE style facts; a style object that says nothing but "General" is the default style
                let s = c.get_style();
                let code = s.get_number_format().map(|n| n.get_format_code()).unwrap_or("");
                let code = if code == "General" { "" } else { code };
                let bold = s.get_font().map(|f| *f.get_bold()).unwrap_or(false);
                let bg = s.get_background_color().map(|c| c.get_argb().to_string()).unwrap_or("-".into());
                if code.is_empty() && !bold && bg == "-" {
                    None
                } else {
                    Some(format!("{}:{}:{}:{}", c.get_coordinate().get_coordinate(), hex(code), bold, bg))
                }
            })
            .collect();
        per.push(format!(
            "cm={};af={};tab={};dv={};cf={};hf={};ps={};prot={};cols={};rows={};st={}",
            comments.join(","), af, tab, dv.join(","), cf.join(","), hf, ps, prot, cols.join(","), rows.join(","), styles.join(",")
        ));
    }
    format!("{} ## {}", wb::view(book), per.join(" ## "))
}

fn reload(bytes: &[u8]) -> Result<Spreadsheet, String> {
    guard(|| umya_spreadsheet::reader::xlsx::read_reader(Cursor::new(bytes.to_vec()), true)).map_err(|_| "reader panicked".to_string())?.map_err(|e| format!("{:?}", e))
}

fn first_diff(a: &str, b: &str) -> String {
    let pa: Vec<&str> = a.split(|c| c == ';' || c == '#').collect();
    let pb: Vec<&str> = b.split(|c| c == ';' || c == '#').collect();
    for (x, y) in pa.iter().zip(pb.iter()) {
        if x != y {
            let xs: Vec<&str> = x.split(',').collect();
            let ys: Vec<&str> = y.split(',').collect();
            for (p, q) in xs.iter().zip(ys.iter()) {
                if p != q {
                    return format!("{} -> {}", &p[..p.len().min(160)], &q[..q.len().min(160)]);
                }
            }
            return format!("{}… ({} items) -> {}… ({} items)", &x[..x.len().min(60)], xs.len(), &y[..y.len().min(60)], ys.len());
        }
    }
    format!("lengths {} vs {}", pa.len(), pb.len())
}

/// raw (still escaped) values of attribute `attr` of elements `<tag …>` in document order
fn raw_attrs(xml: &str, tag: &str, attr: &str) -> Vec<String> {
    let mut out = vec![];
    for t in scan_between(xml, &format!("<{} ", tag), ">") {
        if let Some(v) = attr_of(&format!(" {}", t), attr) {
            out.push(v.to_string());
        }
    }
    out
}


// ---------------------------------------------------------------- the `c04 norm` tie (see Umya/Driver/C04.lean)
//
// For generated workbooks the harness reads, per family, the MODEL-level value of the original workbook (the fields
// with their has-value state, which the getters hide: taken from the `Debug` rendering) and of generation 1, in the
// spec syntax of Umya/Driver/C06View.lean.  Request = `c04 norm <family> <spec of the original>`, the
// implementation's reply = the spec of generation 1; the driver parses the original's spec, applies the model's
// `norm` (the normal form `C04_fixpoint_<family>` / `normBook` are about) and prints it again.  A difference means
// that the model's `norm` is not what one save + load does.

thread_local! {
    /// when set, every field "has a value": the specs then show what the GETTERS return (value or default)
    static GETTER_LEVEL: std::cell::Cell<bool> = std::cell::Cell::new(false);
}
fn getter_level<T>(f: impl FnOnce() -> T) -> T {
    GETTER_LEVEL.with(|g| g.set(true));
    let r = f();
    GETTER_LEVEL.with(|g| g.set(false));
    r
}
fn has(d: &str, field: &str) -> bool {
    if GETTER_LEVEL.with(|g| g.get()) {
        return true;
    }
    for ty in ["BooleanValue", "UInt32Value", "DoubleValue", "StringValue", "EnumValue", "Int32Value"] {
        if d.contains(&format!("{}: {} {{ value: None", field, ty)) {
            return false;
        }
    }
    true
}
fn s_text(h: bool, v: &str) -> String {
    if h { format!("={}", hex(v)) } else { "~".into() }
}
fn s_num<T: std::fmt::Display>(h: bool, v: T) -> String {
    if h { v.to_string() } else { "~".into() }
}
fn s_bool(h: bool, v: bool) -> String {
    if h { (if v { "1" } else { "0" }).into() } else { "~".into() }
}
fn s_coord(c: &Coordinate) -> String {
    format!("{}.{}.{}.{}", c.get_col_num(), c.get_row_num(), if *c.get_is_lock_col() { 1 } else { 0 }, if *c.get_is_lock_row() { 1 } else { 0 })
}

fn spec_hf(ws: &Worksheet) -> String {
    let h = ws.get_header_footer().get_odd_header();
    let f = ws.get_header_footer().get_odd_footer();
    let g = GETTER_LEVEL.with(|g| g.get());
    format!("{},{}", s_text(g || !format!("{:?}", h).contains("value: None"), h.get_value()), s_text(g || !format!("{:?}", f).contains("value: None"), f.get_value()))
}
fn spec_margins(ws: &Worksheet) -> String {
    let m = ws.get_page_margins();
    let d = format!("{:?}", m);
    [("left", *m.get_left()), ("right", *m.get_right()), ("top", *m.get_top()), ("bottom", *m.get_bottom()), ("header", *m.get_header()), ("footer", *m.get_footer())]
        .iter()
        .map(|(k, v)| s_num(has(&d, k), v))
        .collect::<Vec<_>>()
        .join(",")
}
/// `None` = a colour the model's spec cannot express (stored rgb hidden behind an index)
fn spec_color(c: &Color) -> Option<String> {
    let d = format!("{:?}", c);
    let (hi, ht, ha, hti) = (has(&d, "indexed"), has(&d, "theme_index"), has(&d, "argb"), has(&d, "tint"));
    if GETTER_LEVEL.with(|g| g.get()) {
        return Some(format!("{},{},{},{}", c.get_indexed(), c.get_theme_index(), hex(c.get_argb()), c.get_tint()));
    }
    if hi && ha {
        return None;
    }
    Some(format!("{},{},{},{}", s_num(hi, c.get_indexed()), s_num(ht, c.get_theme_index()), s_text(ha, c.get_argb()), s_num(hti, c.get_tint())))
}
fn spec_tab(ws: &Worksheet) -> Option<String> {
    match ws.get_tab_color() {
        None => Some("none".into()),
        Some(c) => spec_color(c),
    }
}
fn spec_view(v: &SheetView) -> String {
    let d = format!("{:?}", v);
    let mut s = format!(
        "{},{},{},{},{},{},{},{},{}",
        s_bool(has(&d, "show_grid_lines"), *v.get_show_grid_lines()),
        s_bool(has(&d, "tab_selected"), *v.get_tab_selected()),
        s_num(has(&d, "workbook_view_id"), v.get_workbook_view_id()),
        if has(&d, "view") { v.get_view().get_value_string().to_string() } else { "~".into() },
        s_num(has(&d, "zoom_scale"), v.get_zoom_scale()),
        s_num(has(&d, "zoom_scale_normal"), v.get_zoom_scale_normal()),
        s_num(has(&d, "zoom_scale_page_layout_view"), v.get_zoom_scale_page_layout_view()),
        s_num(has(&d, "zoom_scale_sheet_layout_view"), v.get_zoom_scale_sheet_layout_view()),
        s_text(has(&d, "top_left_cell"), v.get_top_left_cell())
    );
    s.push(';');
    match v.get_pane() {
        None => s.push('~'),
        Some(p) => {
            let dp = format!("{:?}", p);
            s.push_str(&format!(
                "{},{},{},{},{}",
                s_num(has(&dp, "horizontal_split"), p.get_horizontal_split()),
                s_num(has(&dp, "vertical_split"), p.get_vertical_split()),
                s_coord(p.get_top_left_cell()),
                if has(&dp, "active_pane") { p.get_active_pane().get_value_string().to_string() } else { "~".into() },
                if has(&dp, "state") { p.get_state().get_value_string().to_string() } else { "~".into() }
            ));
        }
    }
    for x in v.get_selection() {
        let dx = format!("{:?}", x);
        let sq = x.get_sequence_of_references().get_range_collection();
        s.push_str(&format!(
            ";{},{},{}",
            if has(&dx, "pane") { x.get_pane().get_value_string().to_string() } else { "~".into() },
            x.get_active_cell().map(s_coord).unwrap_or("~".into()),
            if sq.is_empty() { "~".to_string() } else { sq.iter().map(|r| r.get_range()).collect::<Vec<_>>().join("+") }
        ));
    }
    s
}
fn spec_views(ws: &Worksheet) -> String {
    let l = ws.get_sheets_views().get_sheet_view_list();
    if l.is_empty() {
        "~".into()
    } else {
        l.iter().map(spec_view).collect::<Vec<_>>().join("|")
    }
}
fn spec_font(f: &Font) -> Option<String> {
    let d = format!("{:?}", f);
    let g = GETTER_LEVEL.with(|g| g.get());
    let hb = g || !d.contains("font_bold: Bold { val: BooleanValue { value: None");
    let hi = g || !d.contains("font_italic: Italic { val: BooleanValue { value: None");
    spec_color(f.get_color()).map(|c| format!("{},{},{}", s_bool(hb, *f.get_bold()), s_bool(hi, *f.get_italic()), c))
}
/// a row's own attributes (the `Debug` text is cut before the nested style, whose fields share names with the row's)
fn spec_row(r: &Row) -> String {
    let full = format!("{:?}", r);
    let d = full.split(", style: ").next().unwrap_or("");
    format!(
        "{},{},{},{},{},{}",
        r.get_row_num(),
        s_num(has(d, "height"), r.get_height()),
        s_num(has(d, "descent"), r.get_descent()),
        s_bool(has(d, "thick_bot"), *r.get_thick_bot()),
        s_bool(has(d, "custom_height"), *r.get_custom_height()),
        s_bool(has(d, "hidden"), *r.get_hidden())
    )
}
fn spec_col(c: &Column) -> String {
    let full = format!("{:?}", c);
    let d = full.split(", style: ").next().unwrap_or("");
    format!("{},{},{}", c.get_width(), s_bool(has(d, "hidden"), *c.get_hidden()), s_bool(has(d, "best_fit"), *c.get_best_fit()))
}
fn style_is_empty(st: &Style) -> bool {
    st.get_font().is_none() && st.get_fill().is_none() && st.get_borders().is_none() && st.get_alignment().is_none() && st.get_numbering_format().is_none() && st.get_protection().is_none()
}
fn sorted_cells(ws: &Worksheet) -> Vec<&Cell> {
    let mut v: Vec<&Cell> = ws.get_cell_collection();
    v.sort_by_key(|c| (*c.get_coordinate().get_row_num(), *c.get_coordinate().get_col_num()));
    v
}
/// every stored cell that has a value / formula (V) or is blank AND has no style component (E.u): column, row, flags.
/// Blank cells that carry a style object are left out on both sides: whether such a cell survives depends on the xf
/// index its style resolves to (index 0 is written without `s=`), which the cell model's `styled` flag does not see —
/// see the report (blank styled cells whose style equals the default decay over three generations, invisibly to the
/// effective-formatting view).
fn spec_cells(ws: &Worksheet) -> String {
    let v: Vec<String> = sorted_cells(ws)
        .iter()
        .filter(|c| !c.get_cell_value().is_empty() || style_is_empty(c.get_style()))
        .map(|c| format!("{}.{}.{}.u", c.get_coordinate().get_col_num(), c.get_coordinate().get_row_num(), if c.get_cell_value().is_empty() { "E" } else { "V" }))
        .collect();
    if v.is_empty() {
        "~".into()
    } else {
        v.join(",")
    }
}
/// the cells of a loaded sheet that carry a value or a formula
fn kept_cells(ws: &Worksheet) -> String {
    let v: Vec<String> = sorted_cells(ws)
        .iter()
        .filter(|c| is_kept(c))
        .map(|c| format!("{}.{}", c.get_coordinate().get_col_num(), c.get_coordinate().get_row_num()))
        .collect();
    if v.is_empty() {
        "~".into()
    } else {
        v.join(",")
    }
}

/// values whose normal form is not the identity, put on a generated workbook through the public setters (none of
/// them is visible through the getters `full_view` compares)
fn twist(book: &mut Spreadsheet, rng: &mut Rng, out: &mut Out) {
    for i in 0..book.get_sheet_count() {
        let ws = book.get_sheet_mut(&i).unwrap();
        match rng.below(4) {
            0 => {
                ws.get_header_footer_mut().get_odd_header_mut().set_value("");
                out.count("twist.hf.empty-header");
            }
            1 => {
                ws.get_header_footer_mut().get_odd_footer_mut().set_value("");
                ws.get_header_footer_mut().get_odd_header_mut().set_value(" &L&\"Arial,Bold\"&12 a<b>& ");
                out.count("twist.hf.empty-footer+padded-header");
            }
            _ => {}
        }
        if rng.chance(1, 3) {
            ws.get_page_margins_mut().set_left(0.25).set_footer(0.0);
            out.count("twist.margins.partly-set");
        }
        if rng.chance(1, 2) {
            let views = ws.get_sheet_views_mut().get_sheet_view_list_mut();
            if views.is_empty() {
                views.push(SheetView::default());
            }
            let v = &mut views[0];
            match rng.below(3) {
                0 => {
                    v.set_tab_selected(false);
                    out.count("twist.view.tabSelected-false");
                }
                1 => {
                    let mut p = Pane::default();
                    p.set_vertical_split(1.0);
                    let mut c = Coordinate::default();
                    c.set_col_num(1).set_row_num(2);
                    p.set_top_left_cell(c);
                    if rng.chance(1, 2) {
                        p.set_state(PaneStateValues::Frozen);
                    }
                    v.set_pane(p);
                    out.count("twist.view.pane-without-enum-values");
                }
                _ => {
                    v.set_zoom_scale(55);
                    out.count("twist.view.zoom");
                }
            }
        }
        if rng.chance(1, 2) {
            let (c, r) = (rng.range(1, 6) as u32, rng.range(1, 9) as u32);
            let f = ws.get_cell_mut((c, r)).get_style_mut().get_font_mut();
            f.set_bold(false);
            if rng.chance(1, 2) {
                f.set_italic(true);
            }
            out.count("twist.font.bold-false");
        }
        if rng.chance(1, 2) {
            // a cell object that holds nothing: `Cell::write_to` skips it
            let _ = ws.get_cell_mut((rng.range(9, 12) as u32, rng.range(13, 16) as u32));
            out.count("twist.cells.blank-unstyled");
        }
        // flags explicitly false / height 0 on a row that has cells, flags explicitly false on a column
        let first = ws.get_cell_collection().iter().map(|c| *c.get_coordinate().get_row_num()).min();
        if let (Some(r), true) = (first, rng.chance(1, 2)) {
            let row = ws.get_row_dimension_mut(&r);
            row.set_hidden(false).set_custom_height(false);
            if rng.chance(1, 2) {
                row.set_height(0.0);
            }
            out.count("twist.row.flags-false");
        }
        if rng.chance(1, 2) {
            let c = rng.range(1, 4) as u32;
            ws.get_column_dimension_by_number_mut(&c).set_hidden(false).set_best_fit(false);
            out.count("twist.col.flags-false");
        }
    }
}

/// `gen2 = false`: original -> generation 1 (the model's `norm` of the original must be what the implementation holds);
/// `gen2 = true`: generation 1 -> generation 2 (the same request on generation 1; and, independently of the model, the
/// two specs must be EQUAL: the second generation is a fixed point, has-value states included)
fn norm_req(out: &mut Out, header: &str, gen2: bool, family: &str, spec0: &str, spec1: &str) {
    let line = format!("c04 norm {} {}", family, spec0);
    out.begin(&line);
    out.end(&line, spec1, true);
    let tag = if gen2 { "norm2" } else { "norm" };
    out.count(&format!("{}.{}", tag, family));
    if gen2 && family != "cells" {
        if spec0 == spec1 {
            out.oracle_ok();
        } else {
            out.oracle_fail(Fail::new("generation-2-not-a-fixed-point").with("op", header).with("family", family).with("generation1", spec0).with("generation2", spec1));
        }
    } else if spec0 != spec1 && family != "cells" {
        out.count(&format!("{}.{}.not-identity", tag, family));
    }
}

fn is_kept(c: &Cell) -> bool {
    !c.get_cell_value().is_empty()
}

fn norm_tie(out: &mut Out, header: &str, gen2: bool, book0: &Spreadsheet, book1: &Spreadsheet) {
    for i in 0..book0.get_sheet_count().min(book1.get_sheet_count()) {
        let (w0, w1) = (book0.get_sheet(&i).unwrap(), book1.get_sheet(&i).unwrap());
        if !gen2 {
            // independently of the model: generation 1 shows through the getters what the original showed
            let g0 = getter_level(|| format!("hf={} margins={} views={}", spec_hf(w0), spec_margins(w0), spec_views(w0)));
            let g1 = getter_level(|| format!("hf={} margins={} views={}", spec_hf(w1), spec_margins(w1), spec_views(w1)));
            if g0 == g1 {
                out.oracle_ok();
            } else {
                out.oracle_fail(Fail::new("first-generation-getters-differ").with("op", header).with("sheet", i.to_string()).with("original", g0).with("generation1", g1));
            }
        }
        norm_req(out, header, gen2, "hf", &spec_hf(w0), &spec_hf(w1));
        norm_req(out, header, gen2, "margins", &spec_margins(w0), &spec_margins(w1));
        norm_req(out, header, gen2, "views", &spec_views(w0), &spec_views(w1));
        match (spec_tab(w0), spec_tab(w1)) {
            (Some(a), Some(b)) => norm_req(out, header, gen2, "tab", &a, &b),
            _ => out.count("norm.tab.unmodelled"),
        }
        norm_req(out, header, gen2, "cells", &spec_cells(w0), &kept_cells(w1));
        if sorted_cells(w0).iter().any(|c| c.get_cell_value().is_empty() && style_is_empty(c.get_style())) {
            out.count(if gen2 { "norm2.cells.blank-unstyled-present" } else { "norm.cells.blank-unstyled-dropped" });
        }
        if sorted_cells(w0).iter().any(|c| c.get_cell_value().is_empty() && !style_is_empty(c.get_style())) {
            out.count(if gen2 { "norm2.cells.blank-styled-left-out" } else { "norm.cells.blank-styled-left-out" });
        }
        // rows and columns that exist on both sides (an attribute-less row without cells is not written at all)
        let mut rows0: Vec<&Row> = w0.get_row_dimensions();
        rows0.sort_by_key(|r| *r.get_row_num());
        for r0 in rows0.iter().take(12) {
            if let Some(r1) = w1.get_row_dimension(r0.get_row_num()) {
                norm_req(out, header, gen2, "row", &spec_row(r0), &spec_row(r1));
            }
        }
        for c0 in w0.get_column_dimensions().iter().take(12) {
            if let Some(c1) = w1.get_column_dimension_by_number(c0.get_col_num()) {
                norm_req(out, header, gen2, "col", &spec_col(c0), &spec_col(c1));
            }
        }
        let mut n = 0;
        for c in sorted_cells(w0) {
            if n >= 8 {
                break;
            }
            let co = c.get_coordinate().get_coordinate();
            if let (Some(f0), Some(f1)) = (c.get_style().get_font(), w1.get_cell(co.as_str()).and_then(|x| x.get_style().get_font())) {
                match (spec_font(f0), spec_font(f1)) {
                    (Some(a), Some(b)) => norm_req(out, header, gen2, "font", &a, &b),
                    _ => out.count("norm.font.unmodelled"),
                }
                n += 1;
            }
        }
    }
}

pub fn run_case(out: &mut Out, header: &str) {
    let a: Vec<&str> = header.split(' ').collect();
    out.begin(header);
    out.end(header, "ok", false);
    out.count("programs");
    let light = a.get(4) == Some(&"light");
    let mut book0 = match book_of(&a) {
        Ok(b) => b,
        Err(e) => {
            out.oracle_fail(Fail::new("case-build-failed").with("op", header).with("detail", e));
            return;
        }
    };
    let generated = a.get(2) == Some(&"gen");
    if generated {
        let seed: u64 = header.bytes().fold(11u64, |h, b| h.wrapping_mul(137).wrapping_add(b as u64));
        let mut rng = Rng::new(seed);
        let _ = guard(|| twist(&mut book0, &mut rng, out));
    }
    let v0 = guard(|| full_view(&book0)).unwrap_or("view-panicked".into());
    // generations
    let mut views = vec![];
    let mut books = vec![];
    let mut bytes_list = vec![];
    let mut cur = book0.clone();
    for g in 1..=3 {
        let bytes = match guard(|| wb::save_bytes(&cur, light)) {
            Ok(Ok(b)) => b,
            _ => {
                out.oracle_fail(Fail::new("save-failed").with("op", header).with("generation", g.to_string()));
                return;
            }
        };
        let next = match reload(&bytes) {
            Ok(b) => b,
            Err(e) => {
                out.oracle_fail(Fail::new("reload-failed").with("op", header).with("generation", g.to_string()).with("detail", e));
                return;
            }
        };
        views.push(guard(|| full_view(&next)).unwrap_or("view-panicked".into()));
        bytes_list.push(bytes);
        books.push(next.clone());
        cur = next;
    }
    // the second generation is a fixed point
    if views[0] == views[1] && views[1] == views[2] {
        out.oracle_ok();
    } else {
        let (g, d) = if views[0] != views[1] { (2, first_diff(&views[0], &views[1])) } else { (3, first_diff(&views[1], &views[2])) };
        out.oracle_fail(Fail::new("generation-drift").with("op", header).with("generation", g.to_string()).with("detail", d));
    }
    // generation 1 is the model's normal form of the original, family by family (generated workbooks)
    if generated {
        let (b1, b2) = (books[0].clone(), books[1].clone());
        let _ = guard(|| norm_tie(out, header, false, &book0, &b1));
        let _ = guard(|| norm_tie(out, header, true, &b1, &b2));
    }
    // the first generation shows what the original showed (semantic projection: blank unstyled cells carry nothing)
    let p0 = guard(|| wb::view(&book0)).unwrap_or_default();
    let p1 = guard(|| wb::view(&books[0])).unwrap_or_default();
    if p0 == p1 {
        out.oracle_ok();
    } else {
        out.oracle_fail(Fail::new("first-generation-differs").with("op", header).with("detail", first_diff(&p0, &p1)));
    }
    // ... and the same for the full view (annotations, column / row dimensions, style facts), section by section
    {
        let s0: Vec<&str> = v0.split(';').collect();
        let s1: Vec<&str> = views[0].split(';').collect();
        let mut diff = vec![];
        if s0.len() == s1.len() {
            for (x, y) in s0.iter().zip(s1.iter()) {
                if x != y {
                    let key = x.split('=').next().unwrap_or("?").trim_start_matches(|c: char| !c.is_ascii_alphabetic());
                    diff.push(format!("{}: {}", key, first_diff(x, y)));
                }
            }
        } else {
            diff.push(format!("sections {} vs {}", s0.len(), s1.len()));
        }
        if diff.is_empty() {
            out.oracle_ok();
        } else {
            let keys: std::collections::BTreeSet<String> = diff.iter().map(|d| d.split(':').next().unwrap_or("?").to_string()).collect();
            out.oracle_fail(Fail::new("first-generation-full-view-differs").with("op", header).with("sections", keys.into_iter().collect::<Vec<_>>().join("+")).with("detail", diff.join(" | ")));
        }
    }
    // saving the same unchanged workbook twice: same parts, same content
    match guard(|| wb::save_bytes(&books[0], light)) {
        Ok(Ok(b2)) => {
            let pa: Vec<String> = unzip_all(&bytes_list[1]).map(|p| p.into_iter().map(|x| x.0).collect()).unwrap_or_default();
            let pb: Vec<String> = unzip_all(&b2).map(|p| p.into_iter().map(|x| x.0).collect()).unwrap_or_default();
            let vb = reload(&b2).map(|b| full_view(&b)).unwrap_or_default();
            if pa == pb && vb == views[1] {
                out.oracle_ok();
            } else {
                out.oracle_fail(Fail::new("second-save-differs").with("op", header).with("detail", if pa != pb { format!("parts {:?} vs {:?}", pa, pb) } else { first_diff(&views[1], &vb) }));
            }
        }
        _ => out.oracle_fail(Fail::new("save-failed").with("op", header).with("generation", "second-save")),
    }
    // a single-cell edit changes nothing else
    {
        let mut edited = books[0].clone();
        let seed: u64 = header.bytes().fold(7u64, |h, b| h.wrapping_mul(131).wrapping_add(b as u64));
        let mut rng = Rng::new(seed);
        let si = rng.below(edited.get_sheet_count() as u64) as usize;
        let (c, r) = (rng.range(1, 6) as u32, rng.range(1, 9) as u32);
        let ok = guard(|| {
            edited.get_sheet_mut(&si).unwrap().get_cell_mut((c, r)).set_value_string("EDITED<&>");
        });
        if ok.is_ok() {
            if let Ok(Ok(b)) = guard(|| wb::save_bytes(&edited, light)) {
                if let Ok(nb) = reload(&b) {
                    let ve = guard(|| full_view(&nb)).unwrap_or_default();
                    // generation 1 is a fixed point, so the edited workbook must reload as itself:
                    // it differs from generation 1 in that one cell only (by construction, in memory)
                    let want = guard(|| full_view(&edited)).unwrap_or_default();
                    let coord = umya_spreadsheet::helper::coordinate::coordinate_from_index(&c, &r);
                    if ve == want {
                        out.oracle_ok();
                    } else {
                        out.oracle_fail(Fail::new("edit-not-local").with("op", header).with("cell", format!("{}!{}", si, coord)).with("detail", first_diff(&want, &ve)));
                    }
                }
            }
        }
    }
    // edits that change WHICH cells exist (create inside the used range / in a new row / beyond the used range, remove,
    // make blank) and a style edit that interns a new xf: oracle = the reloaded workbook shows what the edited one shows;
    // tie = the kept coordinates (and the row records made by get_cell_mut) against the model's createSheet /
    // deleteSheet / editSheet + normS / ensureRow
    for class in ["create-gap", "create-new-row", "create-extend", "delete", "blank", "new-style"] {
        let seed: u64 = header.bytes().chain(class.bytes()).fold(17u64, |h, b| h.wrapping_mul(149).wrapping_add(b as u64));
        let mut rng = Rng::new(seed);
        let mut edited = books[0].clone();
        let si = rng.below(edited.get_sheet_count() as u64) as usize;
        let col_nums = |ws: &Worksheet| -> Vec<u32> {
            let mut v: Vec<u32> = ws.get_column_dimensions().iter().map(|c| *c.get_col_num()).collect();
            v.sort();
            v
        };
        let cols_before = col_nums(edited.get_sheet(&si).unwrap());
        let (spec_before, rows_before, target) = {
            let ws = edited.get_sheet(&si).unwrap();
            let (hc, hr) = ws.get_highest_column_and_row();
            let kept: Vec<(u32, u32)> = sorted_cells(ws).iter().filter(|c| is_kept(c) && style_is_empty(c.get_style())).map(|c| (*c.get_coordinate().get_col_num(), *c.get_coordinate().get_row_num())).collect();
            let target: Option<(u32, u32)> = match class {
                "create-gap" => {
                    let mut gaps = vec![];
                    for r in 1..=hr.min(12) {
                        for c in 1..=hc.min(12) {
                            if ws.get_cell((c, r)).is_none() {
                                gaps.push((c, r));
                            }
                        }
                    }
                    if gaps.is_empty() { None } else { Some(gaps[rng.below(gaps.len() as u64) as usize]) }
                }
                "create-new-row" => Some((rng.range(1, hc.max(1) as u64) as u32, hr + 1 + rng.below(3) as u32)),
                "create-extend" => Some((hc + 1 + rng.below(3) as u32, hr + 1 + rng.below(3) as u32)),
                _ => if kept.is_empty() { None } else { Some(kept[rng.below(kept.len() as u64) as usize]) },
            };
            let mut rows: Vec<u32> = ws.get_row_dimensions().iter().map(|r| *r.get_row_num()).collect();
            rows.sort();
            (spec_cells(ws), rows, target)
        };
        let (c, r) = match target {
            Some(t) => t,
            None => {
                out.count(&format!("edit.{}.no-target", class));
                continue;
            }
        };
        let did = guard(|| {
            let ws = edited.get_sheet_mut(&si).unwrap();
            match class {
                "delete" => {
                    ws.remove_cell((c, r));
                }
                "blank" => {
                    ws.get_cell_mut((c, r)).set_blank();
                }
                "new-style" => {
                    ws.get_cell_mut((c, r)).get_style_mut().get_font_mut().set_name("C04 Edit Font").set_size(13.25).set_bold(true);
                }
                _ => {
                    ws.get_cell_mut((c, r)).set_value_string("CREATED<&>");
                }
            }
        });
        if did.is_err() {
            out.oracle_fail(Fail::new("edit-panicked").with("op", header).with("class", class));
            continue;
        }
        out.count(&format!("edit.{}", class));
        if class.starts_with("create") {
            out.count(if rows_before.contains(&r) { "edit.create.row-record-existed" } else { "edit.create.row-record-made" });
        }
        let mut rows_after: Vec<u32> = edited.get_sheet(&si).unwrap().get_row_dimensions().iter().map(|r| *r.get_row_num()).collect();
        rows_after.sort();
        let cols_after = col_nums(edited.get_sheet(&si).unwrap());
        let back = match guard(|| wb::save_bytes(&edited, light)) {
            Ok(Ok(b)) => reload(&b),
            _ => Err("save failed".into()),
        };
        let nb = match back {
            Ok(nb) => nb,
            Err(e) => {
                out.oracle_fail(Fail::new("save-failed").with("op", header).with("generation", format!("edit {}: {}", class, e)));
                continue;
            }
        };
        let want = guard(|| full_view(&edited)).unwrap_or_default();
        let got = guard(|| full_view(&nb)).unwrap_or_default();
        if want == got {
            out.oracle_ok();
        } else {
            out.oracle_fail(Fail::new("edit-not-local").with("op", header).with("cell", format!("{} {}!{}.{}", class, si, c, r)).with("detail", first_diff(&want, &got)));
        }
        let kept_after = kept_cells(nb.get_sheet(&si).unwrap());
        let join = |v: &Vec<u32>| if v.is_empty() { "~".to_string() } else { v.iter().map(|x| x.to_string()).collect::<Vec<_>>().join(",") };
        match class {
            "new-style" => {
                // every other cell of the workbook reads the style it reads without the edit (by the Debug rendering of the
                // style objects, xf indices not being part of them)
                let styles = |b: &Spreadsheet| -> Vec<String> {
                    let mut v = vec![];
                    for i in 0..b.get_sheet_count() {
                        for cell in sorted_cells(b.get_sheet(&i).unwrap()) {
                            let co = (*cell.get_coordinate().get_col_num(), *cell.get_coordinate().get_row_num());
                            if !(i == si && co == (c, r)) && is_kept(cell) {
                                v.push(format!("{}!{}.{} {:?}", i, co.0, co.1, cell.get_style()));
                            }
                        }
                    }
                    v
                };
                // "without the edit" = the next generation of the same workbook (the Debug rendering sees below the
                // getter level: a style equal to the default one is read back as no style object at all)
                let (sa, sb) = (styles(if books.len() > 1 { &books[1] } else { &books[0] }), styles(&nb));
                if sa == sb {
                    out.oracle_ok();
                } else {
                    let d = sa.iter().zip(sb.iter()).find(|(a, b)| a != b).map(|(a, b)| first_diff(a, b)).unwrap_or_else(|| format!("{} vs {} cells", sa.len(), sb.len()));
                    out.oracle_fail(Fail::new("edit-not-local").with("op", header).with("cell", format!("new style on {}!{}.{} changed another cell's style", si, c, r)).with("detail", d));
                }
            }
            "delete" | "blank" => {
                let line = format!("c04 edit {} {} {}.{}", class, spec_before, c, r);
                out.begin(&line);
                out.end(&line, &kept_after, true);
                if rows_after != rows_before || cols_after != (if class == "blank" { col_nums(books[0].get_sheet(&si).unwrap()).into_iter().chain(std::iter::once(c)).collect::<std::collections::BTreeSet<u32>>().into_iter().collect::<Vec<u32>>() } else { cols_before.clone() }) {
                    out.oracle_fail(Fail::new("edit-not-local").with("op", header).with("cell", format!("{} changed the row records", class)));
                }
            }
            _ => {
                let n = sorted_cells(books[0].get_sheet(&si).unwrap())
                    .iter()
                    .filter(|x| !x.get_cell_value().is_empty() || style_is_empty(x.get_style()))
                    .filter(|x| (*x.get_coordinate().get_row_num(), *x.get_coordinate().get_col_num()) < (r, c))
                    .count();
                let line = format!("c04 edit create {} {}.{} {} {} {}", spec_before, c, r, n, join(&rows_before), join(&cols_before));
                out.begin(&line);
                out.end(&line, &format!("{} {} {}", kept_after, join(&rows_after), join(&cols_after)), true);
                out.count(if cols_before.contains(&c) { "edit.create.col-record-existed" } else { "edit.create.col-record-made" });
                // the record of the new cell's row is read back, with default attributes
                match nb.get_sheet(&si).unwrap().get_row_dimension(&r) {
                    Some(rd) if rows_before.contains(&r) || (!*rd.get_hidden() && !*rd.get_custom_height()) => out.oracle_ok(),
                    _ => out.oracle_fail(Fail::new("edit-not-local").with("op", header).with("cell", format!("row record of the created cell {}!{}.{} missing or not default", si, c, r))),
                }
            }
        }
    }
    // a FORMAT edit on a loaded workbook whose custom number-format ids have a gap (three or more custom formats, the
    // cell that carried a middle one removed before the save that the load reads): giving one cell a number format the
    // workbook does not contain yet must leave every other cell's format alone
    if generated {
        let seed: u64 = header.bytes().fold(13u64, |h, b| h.wrapping_mul(139).wrapping_add(b as u64));
        let mut rng = Rng::new(seed);
        let n = rng.range(3, 6) as u32;
        let drop_at = rng.range(1, (n - 1) as u64) as u32; // never the last one: leaves a gap below the highest id
        let r = guard(|| -> Result<(String, String), String> {
            let mut b = umya_spreadsheet::new_file();
            for i in 0..n {
                let cell = b.get_sheet_mut(&0).unwrap().get_cell_mut((1u32, 1 + i));
                cell.set_value_number(1234.5 + i as f64);
                cell.get_style_mut().get_numbering_format_mut().set_format_code(format!("0.{}\"g{}\"", "0".repeat(1 + i as usize), i));
            }
            let _ = drop_at;
            // the gap is made in the FILE (spreadsheet applications leave such gaps when they prune unused formats): the
            // custom id 176 + j (a middle one) is renumbered to 176 + n in the numFmt table and in the xfs that use it
            let j = rng.range(1, (n - 1) as u64) as u32;
            let (from, to) = (format!("numFmtId=\"{}\"", 176 + j), format!("numFmtId=\"{}\"", 176 + n));
            let parts: Vec<(String, Vec<u8>)> = unzip_all(&wb::save_bytes(&b, light)?)?
                .into_iter()
                .map(|(name, data)| {
                    if name == "xl/styles.xml" {
                        (name, String::from_utf8_lossy(&data).replace(&from, &to).into_bytes())
                    } else {
                        (name, data)
                    }
                })
                .collect();
            let loaded = reload(&crate::c03::zip_parts(&parts, false))?;
            let mut edited = loaded.clone();
            let (ec, er) = (rng.range(2, 5) as u32, rng.range(1, 9) as u32);
            let cell = edited.get_sheet_mut(&0).unwrap().get_cell_mut((ec, er));
            cell.set_value_number(42);
            cell.get_style_mut().get_numbering_format_mut().set_format_code("yyyy-mm \"(edited)\"");
            let back = reload(&wb::save_bytes(&edited, light)?)?;
            Ok((full_view(&edited), full_view(&back)))
        });
        out.count("edit.number-format-on-gapped-ids");
        match r {
            Ok(Ok((want, got))) if want == got => out.oracle_ok(),
            Ok(Ok((want, got))) => out.oracle_fail(Fail::new("edit-not-local").with("op", header).with("cell", "number format edit on a workbook with a gap in its custom numFmt ids").with("detail", first_diff(&want, &got))),
            Ok(Err(e)) => out.oracle_fail(Fail::new("save-failed").with("op", header).with("generation", format!("format-edit: {}", e))),
            Err(_) => out.oracle_fail(Fail::new("save-failed").with("op", header).with("generation", "format-edit panicked")),
        }
    }
    // the attribute channel: stored text -> raw attribute text in the file -> text after reload
    if let Ok(parts) = unzip_all(&bytes_list[0]) {
        if let Some((_, wbx)) = parts.iter().find(|p| p.0 == "xl/workbook.xml") {
            let xml = String::from_utf8_lossy(wbx).to_string();
            let raws = raw_attrs(&xml, "sheet", "name");
            for (i, raw) in raws.iter().enumerate() {
                if i < book0.get_sheet_count() && i < books[0].get_sheet_count() {
                    let stored = book0.get_sheet(&i).unwrap().get_name().to_string();
                    let back = books[0].get_sheet(&i).unwrap().get_name().to_string();
                    let line = format!("c04 attr {} {}", hex(&stored), hex(raw));
                    out.begin(&line);
                    out.end(&line, &hex(&back), true);
                    out.count("attr.sheet-name");
                }
            }
        }
        for i in 0..books[0].get_sheet_count().min(book0.get_sheet_count()) {
            let relname = format!("xl/worksheets/_rels/sheet{}.xml.rels", i + 1);
            if let Some((_, rx)) = parts.iter().find(|p| p.0 == relname) {
                let xml = String::from_utf8_lossy(rx).to_string();
                // external hyperlink targets in relationship order = sorted coordinate order
                let mut stored: Vec<(String, String)> = book0.get_sheet(&i).unwrap().get_cell_collection().iter().filter_map(|c| c.get_hyperlink().filter(|h| !*h.get_location()).map(|h| (c.get_coordinate().get_coordinate(), h.get_url().to_string()))).collect();
                stored.sort();
                let mut back: Vec<(String, String)> = books[0].get_sheet(&i).unwrap().get_cell_collection().iter().filter_map(|c| c.get_hyperlink().filter(|h| !*h.get_location()).map(|h| (c.get_coordinate().get_coordinate(), h.get_url().to_string()))).collect();
                back.sort();
                let mut raws = vec![];
                for t in scan_between(&xml, "<Relationship ", ">") {
                    let t2 = format!(" {}", t);
                    if attr_of(&t2, "TargetMode") == Some("External") && attr_of(&t2, "Type").map(|x| x.ends_with("/hyperlink")).unwrap_or(false) {
                        raws.push(attr_of(&t2, "Target").unwrap_or("").to_string());
                    }
                }
                if raws.len() == stored.len() && back.len() == stored.len() {
                    for k in 0..raws.len() {
                        let line = format!("c04 attr {} {}", hex(&stored[k].1), hex(&raws[k]));
                        out.begin(&line);
                        out.end(&line, &hex(&back[k].1), true);
                        out.count("attr.hyperlink-target");
                    }
                }
            }
        }
    }
}

pub fn gen(tier: Tier, seed: u64) -> Vec<String> {
    let mut rng = Rng::new(seed ^ 0xC04);
    let mut v = vec![];
    let n = if tier == Tier::Thorough { 1000 } else { 100 };
    for i in 0..n {
        v.push(format!("c04 reset gen {} {}", rng.next() % 1_000_000_007, if i % 4 == 3 { "light" } else { "std" }));
    }
    for (i, f) in corpus_files(tier == Tier::Thorough).iter().enumerate() {
        if tier == Tier::Thorough || i % 4 == 1 {
            v.push(format!("c04 reset file {} std", f));
        }
    }
    v
}

pub fn run(out: &mut Out, tier: Tier, seed: u64, replay: Option<Vec<String>>) {
    let headers: Vec<String> = match replay {
        Some(r) => r.into_iter().filter(|l| l.starts_with("c04 reset ")).collect(),
        None => gen(tier, seed),
    };
    for h in headers {
        run_case(out, &h);
    }
}
