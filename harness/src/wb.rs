//! Shared generator of annotated workbooks and canonical views of a workbook
//! (used by the package-level properties C02 / C03 / C04 / C06).
use crate::common::*;
use umya_spreadsheet::helper::coordinate::coordinate_from_index;
use umya_spreadsheet::structs::*;

pub const NAME_ALPHABET: &str = "AaZz09 _-.!&<>\"'é日😀#@(),;=+$%";
pub const TEXT_ALPHABET: &str = "ab AZ09&<>\"'\n\t,;=é日😀]]>\u{a0}\u{2028}";

pub fn rand_text(rng: &mut Rng, alphabet: &str, min: u64, max: u64) -> String {
    let a: Vec<char> = alphabet.chars().collect();
    let n = rng.range(min, max);
    (0..n).map(|_| *rng.pick(&a)).collect()
}

/// a legal, unique sheet name
pub fn sheet_name(rng: &mut Rng, taken: &[String]) -> String {
    loop {
        let mut s = match rng.below(8) {
            0 => "Sheet 2".to_string(),
            1 => "R&D <1>".to_string(),
            2 => "It's".to_string(),
            3 => "\"q\"".to_string(),
            4 => "A1".to_string(),
            _ => {
                let mx = if rng.chance(1, 8) { 31 } else { 8 };
                rand_text(rng, NAME_ALPHABET, 1, mx)
            }
        };
        s = s.trim_matches('\'').to_string();
        if s.trim().is_empty() {
            continue;
        }
        if taken.iter().any(|t| t.to_lowercase() == s.to_lowercase()) {
            continue;
        }
        return s;
    }
}

/// how a sheet name appears inside an address
pub fn quote_sheet(name: &str) -> String {
    if name.chars().all(|c| c.is_ascii_alphanumeric()) && !name.chars().next().map(|c| c.is_ascii_digit()).unwrap_or(false) && umya_spreadsheet::helper::coordinate::index_from_coordinate(name) == (None, None, None, None) {
        name.to_string()
    } else {
        format!("'{}'", name.replace('\'', "''"))
    }
}

pub struct GenOpts {
    pub error_values: bool,
    pub formula_cached_non_text: bool,
    pub annotations: bool,
    /// C06: up to 6 sheets and a second pass (`enrich`) adding 0..dozens of every annotation kind.
    /// Off by default: the random stream of the other users (C02) is unchanged.
    pub rich: bool,
}
impl Default for GenOpts {
    fn default() -> Self {
        GenOpts { error_values: true, formula_cached_non_text: true, annotations: true, rich: false }
    }
}

pub fn gen_book(rng: &mut Rng, o: &GenOpts) -> Spreadsheet {
    let mut book = umya_spreadsheet::new_file_empty_worksheet();
    let n_sheets = rng.range(1, if o.rich { 6 } else { 4 }) as usize;
    let mut names: Vec<String> = vec![];
    for _ in 0..n_sheets {
        let n = sheet_name(rng, &names);
        book.new_sheet(n.clone()).unwrap();
        names.push(n);
    }
    for si in 0..n_sheets {
        let ncells = if rng.chance(1, 6) { 0 } else { rng.range(1, 40) };
        let far = rng.chance(1, 10);
        {
            let ws = book.get_sheet_mut(&si).unwrap();
            for _ in 0..ncells {
                let (c, r) = if far && rng.chance(1, 4) {
                    (*rng.pick(&[1u32, 16384, 16383]), *rng.pick(&[1u32, 1048576, 1048575]))
                } else {
                    (rng.range(1, 8) as u32, rng.range(1, 12) as u32)
                };
                let cell = ws.get_cell_mut((c, r));
                match rng.below(12) {
                    0..=3 => {
                        let t = rand_text(rng, TEXT_ALPHABET, 0, 10);
                        cell.set_value_string(if t.is_empty() { "x".to_string() } else { t });
                    }
                    4 => {
                        cell.set_value_string(rng.pick(&["TRUE", "123", "#N/A", "1e5", "-0", " lead", "trail ", "a  b"]).to_string());
                    }
                    5..=6 => {
                        let v = match rng.below(6) {
                            0 => rng.range(0, 100000) as f64,
                            1 => -(rng.range(0, 1000) as f64) / 8.0,
                            2 => 1e300,
                            3 => 1.5e-7,
                            4 => 0.1 + 0.2,
                            _ => (rng.range(0, 1000000) as f64) / 1000.0,
                        };
                        cell.set_value_number(v);
                    }
                    7 => {
                        cell.set_value_bool(rng.chance(1, 2));
                    }
                    8 => {
                        let mut rt = RichText::default();
                        for _ in 0..rng.range(1, 3) {
                            let mut te = TextElement::default();
                            te.set_text(rand_text(rng, TEXT_ALPHABET, 1, 6));
                            if rng.chance(1, 2) {
                                te.get_font_mut().set_bold(true);
                            }
                            rt.add_rich_text_elements(te);
                        }
                        cell.set_rich_text(rt);
                    }
                    9..=10 => {
                        let f = *rng.pick(&["A1&\"x\"", "SUM(B1:B3)", "IF(A1>1,\"<a&b>\",\"'q'\")", "'It''s'!A1+1", "\"a\"\"b\"&C3", "A1<>B1"]);
                        cell.set_formula(f);
                        if rng.chance(1, 2) {
                            cell.set_formula_result_default(rand_text(rng, "abc <&>", 1, 5));
                        } else if o.formula_cached_non_text && rng.chance(1, 2) {
                            cell.set_formula_result_default("42");
                        }
                    }
                    _ => {
                        if o.error_values {
                            cell.set_error(*rng.pick(&["#N/A", "#DIV/0!", "#REF!", "#VALUE!", "#NAME?", "#NUM!", "#NULL!"]));
                        } else {
                            cell.set_value_number(7);
                        }
                    }
                }
                if rng.chance(1, 6) {
                    let mut h = Hyperlink::default();
                    if rng.chance(1, 8) {
                        // a link that only carries a tooltip: external, with an empty target
                        h.set_tooltip(rand_text(rng, "tip &<>\"", 1, 6));
                    } else if rng.chance(2, 3) {
                        h.set_url(format!("https://example.com/{}?a=1&b={}", rand_text(rng, "az09<'", 0, 4), rng.below(100)));
                    } else {
                        let tgt = names[rng.below(names.len() as u64) as usize].clone();
                        h.set_url(format!("{}!A{}", quote_sheet(&tgt), rng.range(1, 9)));
                        h.set_location(true);
                    }
                    if rng.chance(1, 3) {
                        h.set_tooltip(rand_text(rng, "tip &<>\"", 1, 6));
                    }
                    cell.set_hyperlink(h);
                }
            }
            // merges: disjoint bands
            let mut row = 20;
            for _ in 0..rng.below(4) {
                let h = rng.range(0, 2) as u32;
                let c = rng.range(1, 5) as u32;
                ws.add_merge_cells(format!("{}:{}", coordinate_from_index(&c, &row), coordinate_from_index(&(c + rng.range(1, 3) as u32), &(row + h))));
                row += h + 2;
            }
            if rng.chance(1, 4) {
                ws.set_state(if rng.chance(1, 2) { SheetStateValues::Hidden } else { SheetStateValues::VeryHidden });
            }
            if o.annotations {
                if rng.chance(1, 3) {
                    ws.set_auto_filter("A1:C9");
                }
                if rng.chance(1, 3) {
                    ws.get_tab_color_mut().set_argb("FF00AA55");
                }
                for _ in 0..rng.below(3) {
                    let mut c = Comment::default();
                    c.new_comment((rng.range(1, 6) as u32, rng.range(1, 9) as u32));
                    c.set_author(rand_text(rng, "Ann &<é", 1, 5));
                    c.set_text_string(rand_text(rng, TEXT_ALPHABET, 1, 8));
                    ws.add_comments(c);
                }
                if rng.chance(1, 3) {
                    let mut f = ConditionalFormatting::default();
                    f.get_sequence_of_references_mut().set_sqref("A1:B5 D2:D4");
                    let mut rule = ConditionalFormattingRule::default();
                    rule.set_type(ConditionalFormatValues::CellIs);
                    rule.set_operator(ConditionalFormattingOperatorValues::GreaterThan);
                    rule.set_priority(1);
                    let mut st = Style::default();
                    st.set_background_color("FFFF0000");
                    rule.set_style(st);
                    let mut fm = Formula::default();
                    fm.set_string_value("5");
                    rule.set_formula(fm);
                    f.add_conditional_collection(rule);
                    ws.add_conditional_formatting_collection(f);
                }
                if rng.chance(1, 3) {
                    let mut dv = DataValidation::default();
                    dv.set_type(DataValidationValues::List);
                    dv.set_formula1("\"a,b,<c>\"");
                    dv.get_sequence_of_references_mut().set_sqref("E1:E5");
                    let mut dvs = DataValidations::default();
                    dvs.add_data_validation_list(dv);
                    ws.set_data_validations(dvs);
                }
                if rng.chance(1, 4) {
                    ws.get_header_footer_mut().get_odd_header_mut().set_value(format!("&C{}", rand_text(rng, "Hdr &<", 1, 5)));
                }
                if rng.chance(1, 4) {
                    ws.get_page_setup_mut().set_orientation(OrientationValues::Landscape);
                    ws.get_page_setup_mut().set_paper_size(9);
                }
                if rng.chance(1, 5) {
                    ws.get_sheet_protection_mut().set_sheet(true);
                }
            }
            // sheet-scoped defined name
            if rng.chance(1, 3) {
                let name = format!("L{}_{}", si, rng.below(100));
                let addr = format!("{}!$A$1:$B${}", quote_sheet(&names[si]), rng.range(1, 9));
                let _ = ws.add_defined_name(name, addr);
            }
        }
    }
    // workbook-scoped defined names
    for k in 0..rng.below(3) {
        let mut d = DefinedName::default();
        let target = names[rng.below(names.len() as u64) as usize].clone();
        d.set_address(format!("{}!$C${}", quote_sheet(&target), rng.range(1, 20)));
        // the name itself goes through a crate-private setter; use the worksheet API on sheet 0 when unavailable
        let _ = k;
        let name = format!("G{}", rng.below(1000));
        let addr = d.get_address();
        let _ = book.get_sheet_mut(&0).unwrap().add_defined_name(name, addr);
    }
    book.set_active_sheet(rng.below(n_sheets as u64) as u32);
    if o.rich {
        enrich(&mut book, rng, &names);
    }
    book
}

fn state_str(ws: &Worksheet) -> &'static str {
    match ws.get_state() {
        SheetStateValues::Hidden => "hidden",
        SheetStateValues::VeryHidden => "veryHidden",
        SheetStateValues::Visible => "visible",
    }
}

fn hexs(s: &str) -> String {
    hex(s)
}

/// The canonical view C02 compares with the independent reader: sheet list, cells (value text, kind,
/// formula), merged ranges, hyperlinks, defined names.
pub fn view(book: &Spreadsheet) -> String {
    let n = book.get_sheet_count();
    let sheets: Vec<String> = (0..n).map(|i| { let ws = book.get_sheet(&i).unwrap(); format!("{}:{}", hexs(ws.get_name()), state_str(ws)) }).collect();
    let mut names: Vec<String> = vec![];
    let dn = |d: &DefinedName| format!("{}:{}:{}", hexs(d.get_name()), if d.has_local_sheet_id() { d.get_local_sheet_id().to_string() } else { "~".into() }, hexs(&d.get_address()));
    for d in book.get_defined_names() {
        names.push(dn(d));
    }
    for i in 0..n {
        for d in book.get_sheet(&i).unwrap().get_defined_names() {
            names.push(dn(d));
        }
    }
    names.sort();
    let per: Vec<String> = (0..n)
        .map(|i| {
            let ws = book.get_sheet(&i).unwrap();
            let mut cells = vec![];
            let mut links = vec![];
            let mut shared_seen: std::collections::HashSet<u32> = std::collections::HashSet::new();
            for c in ws.get_cell_collection_sorted() {
                let coord = c.get_coordinate().get_coordinate();
                // a value stored with set_value_lazy and never resolved stands for what the public resolver makes of
                // it (the writer saves that typed value); the resolver drops the formula of the copy, not of `c`
                let resolved_copy: Option<umya_spreadsheet::structs::Cell> = match c.get_raw_value() {
                    umya_spreadsheet::structs::CellRawValue::Lazy(_) => {
                        let mut k = (*c).clone();
                        let _ = k.get_value_lazy();
                        Some(k)
                    }
                    _ => None,
                };
                let vc: &umya_spreadsheet::structs::Cell = resolved_copy.as_ref().unwrap_or(c);
                let kind = vc.get_data_type();
                // a shared-formula child is written as a reference to its master (`<f t="shared" si=…/>`);
                // what the reference expands to is C03's subject, here only the structure is compared
                let is_child = match c.get_formula_shared_index() {
                    Some(si) => !shared_seen.insert(*si),
                    None => false,
                };
                let f_owned: String = if is_child { "\u{1}shared".to_string() } else { c.get_formula().to_string() };
                let f: &str = &f_owned;
                if !(kind.is_empty() && f.is_empty()) {
                    cells.push(format!("{}/{}/{}/{}", coord, kind, hexs(&vc.get_value()), if f.is_empty() { "~".to_string() } else { hexs(f) }));
                }
                if let Some(h) = c.get_hyperlink() {
                    links.push(format!("{}/{}/{}/{}", coord, if *h.get_location() { "l" } else { "e" }, hexs(h.get_url()), hexs(h.get_tooltip())));
                }
            }
            links.sort();
            let merges: Vec<String> = ws.get_merge_cells().iter().map(|m| m.get_range()).collect();
            format!("cells={};merges={};links={}", cells.join(","), merges.join(","), links.join(","))
        })
        .collect();
    format!(
        "active={};sheets={};names={} # {}",
        book.get_workbook_view().get_active_tab(),
        sheets.join("|"),
        names.join("|"),
        per.join(" # ")
    )
}

pub fn save_bytes(book: &Spreadsheet, light: bool) -> Result<Vec<u8>, String> {
    let mut buf: Vec<u8> = Vec::new();
    let r = if light {
        umya_spreadsheet::writer::xlsx::write_writer_light(book, std::io::Cursor::new(&mut buf))
    } else {
        umya_spreadsheet::writer::xlsx::write_writer(book, std::io::Cursor::new(&mut buf))
    };
    r.map_err(|e| format!("{:?}", e))?;
    Ok(buf)
}

pub fn is_xml_part(name: &str) -> bool {
    name.ends_with(".xml") || name.ends_with(".rels") || name.ends_with(".vml")
}

// ---------------------------------------------------------------------------------------------
// C06: rich annotations and the full annotation dump
// ---------------------------------------------------------------------------------------------

pub const AUTHORS: &[&str] = &["", "Ann", "Bob & Co", "<é>", "A\"q\"", " lead", "日本", "it's", "Ann ", "x"];
const ANNOT_TEXT: &str = "ab AZ09&<>\"'\n\t,;=é日😀]]>\u{a0}";

fn cell_ref(rng: &mut Rng, lock: bool) -> String {
    let c = rng.range(1, 30) as u32;
    let r = rng.range(1, 60) as u32;
    let a = coordinate_from_index(&c, &r);
    if !lock {
        return a;
    }
    let (letters, digits): (String, String) = (a.chars().filter(|x| x.is_ascii_alphabetic()).collect(), a.chars().filter(|x| x.is_ascii_digit()).collect());
    format!("{}{}{}{}", if rng.chance(2, 3) { "$" } else { "" }, letters, if rng.chance(2, 3) { "$" } else { "" }, digits)
}

fn range_ref(rng: &mut Rng, lock: bool) -> String {
    if rng.chance(1, 3) {
        cell_ref(rng, lock)
    } else {
        let c = rng.range(1, 20) as u32;
        let r = rng.range(1, 40) as u32;
        let c2 = c + rng.range(0, 6) as u32;
        let r2 = r + rng.range(0, 9) as u32;
        let d = if lock && rng.chance(2, 3) { "$" } else { "" };
        format!("{d}{}{d}{}:{d}{}{d}{}", umya_spreadsheet::helper::coordinate::string_from_column_index(&c), r, umya_spreadsheet::helper::coordinate::string_from_column_index(&c2), r2)
    }
}

/// the text of a defined name as a user / Excel would hand it over
pub fn defined_name_text(rng: &mut Rng, names: &[String]) -> String {
    let pick = |rng: &mut Rng| quote_sheet(&names[rng.below(names.len() as u64) as usize]);
    match rng.below(16) {
        0..=7 => {
            // 1..3 cell areas
            let n = if rng.chance(2, 3) { 1 } else { rng.range(2, 3) };
            (0..n).map(|_| format!("{}!{}", pick(rng), range_ref(rng, true))).collect::<Vec<_>>().join(",")
        }
        8 => format!("{}!$A:$B", pick(rng)),
        9 => format!("{}!$1:$3", pick(rng)),
        10 => {
            let s = pick(rng);
            format!("{s}!$A:$B,{s}!$1:$2")
        }
        11 => "\"text, with comma\"".to_string(),
        12 => {
            let s = pick(rng);
            format!("OFFSET({s}!$A$1,0,0,COUNTA({s}!$A:$A),1)")
        }
        13 => "IF(Sheet1!$A$1=\"x\",1,2)".to_string(),
        14 => rng.pick(&["1.5", "#REF!", "TRUE", "Sheet1!$A$1*2", "\"a\"&\"b\""]).to_string(),
        _ => format!("{}!{},{}!$C:$C", pick(rng), range_ref(rng, true), pick(rng)),
    }
}

fn rich_hyperlink(rng: &mut Rng, names: &[String]) -> Hyperlink {
    let mut h = Hyperlink::default();
    match rng.below(7) {
        6 => {
            // only a tooltip: external, with an empty target
            h.set_tooltip(rand_text(rng, "tip &<>\"'é ", 1, 8));
            return h;
        }
        0..=2 => {
            h.set_url(format!("https://example.com/{}?a={}&b=<{}>", rand_text(rng, "az09é'\" ", 0, 5), rng.below(1000), rng.below(10)));
        }
        3 => {
            h.set_url(format!("mailto:{}@example.com?subject=a%20b&body={}", rand_text(rng, "az", 1, 4), rng.below(100)));
        }
        4 => {
            h.set_url(format!("file:///C:/dir {}/x&y.xlsx", rng.below(50)));
        }
        _ => {
            let tgt = names[rng.below(names.len() as u64) as usize].clone();
            h.set_url(format!("{}!{}", quote_sheet(&tgt), cell_ref(rng, false)));
            h.set_location(true);
        }
    }
    if rng.chance(1, 2) {
        h.set_tooltip(rand_text(rng, "tip &<>\"'é ", 1, 8));
    }
    h
}

/// second generation pass: 0..dozens of every annotation kind on every sheet
pub fn enrich(book: &mut Spreadsheet, rng: &mut Rng, names: &[String]) {
    let n_sheets = names.len();
    for si in 0..n_sheets {
        let dense = rng.chance(1, 3);
        let many = |rng: &mut Rng, small: u64, big: u64| if dense { rng.range(0, big) } else { rng.below(small + 1) };
        let ws = book.get_sheet_mut(&si).unwrap();
        // hyperlinks
        for _ in 0..many(rng, 3, 40) {
            let (c, r) = (rng.range(1, 12) as u32, rng.range(1, 30) as u32);
            let h = rich_hyperlink(rng, names);
            let cell = ws.get_cell_mut((c, r));
            if cell.get_value().is_empty() && rng.chance(1, 2) {
                cell.set_value_string("link");
            }
            cell.set_hyperlink(h);
        }
        // comments
        let pool: Vec<&str> = (0..rng.range(1, 5)).map(|_| *rng.pick(AUTHORS)).collect();
        for _ in 0..many(rng, 2, 30) {
            let mut c = Comment::default();
            c.new_comment((rng.range(1, 10) as u32, rng.range(1, 40) as u32));
            c.set_author(*rng.pick(&pool));
            if rng.chance(1, 4) {
                let mut rt = RichText::default();
                for _ in 0..rng.range(1, 3) {
                    let mut te = TextElement::default();
                    te.set_text(rand_text(rng, ANNOT_TEXT, 1, 6));
                    if rng.chance(1, 2) {
                        te.get_font_mut().set_bold(true);
                    }
                    rt.add_rich_text_elements(te);
                }
                c.set_text(rt);
            } else {
                c.set_text_string(rand_text(rng, ANNOT_TEXT, 0, 12));
            }
            ws.add_comments(c);
        }
        // merges (disjoint from the base generator's bands: rows from 100)
        let mut row = 100u32;
        for _ in 0..many(rng, 2, 36) {
            let h = rng.range(0, 3) as u32;
            let c = rng.range(1, 9) as u32;
            let w = rng.range(if h == 0 { 1 } else { 0 }, 4) as u32;
            ws.add_merge_cells(format!("{}:{}", coordinate_from_index(&c, &row), coordinate_from_index(&(c + w), &(row + h))));
            row += h + 1 + rng.below(2) as u32;
        }
        // data validations
        let ndv = many(rng, 2, 14);
        if ndv > 0 {
            let mut dvs = match ws.get_data_validations() {
                Some(d) => d.clone(),
                None => DataValidations::default(),
            };
            for _ in 0..ndv {
                let mut dv = DataValidation::default();
                match rng.below(6) {
                    0 => {
                        dv.set_type(DataValidationValues::List);
                        dv.set_formula1(*rng.pick(&["\"a,b,<c>\"", "\"x&y,\"\"q\"\"\"", "$A$1:$A$9", "'It''s'!$B$1:$B$4", "Names"]));
                    }
                    1 => {
                        dv.set_type(DataValidationValues::Whole);
                        dv.set_operator(rng.pick(&[DataValidationOperatorValues::Between, DataValidationOperatorValues::NotBetween]).clone());
                        dv.set_formula1(rng.below(10).to_string());
                        dv.set_formula2((10 + rng.below(100)).to_string());
                    }
                    2 => {
                        dv.set_type(DataValidationValues::Decimal);
                        dv.set_operator(rng.pick(&[DataValidationOperatorValues::GreaterThan, DataValidationOperatorValues::LessThanOrEqual, DataValidationOperatorValues::NotEqual, DataValidationOperatorValues::Equal, DataValidationOperatorValues::GreaterThanOrEqual, DataValidationOperatorValues::LessThan]).clone());
                        dv.set_formula1("1.5");
                    }
                    3 => {
                        dv.set_type(DataValidationValues::Custom);
                        dv.set_formula1(*rng.pick(&["AND(A1<>\"\",A1>B1)", "LEN(A1)<5", "A1&\"<x>\"=\"a&b\"", "ISNUMBER(FIND(\"'\",A1))"]));
                    }
                    4 => {
                        dv.set_type(rng.pick(&[DataValidationValues::TextLength, DataValidationValues::Date, DataValidationValues::Time]).clone());
                        dv.set_operator(DataValidationOperatorValues::LessThan);
                        dv.set_formula1("40000");
                    }
                    _ => {
                        dv.set_type(DataValidationValues::None);
                    }
                }
                if rng.chance(1, 2) {
                    dv.set_allow_blank(rng.chance(1, 2));
                }
                if rng.chance(1, 2) {
                    dv.set_show_input_message(rng.chance(2, 3));
                    dv.set_prompt_title(rand_text(rng, "Title &<>\"'é", 0, 8));
                    dv.set_prompt(rand_text(rng, ANNOT_TEXT, 0, 14));
                }
                if rng.chance(1, 2) {
                    dv.set_show_error_message(rng.chance(2, 3));
                    dv.set_error_title(rand_text(rng, "Err &<>\"'", 0, 8));
                    dv.set_error_message(rand_text(rng, ANNOT_TEXT, 0, 14));
                }
                let nr = rng.range(1, 3);
                let sq: Vec<String> = (0..nr).map(|_| range_ref(rng, false)).collect();
                dv.get_sequence_of_references_mut().set_sqref(sq.join(" "));
                dvs.add_data_validation_list(dv);
            }
            ws.set_data_validations(dvs);
        }
        // conditional formats
        let mut prio = 10;
        for _ in 0..many(rng, 2, 12) {
            let mut f = ConditionalFormatting::default();
            let nr = rng.range(1, 3);
            let sq: Vec<String> = (0..nr).map(|_| range_ref(rng, false)).collect();
            f.get_sequence_of_references_mut().set_sqref(sq.join(" "));
            for _ in 0..rng.range(1, 3) {
                let mut rule = ConditionalFormattingRule::default();
                prio += 1;
                rule.set_priority(prio);
                let mut with_style = true;
                match rng.below(8) {
                    0 => {
                        rule.set_type(ConditionalFormatValues::CellIs);
                        rule.set_operator(rng.pick(&[ConditionalFormattingOperatorValues::GreaterThan, ConditionalFormattingOperatorValues::LessThan, ConditionalFormattingOperatorValues::Equal, ConditionalFormattingOperatorValues::NotEqual]).clone());
                        let mut fm = Formula::default();
                        fm.set_string_value(*rng.pick(&["5", "\"a&b\"", "\"<x>\"", "$A$1", "'It''s'!$A$1", "LEN(\"\"\"\")"]));
                        rule.set_formula(fm);
                    }
                    1 => {
                        rule.set_type(ConditionalFormatValues::Expression);
                        let mut fm = Formula::default();
                        fm.set_string_value(*rng.pick(&["AND($A1<>\"\",$B1>3)", "A1&\"<>\"=\"x\"", "MOD(ROW(),2)=0", "ISERROR(A1)"]));
                        rule.set_formula(fm);
                        rule.set_stop_if_true(rng.chance(1, 2));
                    }
                    2 => {
                        rule.set_type(ConditionalFormatValues::ContainsText);
                        rule.set_operator(ConditionalFormattingOperatorValues::ContainsText);
                        let t = rand_text(rng, "ab&<\"'é", 1, 5);
                        rule.set_text(t);
                        let mut fm = Formula::default();
                        fm.set_string_value("NOT(ISERROR(SEARCH(\"a\",A1)))");
                        rule.set_formula(fm);
                    }
                    3 => {
                        rule.set_type(ConditionalFormatValues::Top10);
                        rule.set_rank(rng.range(1, 20) as u32);
                        rule.set_percent(rng.chance(1, 2));
                        rule.set_bottom(rng.chance(1, 2));
                    }
                    4 => {
                        rule.set_type(ConditionalFormatValues::AboveAverage);
                        rule.set_above_average(rng.chance(1, 2));
                        rule.set_equal_average(rng.chance(1, 2));
                        if rng.chance(1, 2) {
                            rule.set_std_dev(rng.range(1, 3) as i32);
                        }
                    }
                    5 => {
                        rule.set_type(ConditionalFormatValues::TimePeriod);
                        rule.set_time_period(rng.pick(&[TimePeriodValues::Today, TimePeriodValues::LastWeek, TimePeriodValues::NextMonth, TimePeriodValues::Last7Days]).clone());
                    }
                    6 => {
                        rule.set_type(rng.pick(&[ConditionalFormatValues::DuplicateValues, ConditionalFormatValues::UniqueValues, ConditionalFormatValues::ContainsBlanks, ConditionalFormatValues::NotContainsErrors]).clone());
                    }
                    _ => {
                        rule.set_type(ConditionalFormatValues::BeginsWith);
                        rule.set_operator(ConditionalFormattingOperatorValues::BeginsWith);
                        rule.set_text(rand_text(rng, "xy&<", 1, 3));
                        with_style = rng.chance(1, 2);
                    }
                }
                if with_style {
                    let mut st = Style::default();
                    st.set_background_color(*rng.pick(&["FFFF0000", "FF00FF00", "FF0000FF", "FFFFFF00"]));
                    if rng.chance(1, 3) {
                        st.get_font_mut().set_bold(true);
                    }
                    rule.set_style(st);
                }
                f.add_conditional_collection(rule);
            }
            ws.add_conditional_formatting_collection(f);
        }
        // auto filter
        if rng.chance(1, 2) {
            ws.set_auto_filter(range_ref(rng, false));
        }
        // tab colour
        match rng.below(6) {
            0 => {
                ws.get_tab_color_mut().set_argb(*rng.pick(&["FF00AA55", "FFFF0000", "80123456", "FFFFFFFF"]));
            }
            1 => {
                ws.get_tab_color_mut().set_theme_index(rng.range(0, 9) as u32);
                if rng.chance(1, 2) {
                    ws.get_tab_color_mut().set_tint(*rng.pick(&[0.5, -0.25, 0.3999, -0.0999786370433668]));
                }
            }
            2 => {
                ws.get_tab_color_mut().set_indexed(rng.range(0, 63) as u32);
            }
            _ => {}
        }
        // sheet view: panes, selection
        if rng.chance(2, 3) {
            let mut sv = SheetView::default();
            sv.set_workbook_view_id(0);
            if rng.chance(1, 3) {
                sv.set_tab_selected(true);
            }
            if rng.chance(1, 4) {
                sv.set_zoom_scale(rng.range(10, 400) as u32);
            }
            if rng.chance(1, 5) {
                sv.set_view(rng.pick(&[SheetViewValues::PageBreakPreview, SheetViewValues::PageLayout, SheetViewValues::Normal]).clone());
            }
            if rng.chance(1, 5) {
                sv.set_show_grid_lines(false);
            }
            if rng.chance(1, 4) {
                sv.set_top_left_cell(cell_ref(rng, false));
            }
            let paned = rng.chance(1, 2);
            if paned {
                let mut p = Pane::default();
                let (x, y) = (rng.below(4) as f64, rng.below(6) as f64);
                let frozen = rng.chance(3, 4);
                if frozen {
                    p.set_horizontal_split(x);
                    p.set_vertical_split(y);
                    p.set_state(rng.pick(&[PaneStateValues::Frozen, PaneStateValues::FrozenSplit]).clone());
                } else {
                    p.set_horizontal_split(x * 1234.5);
                    p.set_vertical_split(y * 600.0);
                    p.set_state(PaneStateValues::Split);
                }
                let mut tl = Coordinate::default();
                tl.set_col_num(x as u32 + 1).set_row_num(y as u32 + 1);
                p.set_top_left_cell(tl);
                p.set_active_pane(rng.pick(&[PaneValues::BottomLeft, PaneValues::BottomRight, PaneValues::TopLeft, PaneValues::TopRight]).clone());
                sv.set_pane(p);
            }
            for k in 0..rng.range(0, if paned { 3 } else { 1 }) {
                let mut sel = Selection::default();
                if paned {
                    sel.set_pane([PaneValues::TopRight, PaneValues::BottomLeft, PaneValues::BottomRight, PaneValues::TopLeft].get(k as usize).unwrap().clone());
                }
                let mut ac = Coordinate::default();
                let (c, r) = (rng.range(1, 20) as u32, rng.range(1, 50) as u32);
                ac.set_col_num(c).set_row_num(r);
                sel.set_active_cell(ac);
                let a = coordinate_from_index(&c, &r);
                let sq = if rng.chance(1, 2) { a } else { format!("{}:{} {}", a, coordinate_from_index(&(c + 2), &(r + 3)), range_ref(rng, false)) };
                sel.get_sequence_of_references_mut().set_sqref(sq);
                sv.set_selection(sel);
            }
            ws.get_sheet_views_mut().add_sheet_view_list_mut(sv);
        }
        if rng.chance(1, 4) {
            ws.set_active_cell(cell_ref(rng, false));
        }
        // page setup, margins, print options
        if rng.chance(1, 2) {
            let ps = ws.get_page_setup_mut();
            if rng.chance(2, 3) {
                ps.set_orientation(rng.pick(&[OrientationValues::Landscape, OrientationValues::Portrait, OrientationValues::Default]).clone());
            }
            if rng.chance(2, 3) {
                ps.set_paper_size(*rng.pick(&[1u32, 8, 9, 11, 256]));
            }
            if rng.chance(1, 3) {
                ps.set_scale(rng.range(10, 400) as u32);
            }
            if rng.chance(1, 3) {
                ps.set_fit_to_height(rng.range(0, 5) as u32);
                ps.set_fit_to_width(rng.range(0, 5) as u32);
            }
            if rng.chance(1, 4) {
                ps.set_horizontal_dpi(*rng.pick(&[300u32, 600, 4294967295]));
                ps.set_vertical_dpi(*rng.pick(&[300u32, 600]));
            }
        }
        if rng.chance(1, 3) {
            let m = ws.get_page_margins_mut();
            m.set_left(0.25).set_right(0.7086614173228347).set_top(1.0).set_bottom(0.75).set_header(0.3).set_footer(0.31496062992125984);
        }
        if rng.chance(1, 4) {
            ws.get_print_options_mut().set_horizontal_centered(rng.chance(1, 2)).set_vertical_centered(rng.chance(1, 2));
        }
        // header / footer
        if rng.chance(1, 2) {
            let t = match rng.below(5) {
                0 => "&L&\"Arial,Bold\"&12Left&C&P of &N&R&D &T".to_string(),
                1 => format!("&C{}", rand_text(rng, "Hdr &<>\"'é&", 1, 8)),
                2 => "&CTitle with trailing blank ".to_string(),
                3 => " &Lleading blank".to_string(),
                _ => "&L&&amp; && &A &F\n2nd line".to_string(),
            };
            ws.get_header_footer_mut().get_odd_header_mut().set_value(t);
        }
        if rng.chance(1, 3) {
            let t = format!("&R{}&Z&F", rand_text(rng, "Ftr &<é", 0, 6));
            ws.get_header_footer_mut().get_odd_footer_mut().set_value(t);
        }
        // sheet protection
        if rng.chance(1, 3) {
            let p = ws.get_sheet_protection_mut();
            p.set_sheet(rng.chance(3, 4));
            macro_rules! flag { ($($f:ident),*) => { $( if rng.chance(1, 3) { p.$f(rng.chance(1, 2)); } )* } }
            flag!(set_objects, set_scenarios, set_format_cells, set_format_columns, set_format_rows, set_insert_columns, set_insert_rows, set_insert_hyperlinks, set_delete_columns, set_delete_rows, set_select_locked_cells, set_sort, set_auto_filter, set_pivot_tables, set_select_unlocked_cells);
            match rng.below(6) {
                0 => {
                    p.set_password(*rng.pick(&["secret", "pä&ss<w>", ""]));
                }
                1 => {
                    p.set_algorithm_name("SHA-512").set_hash_value("q1+a/bcd==").set_salt_value("c2FsdA==").set_spin_count(100000);
                }
                2 => {
                    p.set_password_raw("CC1A");
                }
                _ => {}
            }
        }
        // more defined names, scoped to this sheet (localSheetId) or not
        for k in 0..many(rng, 2, 12) {
            let name = match rng.below(8) {
                0 => "_xlnm.Print_Area".to_string(),
                1 => "_xlnm.Print_Titles".to_string(),
                2 => format!("Nm_é{}_{}", si, k),
                _ => format!("N{}_{}.x", si, k),
            };
            let local = name.starts_with("_xlnm") || rng.chance(1, 3);
            let text = defined_name_text(rng, names);
            if ws.get_defined_names().iter().any(|d| d.get_name() == name) {
                continue;
            }
            let _ = ws.add_defined_name(name, text);
            let d = ws.get_defined_names_mut().last_mut().unwrap();
            if local {
                d.set_local_sheet_id(si as u32);
            }
            if rng.chance(1, 6) {
                d.set_hidden(true);
            }
        }
        if rng.chance(1, 4) {
            ws.set_state(rng.pick(&[SheetStateValues::Hidden, SheetStateValues::VeryHidden, SheetStateValues::Visible]).clone());
        }
    }
    // workbook-level names kept in the workbook's own list
    for k in 0..rng.below(4) {
        let mut d = DefinedName::default();
        d.set_address(defined_name_text(rng, names));
        // `set_name` is crate-private: go through a scratch worksheet
        let mut tmp = Worksheet::default();
        let _ = tmp.add_defined_name(format!("W{}", k), d.get_address());
        if let Some(x) = tmp.get_defined_names().first() {
            book.add_defined_names(x.clone());
        }
    }
    // workbook protection
    if rng.chance(1, 4) {
        let p = book.get_workbook_protection_mut();
        p.set_lock_structure(rng.chance(2, 3));
        if rng.chance(1, 2) {
            p.set_lock_windows(rng.chance(1, 2));
        }
        if rng.chance(1, 3) {
            p.set_lock_revision(rng.chance(1, 2));
        }
        match rng.below(5) {
            0 => {
                p.set_workbook_password("book-pw");
            }
            1 => {
                p.set_workbook_algorithm_name("SHA-512").set_workbook_hash_value("aGFzaA==").set_workbook_salt_value("c2FsdA==").set_workbook_spin_count(1000);
            }
            2 => {
                p.set_revisions_algorithm_name("SHA-256").set_revisions_hash_value("cmV2").set_revisions_salt_value("c2E=").set_revisions_spin_count(5);
            }
            3 => {
                p.set_workbook_password_raw("ABCD");
            }
            _ => {}
        }
    }
    book.set_active_sheet(rng.below(n_sheets as u64) as u32);
    // sometimes the last sheet is removed again (the active tab may have pointed at it)
    if n_sheets > 1 && rng.chance(1, 8) {
        let _ = book.remove_sheet(n_sheets - 1);
    }
}

fn color_str(c: &Color) -> String {
    format!("{:?}", c)
}

fn b(v: &bool) -> &'static str {
    if *v { "1" } else { "0" }
}

/// one entry per annotation (or per annotation field group): `(key, value)`; the value is a
/// `field:value` list separated by `,`; free text is hex.  Keys identify kind and position.
pub fn annot_entries(book: &Spreadsheet) -> Vec<(String, String)> {
    let mut e: Vec<(String, String)> = vec![];
    let n = book.get_sheet_count();
    e.push(("book.active".into(), book.get_workbook_view().get_active_tab().to_string()));
    e.push(("book.sheets".into(), (0..n).map(|i| { let ws = book.get_sheet(&i).unwrap(); format!("{}:{}", hexs(ws.get_name()), state_str(ws)) }).collect::<Vec<_>>().join("|")));
    e.push(("book.protection".into(), match book.get_workbook_protection() { Some(p) => format!("{:?}", p), None => "-".into() }));
    // defined names: identity = (name, scope); where the object is stored (workbook / sheet) is not observable in the file
    let mut names: Vec<(String, String)> = vec![];
    let mut dn = |d: &DefinedName| {
        names.push((format!("{}@{}", hexs(d.get_name()), if d.has_local_sheet_id() { d.get_local_sheet_id().to_string() } else { "~".into() }), format!("address:{},hidden:{}", hexs(&d.get_address()), b(d.get_hidden()))));
    };
    for d in book.get_defined_names() {
        dn(d);
    }
    for i in 0..n {
        for d in book.get_sheet(&i).unwrap().get_defined_names() {
            dn(d);
        }
    }
    names.sort();
    let mut last = String::new();
    let mut k = 0;
    for (key, v) in names {
        if key == last { k += 1; } else { k = 0; last = key.clone(); }
        e.push((format!("name.{}#{}", key, k), v));
    }
    for i in 0..n {
        let ws = book.get_sheet(&i).unwrap();
        let p = format!("s{}", i);
        e.push((format!("{p}.merges"), ws.get_merge_cells().iter().map(|m| m.get_range()).collect::<Vec<_>>().join(" ")));
        e.push((format!("{p}.mergecount"), ws.get_merge_cells().len().to_string()));
        let mut nlinks = 0;
        for c in ws.get_cell_collection_sorted() {
            if let Some(h) = c.get_hyperlink() {
                nlinks += 1;
                e.push((format!("{p}.link.{}", c.get_coordinate().get_coordinate()), format!("kind:{},target:{},tooltip:{}", if *h.get_location() { "l" } else { "e" }, hexs(h.get_url()), hexs(h.get_tooltip()))));
            }
        }
        e.push((format!("{p}.linkcount"), nlinks.to_string()));
        e.push((format!("{p}.commentcount"), ws.get_comments().len().to_string()));
        for (k, c) in ws.get_comments().iter().enumerate() {
            let a = c.get_anchor();
            let cd = c.get_shape().get_client_data();
            e.push((
                format!("{p}.comment.{:03}", k),
                format!(
                    "cell:{},author:{},text:{},runs:{},anchor:{}/{}/{}/{}/{}/{}/{}/{},target:{}/{}",
                    c.get_coordinate().get_coordinate(),
                    hexs(c.get_author()),
                    hexs(&c.get_text().get_text()),
                    c.get_text().get_rich_text_elements().len(),
                    a.get_left_column(), a.get_left_offset(), a.get_top_row(), a.get_top_offset(), a.get_right_column(), a.get_right_offset(), a.get_bottom_row(), a.get_bottom_offset(),
                    cd.get_comment_column_target().map(|x| x.get_value().to_string()).unwrap_or("-".into()),
                    cd.get_comment_row_target().map(|x| x.get_value().to_string()).unwrap_or("-".into()),
                ),
            ));
        }
        match ws.get_data_validations() {
            None => e.push((format!("{p}.dvcount"), "-".into())),
            Some(dvs) => {
                e.push((format!("{p}.dvcount"), dvs.get_data_validation_list().len().to_string()));
                for (k, d) in dvs.get_data_validation_list().iter().enumerate() {
                    e.push((
                        format!("{p}.dv.{:03}", k),
                        format!(
                            "type:{:?},operator:{:?},allowBlank:{},showInput:{},showError:{},promptTitle:{},prompt:{},errorTitle:{},error:{},sqref:{},formula1:{},formula2:{}",
                            d.get_type(), d.get_operator(), b(d.get_allow_blank()), b(d.get_show_input_message()), b(d.get_show_error_message()),
                            hexs(d.get_prompt_title()), hexs(d.get_prompt()), hexs(d.get_error_title()), hexs(d.get_error_message()),
                            d.get_sequence_of_references().get_sqref().replace(' ', "+"), hexs(d.get_formula1()), hexs(d.get_formula2())
                        ),
                    ));
                }
            }
        }
        e.push((format!("{p}.cfcount"), ws.get_conditional_formatting_collection().len().to_string()));
        for (k, f) in ws.get_conditional_formatting_collection().iter().enumerate() {
            e.push((format!("{p}.cf.{:03}"  , k), format!("sqref:{},rules:{}", f.get_sequence_of_references().get_sqref().replace(' ', "+"), f.get_conditional_collection().len())));
            for (j, r) in f.get_conditional_collection().iter().enumerate() {
                let style = match r.get_style() {
                    Some(s) => format!("{}/{}", s.get_background_color().map(|c| c.get_argb().to_string()).unwrap_or("-".into()), s.get_font().map(|f| b(f.get_bold())).unwrap_or("-")),
                    None => "-".into(),
                };
                e.push((
                    format!("{p}.cf.{:03}.rule.{:02}", k, j),
                    format!(
                        "type:{:?},operator:{:?},text:{},priority:{},percent:{},bottom:{},rank:{},stopIfTrue:{},stdDev:{},aboveAverage:{},equalAverage:{},timePeriod:{:?},formula:{},style:{},colorScale:{},dataBar:{},iconSet:{}",
                        r.get_type(), r.get_operator(), hexs(r.get_text()), r.get_priority(), b(r.get_percent()), b(r.get_bottom()), r.get_rank(), b(r.get_stop_if_true()), r.get_std_dev(),
                        b(r.get_above_average()), b(r.get_equal_average()), r.get_time_period(),
                        r.get_formula().map(|f| hexs(&f.get_address_str())).unwrap_or("~".into()), style,
                        r.get_color_scale().is_some(), r.get_data_bar().is_some(), r.get_icon_set().is_some()
                    ),
                ));
            }
        }
        e.push((format!("{p}.autofilter"), ws.get_auto_filter().map(|a| a.get_range().get_range()).unwrap_or("-".into())));
        e.push((format!("{p}.tabcolor"), ws.get_tab_color().map(color_str).unwrap_or("-".into())));
        e.push((format!("{p}.viewcount"), ws.get_sheets_views().get_sheet_view_list().len().to_string()));
        for (k, v) in ws.get_sheets_views().get_sheet_view_list().iter().enumerate() {
            let pane = match v.get_pane() {
                Some(pn) => format!("{}/{}/{}/{:?}/{:?}", pn.get_horizontal_split(), pn.get_vertical_split(), pn.get_top_left_cell().get_coordinate(), pn.get_active_pane(), pn.get_state()),
                None => "-".into(),
            };
            let sels: Vec<String> = v.get_selection().iter().map(|s| format!("{:?}/{}/{}", s.get_pane(), s.get_active_cell().map(|c| c.get_coordinate()).unwrap_or("-".into()), s.get_sequence_of_references().get_sqref().replace(' ', "+"))).collect();
            e.push((
                format!("{p}.view.{}", k),
                format!(
                    "pane:{},selection:{},tabSelected:{},view:{:?},zoom:{}/{}/{}/{},topLeft:{},gridLines:{},workbookViewId:{}",
                    pane, sels.join("+"), b(v.get_tab_selected()), v.get_view(), v.get_zoom_scale(), v.get_zoom_scale_normal(), v.get_zoom_scale_page_layout_view(), v.get_zoom_scale_sheet_layout_view(),
                    v.get_top_left_cell(), b(v.get_show_grid_lines()), v.get_workbook_view_id()
                ),
            ));
        }
        e.push((format!("{p}.activecell"), ws.get_active_cell().to_string()));
        let ps = ws.get_page_setup();
        e.push((format!("{p}.pagesetup"), format!("paper:{},orientation:{:?},scale:{},fitHeight:{},fitWidth:{},hdpi:{},vdpi:{}", ps.get_paper_size(), ps.get_orientation(), ps.get_scale(), ps.get_fit_to_height(), ps.get_fit_to_width(), ps.get_horizontal_dpi(), ps.get_vertical_dpi())));
        let m = ws.get_page_margins();
        e.push((format!("{p}.margins"), format!("left:{},right:{},top:{},bottom:{},header:{},footer:{}", m.get_left(), m.get_right(), m.get_top(), m.get_bottom(), m.get_header(), m.get_footer())));
        let po = ws.get_print_options();
        e.push((format!("{p}.printoptions"), format!("hc:{},vc:{}", b(po.get_horizontal_centered()), b(po.get_vertical_centered()))));
        let hf = ws.get_header_footer();
        e.push((format!("{p}.headerfooter"), format!("oddHeader:{},oddFooter:{}", hexs(hf.get_odd_header().get_value()), hexs(hf.get_odd_footer().get_value()))));
        e.push((format!("{p}.protection"), match ws.get_sheet_protection() { Some(sp) => format!("{:?}", sp).replace(", ", ",").replace(' ', "_"), None => "-".into() }));
    }
    e
}

/// the full annotation dump on one line
pub fn annot_view(book: &Spreadsheet) -> String {
    annot_entries(book).into_iter().map(|(k, v)| format!("{}={}", k, v.replace(' ', "_"))).collect::<Vec<_>>().join(";;")
}

/// every difference between two annotation dumps as (kind, field, detail); entries of a kind whose
/// item count changed are summarised by the count entry alone
pub fn annot_diffs(a: &[(String, String)], b: &[(String, String)]) -> Vec<(String, String, String)> {
    use std::collections::{BTreeMap, BTreeSet};
    let ma: BTreeMap<&String, &String> = a.iter().map(|(k, v)| (k, v)).collect();
    let mb: BTreeMap<&String, &String> = b.iter().map(|(k, v)| (k, v)).collect();
    let kind_of = |k: &str| -> String {
        let parts: Vec<&str> = k.split('.').collect();
        if parts[0] == "name" {
            return "name".into();
        }
        if parts.contains(&"rule") {
            return "cf.rule".into();
        }
        let sheet = parts[0].starts_with('s') && parts[0].len() > 1 && parts[0][1..].chars().all(|c| c.is_ascii_digit());
        let k = if sheet { parts.get(1).copied().unwrap_or("?").to_string() } else { parts[0..parts.len().min(2)].join(".") };
        k.trim_end_matches("count").to_string()
    };
    let keys: BTreeSet<&String> = ma.keys().chain(mb.keys()).copied().collect();
    let mut out = vec![];
    let mut count_changed: BTreeSet<String> = BTreeSet::new(); // "s3.comment"
    for k in keys.iter().filter(|k| k.ends_with("count")) {
        if ma.get(*k) != mb.get(*k) {
            count_changed.insert(k.trim_end_matches("count").to_string());
            out.push((kind_of(k), "count".to_string(), format!("{}: before={} after={}", k, ma.get(*k).map(|s| s.as_str()).unwrap_or("<absent>"), mb.get(*k).map(|s| s.as_str()).unwrap_or("<absent>"))));
        }
    }
    for k in keys.iter().filter(|k| !k.ends_with("count")) {
        if count_changed.iter().any(|p| k.starts_with(p.as_str())) {
            continue;
        }
        match (ma.get(*k), mb.get(*k)) {
            (Some(x), Some(y)) if x == y => {}
            (Some(x), Some(y)) => {
                let fx: Vec<&str> = x.split(',').collect();
                let fy: Vec<&str> = y.split(',').collect();
                let mut field = "value".to_string();
                let mut cause = "other";
                if fx.len() == fy.len() {
                    for (p, q) in fx.iter().zip(fy.iter()) {
                        if p != q {
                            if p.contains(':') {
                                field = p.split(':').next().unwrap().to_string();
                            }
                            // how the value changed, when it is a hex-carried text
                            let (vp, vq) = (p.split(':').last().unwrap_or(""), q.split(':').last().unwrap_or(""));
                            let is_hex = |t: &str| t == "-" || (t.len() % 2 == 0 && !t.is_empty() && t.chars().all(|c| c.is_ascii_hexdigit()));
                            if is_hex(vp) && is_hex(vq) {
                                let (tp, tq) = (String::from_utf8_lossy(&unhex(vp)).to_string(), String::from_utf8_lossy(&unhex(vq)).to_string());
                                cause = if tq == tp.trim() { "outer-whitespace-trimmed" } else if tq.is_empty() { "emptied" } else { "other" };
                            } else if vq.is_empty() {
                                cause = "emptied";
                            }
                            break;
                        }
                    }
                }
                out.push((kind_of(k), field, format!("cause={} {}: before={} after={}", cause, k, x, y)));
            }
            (Some(x), None) => out.push((kind_of(k), "lost".into(), format!("{}: before={} after=<absent>", k, x))),
            (None, Some(y)) => out.push((kind_of(k), "appeared".into(), format!("{}: before=<absent> after={}", k, y))),
            (None, None) => {}
        }
    }
    out
}
