//! Shared generator of annotated workbooks and canonical views of a workbook
//! (used by the package-level properties C02 / C03 / C04 / C06).
use crate::common::*;
use umya_spreadsheet::helper::coordinate::coordinate_from_index;
use umya_spreadsheet::structs::*;

pub const NAME_ALPHABET: &str = "AaZz09 _-.!&<>\"'é日😀#@(),;=+$%";
pub const TEXT_ALPHABET: &str = "ab AZ09&<>\"'\n\t,;=é日😀]]>\u{a0}\u{2028}";

pub fn rand_text(rng: &mut Rng, alphabet: &str, min: u64, max: u64) -> String {
    let a: Vec<char> = alphabet.chars().collect();
    let n = rng.range(min, max);
    (0..n).map(|_| *rng.pick(&a)).collect()
}

/// a legal, unique sheet name
pub fn sheet_name(rng: &mut Rng, taken: &[String]) -> String {
    loop {
        let mut s = match rng.below(8) {
            0 => "Sheet 2".to_string(),
            1 => "R&D <1>".to_string(),
            2 => "It's".to_string(),
            3 => "\"q\"".to_string(),
            4 => "A1".to_string(),
            _ => {
                let mx = if rng.chance(1, 8) { 31 } else { 8 };
                rand_text(rng, NAME_ALPHABET, 1, mx)
            }
        };
        s = s.trim_matches('\'').to_string();
        if s.trim().is_empty() {
            continue;
        }
        if taken.iter().any(|t| t.to_lowercase() == s.to_lowercase()) {
            continue;
        }
        return s;
    }
}

/// how a sheet name appears inside an address
pub fn quote_sheet(name: &str) -> String {
    if name.chars().all(|c| c.is_ascii_alphanumeric()) && !name.chars().next().map(|c| c.is_ascii_digit()).unwrap_or(false) && umya_spreadsheet::helper::coordinate::index_from_coordinate(name) == (None, None, None, None) {
        name.to_string()
    } else {
        format!("'{}'", name.replace('\'', "''"))
    }
}

pub struct GenOpts {
    pub error_values: bool,
    pub formula_cached_non_text: bool,
    pub annotations: bool,
}
impl Default for GenOpts {
    fn default() -> Self {
        GenOpts { error_values: true, formula_cached_non_text: true, annotations: true }
    }
}

pub fn gen_book(rng: &mut Rng, o: &GenOpts) -> Spreadsheet {
    let mut book = umya_spreadsheet::new_file_empty_worksheet();
    let n_sheets = rng.range(1, 4) as usize;
    let mut names: Vec<String> = vec![];
    for _ in 0..n_sheets {
        let n = sheet_name(rng, &names);
        book.new_sheet(n.clone()).unwrap();
        names.push(n);
    }
    for si in 0..n_sheets {
        let ncells = if rng.chance(1, 6) { 0 } else { rng.range(1, 40) };
        let far = rng.chance(1, 10);
        {
            let ws = book.get_sheet_mut(&si).unwrap();
            for _ in 0..ncells {
                let (c, r) = if far && rng.chance(1, 4) {
                    (*rng.pick(&[1u32, 16384, 16383]), *rng.pick(&[1u32, 1048576, 1048575]))
                } else {
                    (rng.range(1, 8) as u32, rng.range(1, 12) as u32)
                };
                let cell = ws.get_cell_mut((c, r));
                match rng.below(12) {
                    0..=3 => {
                        let t = rand_text(rng, TEXT_ALPHABET, 0, 10);
                        cell.set_value_string(if t.is_empty() { "x".to_string() } else { t });
                    }
                    4 => {
                        cell.set_value_string(rng.pick(&["TRUE", "123", "#N/A", "1e5", "-0", " lead", "trail ", "a  b"]).to_string());
                    }
                    5..=6 => {
                        let v = match rng.below(6) {
                            0 => rng.range(0, 100000) as f64,
                            1 => -(rng.range(0, 1000) as f64) / 8.0,
                            2 => 1e300,
                            3 => 1.5e-7,
                            4 => 0.1 + 0.2,
                            _ => (rng.range(0, 1000000) as f64) / 1000.0,
                        };
                        cell.set_value_number(v);
                    }
                    7 => {
                        cell.set_value_bool(rng.chance(1, 2));
                    }
                    8 => {
                        let mut rt = RichText::default();
                        for _ in 0..rng.range(1, 3) {
                            let mut te = TextElement::default();
                            te.set_text(rand_text(rng, TEXT_ALPHABET, 1, 6));
                            if rng.chance(1, 2) {
                                te.get_font_mut().set_bold(true);
                            }
                            rt.add_rich_text_elements(te);
                        }
                        cell.set_rich_text(rt);
                    }
                    9..=10 => {
                        let f = *rng.pick(&["A1&\"x\"", "SUM(B1:B3)", "IF(A1>1,\"<a&b>\",\"'q'\")", "'It''s'!A1+1", "\"a\"\"b\"&C3", "A1<>B1"]);
                        cell.set_formula(f);
                        if rng.chance(1, 2) {
                            cell.set_formula_result_default(rand_text(rng, "abc <&>", 1, 5));
                        } else if o.formula_cached_non_text && rng.chance(1, 2) {
                            cell.set_formula_result_default("42");
                        }
                    }
                    _ => {
                        if o.error_values {
                            cell.set_error(*rng.pick(&["#N/A", "#DIV/0!", "#REF!", "#VALUE!", "#NAME?", "#NUM!", "#NULL!"]));
                        } else {
                            cell.set_value_number(7);
                        }
                    }
                }
                if rng.chance(1, 6) {
                    let mut h = Hyperlink::default();
                    if rng.chance(2, 3) {
                        h.set_url(format!("https://example.com/{}?a=1&b={}", rand_text(rng, "az09<'", 0, 4), rng.below(100)));
                    } else {
                        let tgt = names[rng.below(names.len() as u64) as usize].clone();
                        h.set_url(format!("{}!A{}", quote_sheet(&tgt), rng.range(1, 9)));
                        h.set_location(true);
                    }
                    if rng.chance(1, 3) {
                        h.set_tooltip(rand_text(rng, "tip &<>\"", 1, 6));
                    }
                    cell.set_hyperlink(h);
                }
            }
            // merges: disjoint bands
            let mut row = 20;
            for _ in 0..rng.below(4) {
                let h = rng.range(0, 2) as u32;
                let c = rng.range(1, 5) as u32;
                ws.add_merge_cells(format!("{}:{}", coordinate_from_index(&c, &row), coordinate_from_index(&(c + rng.range(1, 3) as u32), &(row + h))));
                row += h + 2;
            }
            if rng.chance(1, 4) {
                ws.set_state(if rng.chance(1, 2) { SheetStateValues::Hidden } else { SheetStateValues::VeryHidden });
            }
            if o.annotations {
                if rng.chance(1, 3) {
                    ws.set_auto_filter("A1:C9");
                }
                if rng.chance(1, 3) {
                    ws.get_tab_color_mut().set_argb("FF00AA55");
                }
                for _ in 0..rng.below(3) {
                    let mut c = Comment::default();
                    c.new_comment((rng.range(1, 6) as u32, rng.range(1, 9) as u32));
                    c.set_author(rand_text(rng, "Ann &<é", 1, 5));
                    c.set_text_string(rand_text(rng, TEXT_ALPHABET, 1, 8));
                    ws.add_comments(c);
                }
                if rng.chance(1, 3) {
                    let mut f = ConditionalFormatting::default();
                    f.get_sequence_of_references_mut().set_sqref("A1:B5 D2:D4");
                    let mut rule = ConditionalFormattingRule::default();
                    rule.set_type(ConditionalFormatValues::CellIs);
                    rule.set_operator(ConditionalFormattingOperatorValues::GreaterThan);
                    rule.set_priority(1);
                    let mut st = Style::default();
                    st.set_background_color("FFFF0000");
                    rule.set_style(st);
                    let mut fm = Formula::default();
                    fm.set_string_value("5");
                    rule.set_formula(fm);
                    f.add_conditional_collection(rule);
                    ws.add_conditional_formatting_collection(f);
                }
                if rng.chance(1, 3) {
                    let mut dv = DataValidation::default();
                    dv.set_type(DataValidationValues::List);
                    dv.set_formula1("\"a,b,<c>\"");
                    dv.get_sequence_of_references_mut().set_sqref("E1:E5");
                    let mut dvs = DataValidations::default();
                    dvs.add_data_validation_list(dv);
                    ws.set_data_validations(dvs);
                }
                if rng.chance(1, 4) {
                    ws.get_header_footer_mut().get_odd_header_mut().set_value(format!("&C{}", rand_text(rng, "Hdr &<", 1, 5)));
                }
                if rng.chance(1, 4) {
                    ws.get_page_setup_mut().set_orientation(OrientationValues::Landscape);
                    ws.get_page_setup_mut().set_paper_size(9);
                }
                if rng.chance(1, 5) {
                    ws.get_sheet_protection_mut().set_sheet(true);
                }
            }
            // sheet-scoped defined name
            if rng.chance(1, 3) {
                let name = format!("L{}_{}", si, rng.below(100));
                let addr = format!("{}!$A$1:$B${}", quote_sheet(&names[si]), rng.range(1, 9));
                let _ = ws.add_defined_name(name, addr);
            }
        }
    }
    // workbook-scoped defined names
    for k in 0..rng.below(3) {
        let mut d = DefinedName::default();
        let target = names[rng.below(names.len() as u64) as usize].clone();
        d.set_address(format!("{}!$C${}", quote_sheet(&target), rng.range(1, 20)));
        // the name itself goes through a crate-private setter; use the worksheet API on sheet 0 when unavailable
        let _ = k;
        let name = format!("G{}", rng.below(1000));
        let addr = d.get_address();
        let _ = book.get_sheet_mut(&0).unwrap().add_defined_name(name, addr);
    }
    book.set_active_sheet(rng.below(n_sheets as u64) as u32);
    book
}

fn state_str(ws: &Worksheet) -> &'static str {
    match ws.get_state() {
        SheetStateValues::Hidden => "hidden",
        SheetStateValues::VeryHidden => "veryHidden",
        SheetStateValues::Visible => "visible",
    }
}

fn hexs(s: &str) -> String {
    hex(s)
}

/// The canonical view C02 compares with the independent reader: sheet list, cells (value text, kind,
/// formula), merged ranges, hyperlinks, defined names.
pub fn view(book: &Spreadsheet) -> String {
    let n = book.get_sheet_count();
    let sheets: Vec<String> = (0..n).map(|i| { let ws = book.get_sheet(&i).unwrap(); format!("{}:{}", hexs(ws.get_name()), state_str(ws)) }).collect();
    let mut names: Vec<String> = vec![];
    let dn = |d: &DefinedName| format!("{}:{}:{}", hexs(d.get_name()), if d.has_local_sheet_id() { d.get_local_sheet_id().to_string() } else { "~".into() }, hexs(&d.get_address()));
    for d in book.get_defined_names() {
        names.push(dn(d));
    }
    for i in 0..n {
        for d in book.get_sheet(&i).unwrap().get_defined_names() {
            names.push(dn(d));
        }
    }
    names.sort();
    let per: Vec<String> = (0..n)
        .map(|i| {
            let ws = book.get_sheet(&i).unwrap();
            let mut cells = vec![];
            let mut links = vec![];
            let mut shared_seen: std::collections::HashSet<u32> = std::collections::HashSet::new();
            for c in ws.get_cell_collection_sorted() {
                let coord = c.get_coordinate().get_coordinate();
                let kind = c.get_data_type();
                // a shared-formula child is written as a reference to its master (`<f t="shared" si=…/>`);
                // what the reference expands to is C03's subject, here only the structure is compared
                let is_child = match c.get_formula_shared_index() {
                    Some(si) => !shared_seen.insert(*si),
                    None => false,
                };
                let f_owned: String = if is_child { "\u{1}shared".to_string() } else { c.get_formula().to_string() };
                let f: &str = &f_owned;
                if !(kind.is_empty() && f.is_empty()) {
                    cells.push(format!("{}/{}/{}/{}", coord, kind, hexs(&c.get_value()), if f.is_empty() { "~".to_string() } else { hexs(f) }));
                }
                if let Some(h) = c.get_hyperlink() {
                    links.push(format!("{}/{}/{}", coord, if *h.get_location() { "l" } else { "e" }, hexs(h.get_url())));
                }
            }
            links.sort();
            let merges: Vec<String> = ws.get_merge_cells().iter().map(|m| m.get_range()).collect();
            format!("cells={};merges={};links={}", cells.join(","), merges.join(","), links.join(","))
        })
        .collect();
    format!(
        "active={};sheets={};names={} # {}",
        book.get_workbook_view().get_active_tab(),
        sheets.join("|"),
        names.join("|"),
        per.join(" # ")
    )
}

pub fn save_bytes(book: &Spreadsheet, light: bool) -> Result<Vec<u8>, String> {
    let mut buf: Vec<u8> = Vec::new();
    let r = if light {
        umya_spreadsheet::writer::xlsx::write_writer_light(book, std::io::Cursor::new(&mut buf))
    } else {
        umya_spreadsheet::writer::xlsx::write_writer(book, std::io::Cursor::new(&mut buf))
    };
    r.map_err(|e| format!("{:?}", e))?;
    Ok(buf)
}

pub fn is_xml_part(name: &str) -> bool {
    name.ends_with(".xml") || name.ends_with(".rels") || name.ends_with(".vml")
}
