//! C10 — the cell store stays coherent under any history of operations.
//! Also the op executor shared with C07 (sheet-level structural edits on one sheet).
use crate::common::*;
use std::collections::{BTreeSet, HashMap};
use std::io::{Cursor, Read};
use umya_spreadsheet::helper::coordinate::{coordinate_from_index, string_from_column_index};
use umya_spreadsheet::structs::{Cell, Spreadsheet, Style, Worksheet};

pub struct State {
    pub book: Spreadsheet,
    pub dead: bool,
}
impl State {
    pub fn new() -> Self {
        State { book: umya_spreadsheet::new_file(), dead: false }
    }
    pub fn ws(&mut self) -> &mut Worksheet {
        self.book.get_sheet_mut(&0).unwrap()
    }
}

pub fn style_of(tok: u32) -> Style {
    let mut s = Style::default();
    if tok != 0 {
        s.set_background_color(format!("FF{:06X}", tok));
    }
    s
}
pub fn tok_of_style(s: &Style) -> u32 {
    match s.get_background_color() {
        Some(c) => u32::from_str_radix(&c.get_argb()[2..], 16).unwrap_or(999999),
        None => 0,
    }
}
pub fn tok_of_value(v: &str) -> u32 {
    if v.is_empty() {
        0
    } else {
        v[1..].parse().unwrap_or(999999)
    }
}
/// content token of a cell: a formula cell (C07 stream: `A1+<tok>`, tok >= 100) carries its token in the
/// constant after the last `+` (the reference part may be shifted by row/column edits, C08's subject);
/// any other cell carries it in its value `v<tok>`
pub fn tok_of_cell(c: &umya_spreadsheet::structs::Cell) -> u32 {
    if c.is_formula() {
        c.get_formula().rsplit('+').next().and_then(|x| x.parse().ok()).unwrap_or(999999)
    } else {
        tok_of_value(&c.get_value())
    }
}

fn rect(rs: u32, re: u32, cs: u32, ce: u32) -> String {
    format!("{}:{}", coordinate_from_index(&cs, &rs), coordinate_from_index(&ce, &re))
}

pub fn dump(ws: &Worksheet) -> String {
    let mut cells: Vec<(u32, u32, String)> = ws
        .get_collection_to_hashmap()
        .iter()
        .map(|(k, c)| {
            (
                k.0,
                k.1,
                format!(
                    "{}.{}.{}.{}.{}.{}",
                    k.0,
                    k.1,
                    c.get_coordinate().get_row_num(),
                    c.get_coordinate().get_col_num(),
                    tok_of_cell(c),
                    tok_of_style(c.get_style())
                ),
            )
        })
        .collect();
    cells.sort();
    let cs = ws.verif_cells();
    let rc: Vec<String> = cs.iter_coordinates_sorted_by_row_column().map(|(c, r)| format!("{}.{}", c, r)).collect();
    let cr: Vec<String> = cs.iter_coordinates_sorted_by_column_row().map(|(c, r)| format!("{}.{}", c, r)).collect();
    let (hc, hr) = ws.get_highest_column_and_row();
    let dim = ws.calculate_worksheet_dimension();
    let dim_s = if dim == "A1" { "-".to_string() } else { format!("{}.{}", hc, hr) };
    // the dimension text itself is checked against hi by the oracle below
    let mut rows: Vec<(u32, String)> = ws
        .get_row_dimensions_to_hashmap()
        .iter()
        .map(|(k, r)| (*k, format!("{}.{}.{}", k, r.get_row_num(), tok_of_style(r.get_style()))))
        .collect();
    rows.sort();
    let cols: Vec<String> =
        ws.get_column_dimensions().iter().map(|c| format!("{}.{}", c.get_col_num(), tok_of_style(c.get_style()))).collect();
    format!(
        "cells={};rc={};cr={};hi={}.{};dim={};rows={};cols={}",
        cells.iter().map(|x| x.2.clone()).collect::<Vec<_>>().join(","),
        rc.join(","),
        cr.join(","),
        hc,
        hr,
        dim_s,
        rows.iter().map(|x| x.1.clone()).collect::<Vec<_>>().join(","),
        cols.join(",")
    )
}

/// implementation-level oracle: every observer agrees with a brute-force scan of the map
pub fn coherence_oracle(ws: &Worksheet) -> Result<(), String> {
    let map = ws.get_collection_to_hashmap();
    let keys: BTreeSet<(u32, u32)> = map.keys().copied().collect();
    for (k, c) in map.iter() {
        let own = (*c.get_coordinate().get_row_num(), *c.get_coordinate().get_col_num());
        if own != *k {
            return Err(format!("cell stored under {:?} reports {:?}", k, own));
        }
        match ws.get_cell((k.1, k.0)) {
            Some(f) if std::ptr::eq(f, c.as_ref()) => {}
            _ => return Err(format!("lookup of {:?} does not find its cell", k)),
        }
    }
    let cs = ws.verif_cells();
    let rc: Vec<(u32, u32)> = cs.iter_coordinates_sorted_by_row_column().map(|(c, r)| (r, c)).collect();
    let brute_rc: Vec<(u32, u32)> = keys.iter().copied().collect();
    if rc != brute_rc {
        return Err(format!("row/column listing {:?} != brute force {:?}", rc, brute_rc));
    }
    let cr: Vec<(u32, u32)> = cs.iter_coordinates_sorted_by_column_row().collect();
    let brute_cr: Vec<(u32, u32)> = keys.iter().map(|(r, c)| (*c, *r)).collect::<BTreeSet<_>>().into_iter().collect();
    if cr != brute_cr {
        return Err(format!("column/row listing {:?} != brute force {:?}", cr, brute_cr));
    }
    if ws.get_cell_collection().len() != keys.len() || ws.get_cell_collection_sorted().len() != keys.len() {
        return Err("cell collection length differs from the number of keys".into());
    }
    let sorted: Vec<(u32, u32)> = ws
        .get_cell_collection_sorted()
        .iter()
        .map(|c| (*c.get_coordinate().get_row_num(), *c.get_coordinate().get_col_num()))
        .collect();
    if sorted != brute_rc {
        return Err(format!("sorted collection {:?} != brute force {:?}", sorted, brute_rc));
    }
    let hi = ws.get_highest_column_and_row();
    let bh = (keys.iter().map(|k| k.1).max().unwrap_or(0), keys.iter().map(|k| k.0).max().unwrap_or(0));
    if hi != bh {
        return Err(format!("highest {:?} != brute force {:?}", hi, bh));
    }
    let dim = ws.calculate_worksheet_dimension();
    let bdim = if bh.1 == 0 { "A1".to_string() } else { format!("A1:{}{}", string_from_column_index(&bh.0), bh.1) };
    if dim != bdim {
        return Err(format!("dimension {} != brute force {}", dim, bdim));
    }
    let rows: BTreeSet<u32> = keys.iter().map(|k| k.0).collect();
    for r in &rows {
        let got: Vec<u32> = ws.get_collection_by_row(r).iter().map(|c| *c.get_coordinate().get_col_num()).collect();
        let want: Vec<u32> = keys.iter().filter(|k| k.0 == *r).map(|k| k.1).collect();
        if got != want {
            return Err(format!("by-row {} gives {:?}, brute force {:?}", r, got, want));
        }
        match ws.get_row_dimensions_to_hashmap().get(r) {
            Some(rd) if rd.get_row_num() == r => {}
            _ => return Err(format!("row {} holds cells but is not in the row table", r)),
        }
    }
    for (k, rd) in ws.get_row_dimensions_to_hashmap().iter() {
        if rd.get_row_num() != k {
            return Err(format!("row table key {} holds row {}", k, rd.get_row_num()));
        }
    }
    let cols: BTreeSet<u32> = keys.iter().map(|k| k.1).collect();
    for c in &cols {
        let got: Vec<u32> = ws.get_collection_by_column(c).iter().map(|x| *x.get_coordinate().get_row_num()).collect();
        let want: Vec<u32> = keys.iter().filter(|k| k.1 == *c).map(|k| k.0).collect();
        if got != want {
            return Err(format!("by-column {} gives {:?}, brute force {:?}", c, got, want));
        }
    }
    Ok(())
}

/// `<c r="…">` coordinates of xl/worksheets/sheet1.xml after a save to memory, as (col,row)
pub fn emitted(book: &Spreadsheet) -> Result<Vec<String>, String> {
    let mut buf: Vec<u8> = Vec::new();
    umya_spreadsheet::writer::xlsx::write_writer(book, Cursor::new(&mut buf)).map_err(|e| format!("{:?}", e))?;
    let mut zip = zip::ZipArchive::new(Cursor::new(buf)).map_err(|e| e.to_string())?;
    let mut f = zip.by_name("xl/worksheets/sheet1.xml").map_err(|e| e.to_string())?;
    let mut xml = String::new();
    f.read_to_string(&mut xml).map_err(|e| e.to_string())?;
    let mut out = vec![];
    let mut rest = xml.as_str();
    while let Some(i) = rest.find("<c r=\"") {
        rest = &rest[i + 6..];
        let j = rest.find('"').unwrap();
        out.push(rest[..j].to_string());
        rest = &rest[j..];
    }
    Ok(out)
}

fn opt(s: &str) -> Option<u32> {
    if s == "-" {
        None
    } else {
        Some(s.parse().unwrap())
    }
}

/// Executes one request. Mutating requests answer `ok <dump>` or `panic`.
pub fn exec(out: &mut Out, st: &mut State, line: &str, prop: &str) -> (String, bool) {
    let a: Vec<&str> = line.split(' ').collect();
    let n = |i: usize| -> u32 { a[i].parse().unwrap() };
    if a[1] == "reset" {
        *st = State::new();
        return ("ok".into(), false);
    }
    if st.dead {
        return ("dead".into(), false);
    }
    let mutating = |out: &mut Out, st: &mut State, f: &mut dyn FnMut(&mut Worksheet)| -> (String, bool) {
        let r = guard(|| f(st.ws()));
        match r {
            Ok(()) => {
                let d = guard(|| dump(st.ws()));
                match d {
                    Ok(d) => {
                        match guard(|| coherence_oracle(st.ws())) {
                            Ok(Ok(())) => out.oracle_ok(),
                            Ok(Err(e)) => out.oracle_fail(Fail::new("incoherent").with("op", line).with("detail", e)),
                            Err(_) => out.oracle_fail(Fail::new("observer-panic").with("op", line)),
                        }
                        (format!("ok {}", d), true)
                    }
                    Err(_) => {
                        out.oracle_fail(Fail::new("observer-panic").with("op", line));
                        st.dead = true;
                        ("panic".into(), false)
                    }
                }
            }
            Err(_) => {
                st.dead = true;
                ("panic".into(), false)
            }
        }
    };
    match a[1] {
        "dump" => (dump(st.ws()), true),
        "getmut" => mutating(out, st, &mut |ws| {
            ws.get_cell_mut((n(2), n(3)));
        }),
        "setval" => mutating(out, st, &mut |ws| {
            ws.get_cell_mut((n(2), n(3))).set_value(format!("v{}", n(4)));
        }),
        "setcell" => mutating(out, st, &mut |ws| {
            let mut c = Cell::default();
            c.get_coordinate_mut().set_col_num(n(2)).set_row_num(n(3));
            if n(4) != 0 {
                c.set_value(format!("v{}", n(4)));
            }
            if n(5) != 0 {
                c.set_style(style_of(n(5)));
            }
            ws.set_cell(c);
        }),
        "remove" => mutating(out, st, &mut |ws| {
            ws.remove_cell((n(2), n(3)));
        }),
        "setstyle" => mutating(out, st, &mut |ws| {
            ws.set_style((n(2), n(3)), style_of(n(4)));
        }),
        "stylerect" => mutating(out, st, &mut |ws| {
            ws.set_style_by_range(&rect(n(2), n(3), n(4), n(5)), style_of(n(6)));
        }),
        "rowsty2" => mutating(out, st, &mut |ws| {
            ws.set_style_by_range(&format!("{}:{}", n(2), n(2) + 1), style_of(n(3)));
        }),
        "colsty2" => mutating(out, st, &mut |ws| {
            ws.set_style_by_range(
                &format!("{}:{}", string_from_column_index(&n(2)), string_from_column_index(&(n(2) + 1))),
                style_of(n(3)),
            );
        }),
        "insrows" => mutating(out, st, &mut |ws| ws.insert_new_row(&n(2), &n(3))),
        "inscols" => mutating(out, st, &mut |ws| ws.insert_new_column_by_index(&n(2), &n(3))),
        "remrows" => mutating(out, st, &mut |ws| ws.remove_row(&n(2), &n(3))),
        "remcols" => mutating(out, st, &mut |ws| ws.remove_column_by_index(&n(2), &n(3))),
        "move" | "copy" => {
            let dr: i32 = a[6].parse().unwrap();
            let dc: i32 = a[7].parse().unwrap();
            let is_move = a[1] == "move";
            mutating(out, st, &mut |ws| {
                let r = rect(n(2), n(3), n(4), n(5));
                if is_move {
                    ws.move_range(&r, &dr, &dc);
                } else {
                    ws.copy_range(&r, &dr, &dc);
                }
            })
        }
        "cleanup" => mutating(out, st, &mut |ws| ws.cleanup()),
        "copyrowsty" => mutating(out, st, &mut |ws| {
            let (x, y) = (opt(a[4]), opt(a[5]));
            ws.copy_row_styling(&n(2), &n(3), x.as_ref(), y.as_ref());
        }),
        "copycolsty" => mutating(out, st, &mut |ws| {
            let (x, y) = (opt(a[4]), opt(a[5]));
            ws.copy_col_styling(&n(2), &n(3), x.as_ref(), y.as_ref());
        }),
        "get" => {
            let r = match st.ws().get_cell((n(2), n(3))) {
                Some(c) => format!(
                    "{}.{}.{}.{}",
                    c.get_coordinate().get_row_num(),
                    c.get_coordinate().get_col_num(),
                    tok_of_cell(c),
                    tok_of_style(c.get_style())
                ),
                None => "-".into(),
            };
            (r, true)
        }
        "byrow" => {
            let v: Vec<String> = st.ws().verif_cells().iter_columns_with_cells_by_row(n(2)).map(|x| x.to_string()).collect();
            (v.join(","), !v.is_empty())
        }
        "bycol" => {
            let v: Vec<String> = st.ws().verif_cells().iter_rows_with_cells_by_column(n(2)).map(|x| x.to_string()).collect();
            (v.join(","), !v.is_empty())
        }
        "byrange" => {
            let (rs, re, cs, ce) = (n(2), n(3), n(4), n(5));
            let ws = st.ws();
            match guard(|| {
                ws.verif_cells()
                    .iter_coordinates_by_range_sorted_by_row(rs, re, cs, ce)
                    .map(|(c, r)| format!("{}.{}", c, r))
                    .collect::<Vec<_>>()
            }) {
                Ok(v) => {
                    // oracle: brute force
                    let want: Vec<String> = ws
                        .get_collection_to_hashmap()
                        .keys()
                        .filter(|k| rs <= k.0 && k.0 <= re && cs <= k.1 && k.1 <= ce)
                        .copied()
                        .collect::<BTreeSet<_>>()
                        .iter()
                        .map(|k| format!("{}.{}", k.1, k.0))
                        .collect();
                    if v == want {
                        out.oracle_ok();
                    } else {
                        out.oracle_fail(Fail::new("range-scan").with("op", line).with("detail", format!("{:?} vs {:?}", v, want)));
                    }
                    (v.join(","), !v.is_empty())
                }
                Err(_) => ("panic".into(), false),
            }
        }
        "emit" => match guard(|| emitted(&st.book)) {
            Ok(Ok(list)) => {
                // oracle: exactly the non-blank-or-styled cells, ascending
                let ws = st.book.get_sheet(&0).unwrap();
                let want: Vec<String> = ws
                    .get_collection_to_hashmap()
                    .iter()
                    .filter(|(_, c)| !c.get_value().is_empty() || tok_of_style(c.get_style()) != 0)
                    .map(|(k, _)| *k)
                    .collect::<BTreeSet<_>>()
                    .iter()
                    .map(|k| coordinate_from_index(&k.1, &k.0))
                    .collect();
                if list == want {
                    out.oracle_ok();
                } else {
                    out.oracle_fail(Fail::new("not-all-emitted").with("op", line).with("detail", format!("{:?} vs {:?}", list, want)));
                }
                let v: Vec<String> = list
                    .iter()
                    .map(|s| {
                        let (c, r, _, _) = umya_spreadsheet::helper::coordinate::index_from_coordinate(s);
                        format!("{}.{}", c.unwrap_or(0), r.unwrap_or(0))
                    })
                    .collect();
                (v.join(","), !v.is_empty())
            }
            _ => {
                out.oracle_fail(Fail::new("save-failed").with("op", line));
                ("panic".into(), false)
            }
        },
        _ => {
            let _ = prop;
            ("bad-op".into(), false)
        }
    }
}

/// random op line on a small grid (rows/cols 1..=8 mostly, sometimes near the grid limit)
pub fn random_op(rng: &mut Rng, p: &str, allow_structural: bool) -> String {
    random_op_scaled(rng, p, allow_structural, false)
}

/// coordinates far from the origin: beyond 255 / 256 (one byte), beyond 16384 (the column limit, a bound that must not be
/// applied to rows), 65536, and the grid limits themselves
pub const FAR: [u32; 12] = [255, 256, 257, 16383, 16384, 16385, 20000, 65535, 65536, 65537, 1048575, 1048576];

/// `far`: one coordinate in three is taken from `FAR` (rows and columns alike; a column beyond 16384 is outside the grid but
/// the store is coordinate-agnostic: the coherence property quantifies over what the API accepts)
pub fn random_op_scaled(rng: &mut Rng, p: &str, allow_structural: bool, far: bool) -> String {
    // columns stay inside the grid (a column beyond ZZZ has no three-letter name and cannot be saved)
    let smallc = |rng: &mut Rng| -> u32 {
        if far && rng.below(3) == 0 {
            return *rng.pick(&FAR[..5]);
        }
        match rng.below(20) {
            0 => 16,
            1 => 9,
            _ => rng.range(1, 7) as u32,
        }
    };
    let small = |rng: &mut Rng| -> u32 {
        if far && rng.below(3) == 0 {
            return *rng.pick(&FAR);
        }
        match rng.below(20) {
            0 => 16,
            1 => 9,
            _ => rng.range(1, 7) as u32,
        }
    };
    let tok = |rng: &mut Rng| rng.range(1, 5) as u32;
    let mut k = rng.below(if allow_structural { 100 } else { 60 });
    if far {
        // far from the origin only point operations and row / column inserts and removes: the rectangle and styling
        // helpers walk every row / column up to the highest one (10^6 steps per call, in the library and in the model)
        k = match k {
            47..=59 => k % 47,
            90.. => 60 + k % 30,
            _ => k,
        };
    }
    match k {
        0..=7 => format!("{} getmut {} {}", p, smallc(rng), small(rng)),
        8..=24 => format!("{} setval {} {} {}", p, smallc(rng), small(rng), tok(rng)),
        25..=31 => format!("{} setcell {} {} {} {}", p, smallc(rng), small(rng), rng.below(4), rng.below(4)),
        32..=39 => format!("{} remove {} {}", p, smallc(rng), small(rng)),
        40..=46 => format!("{} setstyle {} {} {}", p, smallc(rng), small(rng), tok(rng)),
        47..=50 => {
            let (r, c) = (small(rng), small(rng));
            format!("{} stylerect {} {} {} {} {}", p, r, r + rng.below(3) as u32, c, c + rng.below(3) as u32, tok(rng))
        }
        51..=56 => {
            if rng.chance(1, 40) {
                if rng.chance(1, 2) {
                    format!("{} rowsty2 {} {}", p, small(rng), tok(rng))
                } else {
                    format!("{} colsty2 {} {}", p, small(rng), tok(rng))
                }
            } else {
                format!("{} setval {} {} {}", p, smallc(rng), small(rng), tok(rng))
            }
        }
        57 => format!("{} cleanup", p),
        58 => format!(
            "{} copyrowsty {} {} {} {}",
            p,
            small(rng),
            small(rng),
            if rng.chance(1, 2) { "-".to_string() } else { small(rng).to_string() },
            if rng.chance(1, 2) { "-".to_string() } else { small(rng).to_string() }
        ),
        59 => format!(
            "{} copycolsty {} {} {} {}",
            p,
            small(rng),
            small(rng),
            if rng.chance(1, 2) { "-".to_string() } else { small(rng).to_string() },
            if rng.chance(1, 2) { "-".to_string() } else { small(rng).to_string() }
        ),
        60..=67 => format!("{} insrows {} {}", p, small(rng), rng.range(1, 3)),
        68..=75 => format!("{} inscols {} {}", p, smallc(rng), rng.range(1, 3)),
        76..=82 => format!("{} remrows {} {}", p, small(rng), rng.range(1, 3)),
        83..=89 => format!("{} remcols {} {}", p, smallc(rng), rng.range(1, 3)),
        _ => {
            let (r, c) = (small(rng), small(rng));
            let (re, ce) = (r + rng.below(3) as u32, c + rng.below(3) as u32);
            let dr = rng.range(0, 6) as i32 - 3;
            let dc = rng.range(0, 6) as i32 - 3;
            let dr = if (r as i32 + dr) < 1 { 0 } else { dr };
            let dc = if (c as i32 + dc) < 1 { 0 } else { dc };
            format!("{} {} {} {} {} {} {} {}", p, if rng.chance(1, 2) { "move" } else { "copy" }, r, re, c, ce, dr, dc)
        }
    }
}

pub fn gen(tier: Tier, seed: u64) -> Vec<String> {
    let mut rng = Rng::new(seed ^ 0xC10);
    let mut v = vec![];
    let histories = if tier == Tier::Thorough { 20_000 } else { 2_000 };
    for h in 0..histories {
        v.push("c10 reset".to_string());
        let len = rng.range(1, 60);
        // every eighth history lives far from the origin as well
        let far = h % 8 == 7;
        for i in 0..len {
            v.push(random_op_scaled(&mut rng, "c10", true, far));
            // observers after some ops
            if rng.chance(1, 4) || i + 1 == len {
                if far {
                    v.push(format!("c10 byrow {}", rng.pick(&FAR)));
                    v.push(format!("c10 bycol {}", rng.pick(&FAR[..5])));
                    v.push(format!("c10 bycol {}", rng.range(1, 9)));
                }
                v.push(format!("c10 byrow {}", rng.range(1, 9)));
                v.push(format!("c10 bycol {}", rng.range(1, 9)));
                let (r, c) = (rng.range(1, 6), rng.range(1, 6));
                v.push(format!("c10 byrange {} {} {} {}", r, r + rng.below(5), c, c + rng.below(5)));
                v.push(format!("c10 get {} {}", rng.range(1, 8), rng.range(1, 8)));
            }
        }
        if h % 3 == 0 {
            v.push("c10 emit".to_string());
        }
    }
    v
}

pub fn run(out: &mut Out, tier: Tier, seed: u64, replay: Option<Vec<String>>) {
    let ops = match replay {
        Some(r) => r,
        None => gen(tier, seed),
    };
    let mut st = State::new();
    for op in ops {
        let kind = op.split(' ').nth(1).unwrap_or("?").to_string();
        out.begin(&op);
        let (reply, nt) = exec(out, &mut st, &op, "c10");
        out.count(&format!("op.{}", kind));
        if reply == "panic" {
            out.count(&format!("panic.{}", kind));
        }
        if reply == "dead" {
            out.count("skipped-after-panic");
        }
        out.end(&op, &reply, nt);
    }
}
