//! C01 — cell content survives save and reload.
//!
//! A case: `c01 reset <n>`; `c01 op …` lines that build cells of every kind through the public API
//! (reply: what the cell holds afterwards); `c01 dump`; then for BOTH writers `c01 save <w>` (reply: the
//! facts read back from the package with a scanner that does not unescape: per `<c>` the `r`, `t`, `s`
//! attributes and the raw `<f>` / `<v>` content, and the `<si>` list) and `c01 load <w> <facts>` (the
//! request carries those facts so that the model READER is run on exactly what the real reader saw;
//! reply: dump of the reloaded workbook).  Oracle on the implementation: reloaded non-blank cells ==
//! stored non-blank cells (kind, value text, formula text, coordinate), where a value stored with
//! `set_value_lazy` and never resolved counts as the typed value the public resolver `get_value_lazy`
//! makes of it (`expected_book`; the writer converts it on its own path, `Cell::write_to`).
use crate::common::*;
use std::io::Cursor;
use umya_spreadsheet::structs::{Cell, CellRawValue, RichText, Spreadsheet, Style, TextElement};

pub struct State {
    pub book: Spreadsheet,
    pub nsheets: usize,
    pub saved: [Option<(Vec<u8>, String)>; 2], // per writer: package bytes and facts
    pub twin: [Option<(Vec<u8>, String)>; 2],  // per writer: package bytes of the workbook without the cells that hold a character outside XML 1.0 Char, and the list of those cells
}
impl State {
    pub fn new(n: usize) -> Self {
        let mut book = umya_spreadsheet::new_file();
        for i in 1..n {
            let _ = book.new_sheet(format!("S{}", i + 1));
        }
        State { book, nsheets: n, saved: [None, None], twin: [None, None] }
    }
}

// ------------------------------------------------------------------------------------ observation

fn hexs(s: &str) -> String {
    hex(s)
}
fn font_tok(te: &TextElement) -> String {
    match te.get_font() {
        Some(f) => f.get_name().strip_prefix("Fnt").and_then(|x| x.parse::<u32>().ok()).map(|x| x.to_string()).unwrap_or("?".into()),
        None => "~".into(),
    }
}
fn runs_str(rt: &RichText) -> String {
    let els = rt.get_rich_text_elements();
    if els.is_empty() {
        return "-".into();
    }
    els.iter().map(|e| format!("{}:{}", font_tok(e), hexs(e.get_text()))).collect::<Vec<_>>().join("+")
}
fn kind_of(c: &Cell) -> &'static str {
    match c.get_raw_value() {
        CellRawValue::Empty => "z",
        CellRawValue::String(_) => "s",
        CellRawValue::RichText(_) => "r",
        CellRawValue::Numeric(_) => "n",
        CellRawValue::Bool(_) => "b",
        CellRawValue::Error(_) => "e",
        CellRawValue::Lazy(_) => "l",
    }
}
fn formula_str(c: &Cell) -> String {
    if c.is_formula() {
        hexs(c.get_formula())
    } else {
        "~".into()
    }
}
fn styled(c: &Cell) -> bool {
    c.get_style() != &Style::default()
}
/// last field of an observation: the runs of a rich text, `=<text>` for an unresolved lazy value (its stored
/// text, which `get_value` does not show), `~` otherwise
fn runs_of(c: &Cell) -> String {
    match c.get_raw_value() {
        CellRawValue::RichText(rt) => runs_str(rt),
        CellRawValue::Lazy(v) => format!("={}", hexs(v)),
        _ => "~".into(),
    }
}
fn obs(c: &Cell) -> String {
    format!("{} {} {} {} {}", kind_of(c), hexs(&c.get_value()), formula_str(c), if styled(c) { 1 } else { 0 }, runs_of(c))
}

#[derive(Clone, PartialEq, Debug)]
pub struct CellD {
    col: u32,
    row: u32,
    kind: String,
    val: String,
    formula: String,
    styled: bool,
    runs: String,
    /// the stored cell held an unresolved lazy value (set by `expected_book` only)
    lazy: bool,
}
impl CellD {
    fn blank_unstyled(&self) -> bool {
        self.kind == "z" && self.formula == "~" && !self.styled
    }
    fn render(&self) -> String {
        format!("{},{},{},{},{},{},{}", self.col, self.row, self.kind, self.val, self.formula, if self.styled { 1 } else { 0 }, self.runs)
    }
}
fn dump_book(book: &Spreadsheet, n: usize) -> Vec<Vec<CellD>> {
    (0..n)
        .map(|i| {
            book.get_sheet(&i)
                .unwrap()
                .get_cell_collection_sorted()
                .iter()
                .map(|c| CellD {
                    col: *c.get_coordinate().get_col_num(),
                    row: *c.get_coordinate().get_row_num(),
                    kind: kind_of(c).to_string(),
                    val: hexs(&c.get_value()),
                    formula: formula_str(c),
                    styled: styled(c),
                    runs: runs_of(c),
                    lazy: false,
                })
                .collect()
        })
        .collect()
}
/// What a reload of the saved workbook must show: the stored cells, where a value stored with `set_value_lazy` and
/// never resolved stands for the typed value the public resolver makes of it (`get_value_lazy` on a copy of the
/// cell; the resolver drops the formula of the copy, the stored formula is what must survive).
fn expected_book(book: &Spreadsheet, n: usize) -> Vec<Vec<CellD>> {
    (0..n)
        .map(|i| {
            book.get_sheet(&i)
                .unwrap()
                .get_cell_collection_sorted()
                .iter()
                .map(|c| {
                    let lazy = matches!(c.get_raw_value(), CellRawValue::Lazy(_));
                    let mut k: Cell = (*c).clone();
                    if lazy {
                        let _ = k.get_value_lazy();
                    }
                    CellD {
                        col: *c.get_coordinate().get_col_num(),
                        row: *c.get_coordinate().get_row_num(),
                        kind: kind_of(&k).to_string(),
                        val: hexs(&k.get_value()),
                        formula: formula_str(c),
                        styled: styled(c),
                        runs: runs_of(&k),
                        lazy,
                    }
                })
                .collect()
        })
        .collect()
}
fn render_dump(d: &[Vec<CellD>]) -> String {
    d.iter().map(|s| s.iter().map(|c| c.render()).collect::<Vec<_>>().join(";")).collect::<Vec<_>>().join("|")
}

// ------------------------------------------------------------------------------------ package scanner

enum Tok<'a> {
    Tag(&'a str),
    Text(&'a str),
}
/// split into `<…>` tags and the raw text between them (nothing is unescaped or trimmed)
fn tokens(s: &str) -> Vec<Tok<'_>> {
    let mut out = vec![];
    let mut rest = s;
    while !rest.is_empty() {
        match rest.find('<') {
            Some(0) => match rest.find('>') {
                Some(j) => {
                    out.push(Tok::Tag(&rest[1..j]));
                    rest = &rest[j + 1..];
                }
                None => break,
            },
            Some(i) => {
                out.push(Tok::Text(&rest[..i]));
                rest = &rest[i..];
            }
            None => {
                out.push(Tok::Text(rest));
                break;
            }
        }
    }
    out
}
fn tag_name(t: &str) -> &str {
    let t = t.strip_suffix('/').unwrap_or(t);
    t.split(|c: char| c == ' ' || c == '\t' || c == '\r' || c == '\n').next().unwrap_or("")
}
fn is_empty_tag(t: &str) -> bool {
    t.ends_with('/')
}
fn t_facts(tag: &str, raw: &str) -> String {
    let p = if format!(" {}", tag).contains(" xml:space=\"preserve\"") { 1 } else { 0 };
    format!("{}:{}", p, hexs(raw))
}

/// facts of one sheet part: `ref,t,s,f,v` per `<c>`
fn sheet_facts(xml: &str) -> Result<String, String> {
    let toks = tokens(xml);
    let mut cells = vec![];
    let mut i = 0;
    while i < toks.len() {
        if let Tok::Tag(t) = &toks[i] {
            if tag_name(t) == "c" {
                let tag = format!(" {}", t.strip_suffix('/').unwrap_or(t));
                let r = attr_of(&tag, "r").unwrap_or("?").to_string();
                let ty = attr_of(&tag, "t").map(|x| x.to_string()).unwrap_or("~".into());
                let s = if attr_of(&tag, "s").is_some() { 1 } else { 0 };
                let mut f = "~".to_string();
                let mut v = "~".to_string();
                if !is_empty_tag(t) {
                    i += 1;
                    while i < toks.len() {
                        match &toks[i] {
                            Tok::Tag(u) if *u == "/c" => break,
                            Tok::Tag(u) if tag_name(u) == "f" => {
                                if is_empty_tag(u) {
                                    f = "-".into();
                                } else {
                                    let mut raw = "";
                                    i += 1;
                                    while i < toks.len() {
                                        match &toks[i] {
                                            Tok::Tag(w) if *w == "/f" => break,
                                            Tok::Text(x) => raw = x,
                                            Tok::Tag(w) => return Err(format!("unexpected <{}> inside <f>", w)),
                                        }
                                        i += 1;
                                    }
                                    f = hexs(raw);
                                }
                            }
                            Tok::Tag(u) if tag_name(u) == "v" => {
                                if is_empty_tag(u) {
                                    v = "/".into();
                                } else {
                                    let mut raw = "";
                                    i += 1;
                                    while i < toks.len() {
                                        match &toks[i] {
                                            Tok::Tag(w) if *w == "/v" => break,
                                            Tok::Text(x) => raw = x,
                                            Tok::Tag(w) => return Err(format!("unexpected <{}> inside <v>", w)),
                                        }
                                        i += 1;
                                    }
                                    v = hexs(raw);
                                }
                            }
                            Tok::Tag(u) => return Err(format!("unexpected <{}> inside <c>", u)),
                            Tok::Text(x) => return Err(format!("unexpected text {:?} inside <c>", x)),
                        }
                        i += 1;
                    }
                }
                cells.push(format!("{},{},{},{},{}", r, ty, s, f, v));
            }
        }
        i += 1;
    }
    Ok(cells.join(";"))
}

/// facts of the shared-string part: per `<si>`: `<t>/<runs>`
fn sst_facts(xml: &str) -> Result<String, String> {
    let toks = tokens(xml);
    let mut sis = vec![];
    let mut i = 0;
    while i < toks.len() {
        if let Tok::Tag(t) = &toks[i] {
            if *t == "si" {
                let mut tpart = "~".to_string();
                let mut runs: Vec<String> = vec![];
                let mut in_run = false;
                let mut font = "~".to_string();
                i += 1;
                while i < toks.len() {
                    match &toks[i] {
                        Tok::Tag(u) if *u == "/si" => break,
                        Tok::Tag(u) if *u == "r" => {
                            in_run = true;
                            font = "~".into();
                        }
                        Tok::Tag(u) if *u == "/r" => in_run = false,
                        Tok::Tag(u) if tag_name(u) == "rFont" => {
                            let tag = format!(" {}", u);
                            font = attr_of(&tag, "val").and_then(|x| x.strip_prefix("Fnt")).unwrap_or("?").to_string();
                        }
                        Tok::Tag(u) if tag_name(u) == "t" && !is_empty_tag(u) => {
                            let mut raw = "";
                            let tag = u.to_string();
                            i += 1;
                            while i < toks.len() {
                                match &toks[i] {
                                    Tok::Tag(w) if *w == "/t" => break,
                                    Tok::Text(x) => raw = x,
                                    Tok::Tag(w) => return Err(format!("unexpected <{}> inside <t>", w)),
                                }
                                i += 1;
                            }
                            if in_run {
                                runs.push(format!("{}:{}", font, t_facts(&tag, raw)));
                            } else {
                                tpart = t_facts(&tag, raw);
                            }
                        }
                        Tok::Tag(u) if tag_name(u) == "t" => {
                            // `<t/>`
                            if in_run {
                                runs.push(format!("{}:{}", font, t_facts(u, "")));
                            } else {
                                tpart = t_facts(u, "");
                            }
                        }
                        _ => {}
                    }
                    i += 1;
                }
                sis.push(format!("{}/{}", tpart, if runs.is_empty() { "~".to_string() } else { runs.join("+") }));
            }
        }
        i += 1;
    }
    Ok(sis.join(";"))
}

pub fn package_facts(buf: &[u8], nsheets: usize) -> Result<String, String> {
    let parts = unzip_all(buf)?;
    let get = |name: &str| -> Option<String> { parts.iter().find(|p| p.0 == name).map(|p| String::from_utf8_lossy(&p.1).to_string()) };
    let mut sheets = vec![];
    for i in 1..=nsheets {
        let xml = get(&format!("xl/worksheets/sheet{}.xml", i)).ok_or(format!("sheet{} missing", i))?;
        if String::from_utf8(parts.iter().find(|p| p.0 == format!("xl/worksheets/sheet{}.xml", i)).unwrap().1.clone()).is_err() {
            return Err("sheet part is not UTF-8".into());
        }
        sheets.push(sheet_facts(&xml)?);
    }
    let sst = match get("xl/sharedStrings.xml") {
        Some(x) => {
            let f = sst_facts(&x)?;
            if f.is_empty() {
                "~".to_string()
            } else {
                f
            }
        }
        None => "~".into(),
    };
    Ok(format!("cells={} sst={}", sheets.join("|"), sst))
}

// ------------------------------------------------------------------------------------ hand-made packages

fn raw_of(h: &str) -> String {
    String::from_utf8(unhex(h)).unwrap()
}
fn t_xml(p_hex: &str) -> String {
    let (p, h) = p_hex.split_once(':').unwrap();
    format!("<t{}>{}</t>", if p == "1" { " xml:space=\"preserve\"" } else { "" }, raw_of(h))
}
/// a package (from a template saved by the library itself) whose first sheet and shared-string part are
/// written from the facts, verbatim
fn synth_package(cells: &str, sst: &str) -> Result<Vec<u8>, String> {
    use std::io::Write;
    let cells = cells.strip_prefix("cells=").ok_or("cells=")?;
    let sst = sst.strip_prefix("sst=").ok_or("sst=")?;
    let mut rows = String::new();
    for c in cells.split(';').filter(|x| !x.is_empty()) {
        let f: Vec<&str> = c.split(',').collect();
        let (r, t, fo, v, is) = (f[0], f[1], f[3], f[4], f.get(5).copied().unwrap_or("~"));
        let rown: String = r.chars().filter(|c| c.is_ascii_digit()).collect();
        let tattr = if t == "~" { String::new() } else { format!(" t=\"{}\"", t) };
        if fo == "~" && v == "~" && is == "~" {
            rows.push_str(&format!("<row r=\"{}\"><c r=\"{}\"{}/></row>", rown, r, tattr));
            continue;
        }
        let mut x = format!("<row r=\"{}\"><c r=\"{}\"{}>", rown, r, tattr);
        if fo != "~" {
            x.push_str(&format!("<f>{}</f>", raw_of(fo)));
        }
        if v == "/" {
            x.push_str("<v/>");
        } else if v != "~" {
            x.push_str(&format!("<v>{}</v>", raw_of(v)));
        }
        if is != "~" {
            x.push_str(&format!("<is>{}</is>", t_xml(is)));
        }
        x.push_str("</c></row>");
        rows.push_str(&x);
    }
    let mut sis = String::new();
    if sst != "~" {
        for si in sst.split(';') {
            let (t, rs) = si.split_once('/').ok_or("si")?;
            sis.push_str("<si>");
            if t != "~" {
                sis.push_str(&t_xml(t));
            }
            if rs != "~" {
                for r in rs.split('+') {
                    let (font, rest) = r.split_once(':').ok_or("run")?;
                    sis.push_str("<r>");
                    if font != "~" {
                        sis.push_str(&format!("<rPr><rFont val=\"Fnt{}\"/></rPr>", font));
                    }
                    sis.push_str(&t_xml(rest));
                    sis.push_str("</r>");
                }
            }
            sis.push_str("</si>");
        }
    }
    // template
    let mut book = umya_spreadsheet::new_file();
    book.get_sheet_mut(&0).unwrap().get_cell_mut((1, 1)).set_value_number(1);
    let parts = unzip_all(&save_bytes(&book, false)?)?;
    let mut zw = zip::ZipWriter::new(Cursor::new(Vec::new()));
    let opt = zip::write::SimpleFileOptions::default().compression_method(zip::CompressionMethod::Stored);
    for (name, bytes) in &parts {
        if name == "xl/sharedStrings.xml" {
            continue;
        }
        zw.start_file(name.as_str(), opt).map_err(|e| e.to_string())?;
        if name == "xl/worksheets/sheet1.xml" {
            let xml = String::from_utf8_lossy(bytes).to_string();
            let a = xml.find("<sheetData").ok_or("template: no sheetData")?;
            let b = xml.find("</sheetData>").ok_or("template: no /sheetData")? + "</sheetData>".len();
            let new = format!("{}<sheetData>{}</sheetData>{}", &xml[..a], rows, &xml[b..]);
            zw.write_all(new.as_bytes()).map_err(|e| e.to_string())?;
        } else {
            zw.write_all(bytes).map_err(|e| e.to_string())?;
        }
    }
    if sst != "~" {
        zw.start_file("xl/sharedStrings.xml", opt).map_err(|e| e.to_string())?;
        let x = format!("<?xml version=\"1.0\" encoding=\"UTF-8\" standalone=\"yes\"?>\r\n<sst xmlns=\"http://schemas.openxmlformats.org/spreadsheetml/2006/main\">{}</sst>", sis);
        zw.write_all(x.as_bytes()).map_err(|e| e.to_string())?;
    }
    Ok(zw.finish().map_err(|e| e.to_string())?.into_inner())
}

const RAW_PIECES: [&str; 44] = [
    "a", "Z", "7", " ", "\t", "\n", "\r", "\r\n", "&amp;", "&lt;", "&gt;", "&apos;", "&quot;", "&#13;", "&#x41;", "&#65;", "&#x1F600;", "&#0;", "&#xD800;", "&#x110000;", "&#99999999999;", "&#+65;", "&#;",
    "&#x;", "&#X41;", "&foo;", "&amp", "&", ";", "a;b", "&&amp;", ">", "\"", "'", "]]>", "\u{a0}", "\u{1f600}", "&#x9;", "&#10;", "&#32;", "é", "&nbsp;", "&LT;", "&#x0041;",
];
const RAW_WHOLE: [&str; 22] = ["1", " 1 ", "TRUE", "true", "#N/A", "0", "+0", "+1", "2", "99", "", "1.5", " ", "\n  \n", "x", " x ", "1e3", "-0", "#DIV/0!", "FALSE", "18446744073709551616", "0001"];

fn gen_raw(rng: &mut Rng) -> String {
    if rng.chance(1, 2) {
        return RAW_WHOLE[rng.below(RAW_WHOLE.len() as u64) as usize].to_string();
    }
    let mut s = String::new();
    for _ in 0..rng.range(0, 4) {
        // mostly well-formed pieces, so that not every case ends in the unwrap panic
        let i = if rng.chance(3, 4) { rng.below(17) } else { rng.below(RAW_PIECES.len() as u64) };
        s.push_str(RAW_PIECES[i as usize]);
    }
    s
}
fn gen_rawload(rng: &mut Rng) -> String {
    const TYPES: [&str; 10] = ["~", "s", "str", "b", "e", "n", "inlineStr", "x", "s", "~"];
    const REFS: [&str; 5] = ["A1", "B2", "XFD1048576", "AA10", "C3"];
    let nsi = rng.below(4);
    let tx = |rng: &mut Rng| format!("{}:{}", rng.below(2), hex(&gen_raw(rng)));
    let sis: Vec<String> = (0..nsi)
        .map(|_| match rng.below(4) {
            0 => "~/~".to_string(),
            1 => format!("~/{}", (0..rng.range(1, 2)).map(|_| format!("{}:{}", ["~", "1", "2"][rng.below(3) as usize], tx(rng))).collect::<Vec<_>>().join("+")),
            _ => format!("{}/~", tx(rng)),
        })
        .collect();
    let ncells = rng.range(1, 3) as usize;
    let cells: Vec<String> = (0..ncells)
        .map(|i| {
            let t = TYPES[rng.below(TYPES.len() as u64) as usize];
            let f = if rng.chance(1, 4) { hex(&gen_raw(rng)) } else { "~".to_string() };
            let v = match rng.below(10) {
                0 => "~".to_string(),
                1 => "/".to_string(),
                _ => {
                    if t == "s" && rng.chance(4, 5) {
                        hex(["0", "1", "+1", " 1 ", "2", "x", "", "3"][rng.below(8) as usize])
                    } else {
                        hex(&gen_raw(rng))
                    }
                }
            };
            let is = if rng.chance(1, 4) || t == "inlineStr" { tx(rng) } else { "~".to_string() };
            format!("{},{},0,{},{},{}", REFS[i], t, f, v, is)
        })
        .collect();
    // number hints: what Rust makes of every text the reader may hand to `parse::<f64>()`
    let mut hints: Vec<String> = vec![];
    for c in &cells {
        let f: Vec<&str> = c.split(',').collect();
        let mut raws: Vec<String> = vec![];
        if f[4] != "~" && f[4] != "/" {
            raws.push(raw_of(f[4]));
        }
        if f[5] != "~" {
            raws.push(raw_of(f[5].split_once(':').unwrap().1));
        }
        for r in raws {
            for cand in [r.as_str(), r.trim_matches(|c| c == ' ' || c == '\t' || c == '\r' || c == '\n')] {
                if let Ok(u) = quick_xml::escape::unescape(cand) {
                    if let Ok(x) = u.parse::<f64>() {
                        let d = format!("{}", x);
                        let h = format!("{}:{}", hex(&u), d);
                        if d != u && !hints.contains(&h) {
                            hints.push(h);
                        }
                    }
                }
            }
        }
    }
    format!(
        "c01 rawload cells={} sst={} hints={}",
        cells.join(";"),
        if sis.is_empty() { "~".to_string() } else { sis.join(";") },
        if hints.is_empty() { "~".to_string() } else { hints.join(",") }
    )
}


// ------------------------------------------------------------------------------------ character-level leg

/// XML 1.0 production [2] Char
fn is_xml_char(c: char) -> bool {
    let n = c as u32;
    n == 0x9 || n == 0xA || n == 0xD || (0x20..=0xD7FF).contains(&n) || (0xE000..=0xFFFD).contains(&n) || (0x10000..=0x10FFFF).contains(&n)
}
fn all_xml(s: &str) -> bool {
    s.chars().all(is_xml_char)
}
/// every text of a cell that reaches a part: value text, formula text, run texts
fn cell_texts(c: &Cell) -> Vec<String> {
    let mut v = vec![c.get_value().to_string()];
    if c.is_formula() {
        v.push(c.get_formula().to_string());
    }
    if let CellRawValue::RichText(rt) = c.get_raw_value() {
        for e in rt.get_rich_text_elements() {
            v.push(e.get_text().to_string());
        }
    }
    if let CellRawValue::Lazy(s) = c.get_raw_value() {
        v.push(s.to_string());
    }
    v
}
/// the worksheet parts (in order) and the shared-strings part of a package, as text
fn parts_of(buf: &[u8], nsheets: usize) -> Result<(Option<String>, Vec<String>), String> {
    let parts = unzip_all(buf)?;
    let get = |name: &str| -> Option<String> { parts.iter().find(|p| p.0 == name).and_then(|p| String::from_utf8(p.1.clone()).ok()) };
    let mut sheets = vec![];
    for i in 1..=nsheets {
        sheets.push(get(&format!("xl/worksheets/sheet{}.xml", i)).ok_or(format!("sheet{} missing or not UTF-8", i))?);
    }
    Ok((get("xl/sharedStrings.xml"), sheets))
}
fn parts_hex(sst: &Option<String>, sheets: &[String]) -> String {
    format!("{} {}", sst.as_ref().map(|s| hex(s)).unwrap_or("~".into()), sheets.iter().map(|s| hex(s)).collect::<Vec<_>>().join("|"))
}
/// the workbook without the cells that hold a character outside XML 1.0 `Char`, and the list `s:col:row` of those cells
fn xml_twin(book: &Spreadsheet, n: usize) -> (Spreadsheet, Vec<String>) {
    let mut twin = book.clone();
    let mut drop = vec![];
    for i in 0..n {
        let bad: Vec<(u32, u32)> = book
            .get_sheet(&i)
            .unwrap()
            .get_cell_collection_sorted()
            .iter()
            .filter(|c| cell_texts(c).iter().any(|t| !all_xml(t)))
            .map(|c| (*c.get_coordinate().get_col_num(), *c.get_coordinate().get_row_num()))
            .collect();
        for (col, row) in bad {
            twin.get_sheet_mut(&i).unwrap().remove_cell((col, row));
            drop.push(format!("{}:{}:{}", i, col, row));
        }
    }
    (twin, drop)
}
/// what the character-level reader of the model can say about a reloaded cell: run properties only as present / absent;
/// a formula whose cached value is the empty text is the same tree as a formula without cached value
fn chars_view(d: &[Vec<CellD>]) -> Vec<Vec<CellD>> {
    d.iter()
        .map(|s| {
            s.iter()
                .map(|c| {
                    let mut c = c.clone();
                    if c.runs != "~" && c.runs != "-" {
                        c.runs = c.runs.split('+').map(|r| { let (f, t) = r.split_once(':').unwrap(); format!("{}:{}", if f == "~" { "~" } else { "0" }, t) }).collect::<Vec<_>>().join("+");
                    }
                    if c.formula != "~" && c.kind == "s" && c.val == "-" {
                        c.kind = "z".into();
                    }
                    c
                })
                .collect()
        })
        .collect()
}
fn count_chars_leg(out: &mut Out, book: &Spreadsheet, n: usize) {
    for i in 0..n {
        for c in book.get_sheet(&i).unwrap().get_cell_collection_sorted() {
            out.count(&format!("chars.kind.{}{}", kind_of(c), if c.is_formula() { "+f" } else { "" }));
            for t in cell_texts(c) {
                for (key, hit) in [
                    ("amp", t.contains('&')), ("lt", t.contains('<')), ("gt", t.contains('>')), ("quot", t.contains('"')), ("apos", t.contains('\'')),
                    ("cr", t.contains('\r')), ("lf", t.contains('\n')), ("tab", t.contains('\t')), ("cdata-end", t.contains("]]>")),
                    ("lead-blank", t.starts_with(|c: char| c.is_whitespace())), ("trail-blank", t.ends_with(|c: char| c.is_whitespace())),
                    ("nbsp", t.contains('\u{a0}')), ("u2028", t.contains('\u{2028}')), ("u3000", t.contains('\u{3000}')), ("u85", t.contains('\u{85}')),
                    ("non-bmp", t.chars().any(|c| c as u32 > 0xFFFF)), ("non-ascii", t.chars().any(|c| c as u32 > 0x7F)), ("empty", t.is_empty()),
                ] {
                    if hit {
                        out.count(&format!("chars.text.{}", key));
                    }
                }
            }
        }
    }
}
/// the f64 Display / FromStr hypothesis (`NumFmt.Sound`) on one number
fn numfmt_ok(v: f64) -> bool {
    let t = format!("{}", v);
    !t.is_empty() && t.chars().all(|c| "-0123456789.eE+infNa".contains(c)) && t.parse::<f64>().map(|x| x.to_bits()) == Ok(v.to_bits())
}

// ------------------------------------------------------------------------------------ executor

fn save_bytes(book: &Spreadsheet, light: bool) -> Result<Vec<u8>, String> {
    let mut buf: Vec<u8> = Vec::new();
    if light {
        umya_spreadsheet::writer::xlsx::write_writer_light(book, Cursor::new(&mut buf)).map_err(|e| format!("{:?}", e))?;
    } else {
        umya_spreadsheet::writer::xlsx::write_writer(book, Cursor::new(&mut buf)).map_err(|e| format!("{:?}", e))?;
    }
    Ok(buf)
}

fn parse_runs(a: &str) -> RichText {
    let mut rt = RichText::default();
    if a != "-" {
        for r in a.split('+') {
            let (f, t) = r.split_once(':').unwrap();
            let mut te = TextElement::default();
            te.set_text(String::from_utf8(unhex(t)).unwrap());
            if f != "~" {
                te.get_font_mut().set_name(format!("Fnt{}", f));
            }
            rt.add_rich_text_elements(te);
        }
    }
    rt
}

fn apply_op(cell: &mut Cell, name: &str, arg: Option<&str>) -> bool {
    let text = |a: &str| String::from_utf8(unhex(a)).unwrap();
    match (name, arg) {
        ("v", Some(a)) => {
            cell.set_value(text(a));
        }
        ("s", Some(a)) => {
            cell.set_value_string(text(a));
        }
        ("n", Some(a)) => {
            cell.set_value_number(a.parse::<f64>().unwrap());
        }
        ("b", Some(a)) => {
            cell.set_value_bool(a == "1");
        }
        ("r", Some(a)) => {
            cell.set_rich_text(parse_runs(a));
        }
        ("e", Some(a)) => {
            cell.set_error(text(a));
        }
        ("d", Some(a)) => {
            cell.set_formula_result_default(text(a));
        }
        ("f", Some(a)) => {
            cell.set_formula(text(a));
        }
        ("k", None) => {
            cell.set_blank();
        }
        ("l", Some(a)) => {
            cell.set_value_lazy(text(a));
        }
        ("y", None) => {
            cell.get_style_mut().get_font_mut().set_bold(true);
        }
        _ => return false,
    }
    true
}

fn report_diffs(out: &mut Out, line: &str, w: &str, stored: &[Vec<CellD>], got: &[Vec<CellD>]) -> bool {
    let mut seen: Vec<String> = vec![];
    let mut fails: Vec<Fail> = vec![];
    let mut push = |what: &str, sheet: usize, s: Option<&CellD>, g: Option<&CellD>| {
        let c = s.or(g).unwrap();
        let key = format!("{}/{}/{}/{}", what, s.map(|x| x.kind.as_str()).unwrap_or("-"), s.map(|x| (x.formula != "~") as u8).unwrap_or(9), g.map(|x| x.kind.as_str()).unwrap_or("-"));
        if seen.contains(&key) || seen.len() >= 8 {
            return;
        }
        seen.push(key);
        let nruns = |x: &CellD| if x.runs == "~" { "-".to_string() } else if x.runs == "-" { "0".to_string() } else { x.runs.split('+').count().to_string() };
        fails.push(
            Fail::new("roundtrip")
                .with("op", line)
                .with("writer", w)
                .with("what", what)
                .with("sheet", sheet.to_string())
                .with("coord", format!("{},{}", c.col, c.row))
                .with("kind", s.map(|x| x.kind.clone()).unwrap_or("-".into()))
                .with("formula", s.map(|x| if x.formula != "~" { "1" } else { "0" }).unwrap_or("-"))
                .with("runs", s.map(nruns).unwrap_or("-".into()))
                .with("lazy", s.map(|x| if x.lazy { "1" } else { "0" }).unwrap_or("-"))
                .with("got_kind", g.map(|x| x.kind.clone()).unwrap_or("-".into()))
                .with("stored", s.map(|x| x.render()).unwrap_or("-".into()))
                .with("reloaded", g.map(|x| x.render()).unwrap_or("-".into())),
        );
    };
    if stored.len() != got.len() {
        out.oracle_fail(Fail::new("roundtrip").with("op", line).with("writer", w).with("what", "sheet-count"));
        return false;
    }
    for (si, (s, g)) in stored.iter().zip(got.iter()).enumerate() {
        let s: Vec<&CellD> = s.iter().filter(|c| !c.blank_unstyled()).collect();
        let g: Vec<&CellD> = g.iter().filter(|c| !c.blank_unstyled()).collect();
        let (mut i, mut j) = (0, 0);
        while i < s.len() || j < g.len() {
            let ks = s.get(i).map(|c| (c.row, c.col));
            let kg = g.get(j).map(|c| (c.row, c.col));
            match (ks, kg) {
                (Some(a), Some(b)) if a == b => {
                    let (x, y) = (s[i], g[j]);
                    if x.kind != y.kind {
                        push("kind", si, Some(x), Some(y));
                    } else if x.val != y.val {
                        push("value", si, Some(x), Some(y));
                    } else if x.formula != y.formula {
                        push("formula", si, Some(x), Some(y));
                    } else if x.styled != y.styled {
                        push("styled", si, Some(x), Some(y));
                    }
                    i += 1;
                    j += 1;
                }
                (Some(a), Some(b)) if a < b => {
                    push("missing", si, Some(s[i]), None);
                    i += 1;
                }
                (Some(_), None) => {
                    push("missing", si, Some(s[i]), None);
                    i += 1;
                }
                _ => {
                    push("extra", si, None, Some(g[j]));
                    j += 1;
                }
            }
        }
    }
    let ok = fails.is_empty();
    for f in fails {
        out.oracle_fail(f);
    }
    ok
}

/// special and random doubles
fn gen_f64(rng: &mut Rng) -> f64 {
    const SPECIAL: [f64; 22] = [
        0.0, -0.0, 1.0, -1.0, 0.1, 0.2, 0.30000000000000004, 1e300, -1e300, 1e-300, 5e-324, -5e-324, 2.2250738585072014e-308, 2.225073858507201e-308,
        1.7976931348623157e308, -1.7976931348623157e308, 123456789012345680.0, 9007199254740993.0, 1e21, 1e-7, 4.35, 1e22,
    ];
    match rng.below(10) {
        0..=2 => SPECIAL[rng.below(SPECIAL.len() as u64) as usize],
        3..=4 => (rng.below(2_000_001) as f64 - 1_000_000.0) / [1.0, 10.0, 100.0, 1000.0][rng.below(4) as usize],
        5 => rng.below(1 << 20) as f64,
        _ => loop {
            let v = f64::from_bits(rng.next());
            if v.is_finite() {
                break v;
            }
        },
    }
}

pub fn exec(out: &mut Out, st: &mut State, line: &str) -> (String, bool) {
    let a: Vec<&str> = line.split(' ').collect();
    match a.get(1).copied().unwrap_or("") {
        "reset" => {
            let n: usize = a[2].parse().unwrap_or(1);
            *st = State::new(n.max(1));
            ("ok".into(), false)
        }
        "op" => {
            // op <sheet> <col> <row> <name> [arg] [num=…]
            let (s, col, row): (usize, u32, u32) = (a[2].parse().unwrap(), a[3].parse().unwrap(), a[4].parse().unwrap());
            let name = a[5];
            let arg = a.get(6).copied();
            let r = guard(|| {
                let ws = st.book.get_sheet_mut(&s).unwrap();
                let cell = ws.get_cell_mut((col, row));
                if !apply_op(cell, name, arg) {
                    return "bad-op".to_string();
                }
                if let CellRawValue::Numeric(v) = cell.get_raw_value() {
                    if !numfmt_ok(*v) {
                        return format!("numfmt {:016x}", v.to_bits());
                    }
                }
                obs(cell)
            });
            if let Ok(x) = &r {
                if let Some(bits) = x.strip_prefix("numfmt ") {
                    out.oracle_fail(Fail::new("numfmt-hypothesis").with("op", line).with("bits", bits));
                    return ("numfmt-hypothesis-fails".into(), true);
                }
                if x.starts_with("n ") {
                    out.count("numfmt.checked");
                }
            }
            match r {
                Ok(x) => (x, true),
                Err(_) => ("panic".into(), false),
            }
        }
        "shift" => {
            // shift <sheet> <remrow|insrow|remcol|inscol> <p> <n>: a structural edit between building and
            // saving (the row table / indexes the writer depends on must follow the cells). The model of C01
            // does not follow formula adjustment, so the driver answers `unmodelled` until the next reset;
            // the implementation-level oracle (stored == reloaded) still decides these cases.
            let s: usize = a[2].parse().unwrap();
            let (p, n): (u32, u32) = (a[4].parse().unwrap(), a[5].parse().unwrap());
            let kind = a[3].to_string();
            let r = guard(|| {
                let ws = st.book.get_sheet_mut(&s).unwrap();
                match kind.as_str() {
                    "remrow" => ws.remove_row(&p, &n),
                    "insrow" => ws.insert_new_row(&p, &n),
                    "remcol" => ws.remove_column_by_index(&p, &n),
                    _ => ws.insert_new_column_by_index(&p, &n),
                }
            });
            (if r.is_ok() { "unmodelled".to_string() } else { "panic".to_string() }, r.is_ok())
        }
        "dump" => {
            let r = guard(|| render_dump(&dump_book(&st.book, st.nsheets)));
            (r.unwrap_or("panic".into()), true)
        }
        "save" => {
            let light = a[2] == "light";
            let n = st.nsheets;
            match guard(|| save_bytes(&st.book, light).and_then(|b| package_facts(&b, n).map(|f| (b, f)))) {
                Ok(Ok((b, f))) => {
                    out.count_n("saved.bytes", b.len() as u64);
                    st.saved[light as usize] = Some((b, f.clone()));
                    (f, true)
                }
                Ok(Err(e)) => {
                    out.oracle_fail(Fail::new("save-failed").with("op", line).with("detail", e));
                    ("err".into(), false)
                }
                Err(_) => {
                    out.oracle_fail(Fail::new("save-panic").with("op", line));
                    ("panic".into(), false)
                }
            }
        }
        "load" => {
            let light = a[2] == "light";
            let bytes = match &st.saved[light as usize] {
                Some((b, _)) => b.clone(),
                None => return ("bad-op".into(), false),
            };
            let n = st.nsheets;
            let stored = match guard(|| expected_book(&st.book, n)) {
                Ok(s) => s,
                Err(_) => {
                    out.oracle_fail(Fail::new("load-panic").with("op", line).with("detail", "resolving the stored lazy values"));
                    return ("panic".into(), false);
                }
            };
            match guard(|| umya_spreadsheet::reader::xlsx::read_reader(Cursor::new(bytes), true)) {
                Ok(Ok(book)) => {
                    let got = match guard(|| dump_book(&book, n)) {
                        Ok(g) => g,
                        Err(_) => {
                            out.oracle_fail(Fail::new("load-panic").with("op", line).with("detail", "dump of the reloaded book"));
                            return ("panic".into(), false);
                        }
                    };
                    if report_diffs(out, line, a[2], &stored, &got) {
                        out.oracle_ok();
                    }
                    (render_dump(&got), true)
                }
                Ok(Err(e)) => {
                    out.oracle_fail(Fail::new("load-failed").with("op", line).with("detail", format!("{:?}", e)));
                    ("err".into(), false)
                }
                Err(_) => {
                    out.oracle_fail(Fail::new("load-panic").with("op", line));
                    ("panic".into(), false)
                }
            }
        }
        "chars" => {
            // chars <w> drop=… <sst hex|~> <sheets hex>: the character-level leg. The parts in the request are those of the
            // package saved from the workbook without the cells that hold a non-XML character (`st.twin`); the reply is what the
            // library reloads from that package, in the vocabulary of the model's character-level reader
            let light = a[2] == "light";
            let bytes = match &st.twin[light as usize] {
                Some((b, _)) => b.clone(),
                None => return ("bad-op".into(), false),
            };
            let n = st.nsheets;
            match guard(|| umya_spreadsheet::reader::xlsx::read_reader(Cursor::new(bytes), true).map(|b| chars_view(&dump_book(&b, n)))) {
                Ok(Ok(got)) => {
                    out.count_n("chars.cells", got.iter().map(|s| s.iter().filter(|c| !c.blank_unstyled()).count() as u64).sum());
                    (format!("render=same xml {}", render_dump(&got)), true)
                }
                Ok(Err(e)) => {
                    out.oracle_fail(Fail::new("load-failed").with("op", "c01 chars").with("detail", format!("{:?}", e)));
                    ("err".into(), false)
                }
                Err(_) => ("panic".into(), false),
            }
        }
        "charsorig" => {
            // charsorig <sst hex|~> <sheets hex>: the parts of the package as saved, when some text holds a non-XML character
            let mut bad = 0;
            if a[2] != "~" && !all_xml(&String::from_utf8_lossy(&unhex(a[2]))) {
                bad += 1;
            }
            for p in a[3].split('|') {
                if !all_xml(&String::from_utf8_lossy(&unhex(p))) {
                    bad += 1;
                }
            }
            out.count_n("chars.nonxml.parts", bad);
            (format!("nonxml-parts={} rejected={}", bad, bad), true)
        }
        "rawload" => {
            // rawload cells=<facts> sst=<facts>: a package whose sheet1 / sharedStrings parts are synthesised from the facts
            // (raw, hand-made content: entities, character references, padding, inline strings, bad indices) is read by the
            // real reader; correspondence only (ties the model READER on inputs the writer never produces)
            let r = guard(|| synth_package(a[2], a[3]).and_then(|b| umya_spreadsheet::reader::xlsx::read_reader(Cursor::new(b), true).map_err(|e| format!("{:?}", e))));
            match r {
                Ok(Ok(book)) => match guard(|| render_dump(&dump_book(&book, 1))) {
                    Ok(d) => (d, true),
                    Err(_) => ("panic".into(), true),
                },
                Ok(Err(e)) => {
                    out.notes.push(format!("rawload error: {}", e));
                    ("err".into(), false)
                }
                Err(_) => ("panic".into(), true),
            }
        }
        "nums" => {
            // nums <n> <seed>: n doubles in column A of a fresh one-sheet workbook, saved (standard writer) and reloaded;
            // oracle: identical bits; also samples the trusted facts about f64 Display/FromStr
            let n: u32 = a[2].parse().unwrap();
            let mut rng = Rng::new(a[3].parse::<u64>().unwrap() ^ 0xF64);
            let vals: Vec<f64> = (0..n).map(|_| gen_f64(&mut rng)).collect();
            let r = guard(|| {
                let mut book = umya_spreadsheet::new_file();
                {
                    let ws = book.get_sheet_mut(&0).unwrap();
                    for (i, v) in vals.iter().enumerate() {
                        ws.get_cell_mut((1, i as u32 + 1)).set_value_number(*v);
                    }
                }
                let bytes = save_bytes(&book, false)?;
                let back = umya_spreadsheet::reader::xlsx::read_reader(Cursor::new(bytes), true).map_err(|e| format!("{:?}", e))?;
                let ws = back.get_sheet(&0).unwrap();
                let mut bad = vec![];
                for (i, v) in vals.iter().enumerate() {
                    let got = ws.get_cell((1, i as u32 + 1)).and_then(|c| c.get_value_number());
                    if got.map(|g| g.to_bits()) != Some(v.to_bits()) {
                        bad.push(format!("{:?} (bits {:016x}) reloaded as {:?}", v, v.to_bits(), got));
                    }
                    let t = format!("{}", v);
                    let shape = !t.is_empty() && t.chars().all(|c| "-0123456789.eE+infNa".contains(c));
                    if !shape || t.parse::<f64>().map(|x| x.to_bits()) != Ok(v.to_bits()) {
                        bad.push(format!("f64 Display/FromStr assumption fails on bits {:016x}: {:?}", v.to_bits(), t));
                    }
                }
                Ok::<Vec<String>, String>(bad)
            });
            out.count_n("nums.doubles", n as u64);
            match r {
                Ok(Ok(bad)) if bad.is_empty() => {
                    out.oracle_ok();
                    ("ok".into(), true)
                }
                Ok(Ok(bad)) => {
                    out.oracle_fail(Fail::new("number-roundtrip").with("op", line).with("detail", bad[..bad.len().min(5)].join("; ")));
                    ("ok".into(), true)
                }
                _ => {
                    out.oracle_fail(Fail::new("number-roundtrip").with("op", line).with("detail", "save or reload failed"));
                    ("ok".into(), false)
                }
            }
        }
        _ => ("bad-op".into(), false),
    }
}

// ------------------------------------------------------------------------------------ generator

const PIECES: [&str; 46] = [
    "&", "<", ">", "\"", "'", "\r", "\n", "\t", " ", "\r\n", "]]>", "\u{1}", "\u{a0}", "\u{2028}", "\u{fffe}", "\u{1f600}", "a", "Z", "é", "日本", ";", "&amp;", "&#13;", "&lt", "#", "TRUE", "true",
    "123", "#N/A", "1e5", "-0", "FALSE", "fal\u{17f}e", "#d\u{131}v/0!", "inf", "NaN", "+.5e-3", "1.", "0x10", "1_000", "#VALUE!", "\u{b}", "\u{3000}", "\u{85}", "x y", "=",
];
const BLANKS: [&str; 8] = [" ", "\t", "\n", "\r", "\r\n", "\u{a0}", "\u{2028}", "  "];
const WHOLE: [&str; 30] = [
    "TRUE", "true", "False", "123", "#N/A", "#n/a", "1e5", "-0", "", "inf", "-inf", "NaN", "nan", "infinity", "+.5e-3", "1.", ".5", "1e", "e5", ".", "+", "-", "1.50", "0010", "#DIV/0!", "#NAME?", "#NULL!", "#NUM!", "#REF!",
    "#DATA!",
];
const FORMULAS: [&str; 14] = [
    "A1+1", "SUM(A1:B2)", "A1&\"x\"", "IF(A1<B1,\"<\",\">\")", " A1 ", "", "1<2", "A1&\"&amp;\"", "\"a\nb\"", "A1 ", "\tA1", "  ", "'My Sheet'!A1", "A1&\"\r\"",
];
const ERRORS: [&str; 8] = ["#DIV/0!", "#N/A", "#NAME?", "#NULL!", "#NUM!", "#REF!", "#VALUE!", "#DATA!"];

fn gen_text(rng: &mut Rng) -> String {
    match rng.below(100) {
        0..=14 => WHOLE[rng.below(WHOLE.len() as u64) as usize].to_string(),
        20..=22 => {
            // long texts of equal length that differ in one place only (end / start / middle): an interning
            // key that does not look at the whole text would merge two of them (cf. C12 `tok_text`)
            let d = rng.below(3);
            match rng.below(3) {
                0 => format!("{}{}", "L".repeat(1100), d),
                1 => format!("{}{}", d, "M".repeat(1100)),
                _ => format!("{}{}{}", "A".repeat(700), d, "B".repeat(700)),
            }
        }
        15..=19 => {
            // only blanks
            (0..rng.range(1, 3)).map(|_| *rng.pick(&BLANKS[..])).collect::<String>()
        }
        _ => {
            let mut s = String::new();
            if rng.chance(1, 4) {
                s.push_str(*rng.pick(&BLANKS[..]));
            }
            for _ in 0..rng.range(0, 5) {
                s.push_str(*rng.pick(&PIECES[..]));
            }
            if rng.chance(1, 4) {
                s.push_str(*rng.pick(&BLANKS[..]));
            }
            s
        }
    }
}
fn gen_pos(rng: &mut Rng) -> (u32, u32) {
    const COLS: [u32; 9] = [1, 2, 26, 27, 702, 703, 16383, 16384, 3];
    const ROWS: [u32; 9] = [1, 2, 9, 10, 99, 100, 1048575, 1048576, 3];
    let col = if rng.chance(1, 3) { *rng.pick(&COLS[..]) } else { rng.range(1, 12) as u32 };
    let row = if rng.chance(1, 3) { *rng.pick(&ROWS[..]) } else { rng.range(1, 40) as u32 };
    (col, row)
}
fn guess_hint(t: &str) -> String {
    match t.parse::<f64>() {
        Ok(v) => format!(" num={}", v),
        Err(_) => String::new(),
    }
}
fn gen_runs(rng: &mut Rng) -> String {
    if rng.chance(1, 40) {
        return "-".into();
    }
    (0..rng.range(1, 3))
        .map(|_| {
            let f = match rng.below(3) {
                0 => "~".to_string(),
                k => k.to_string(),
            };
            format!("{}:{}", f, hex(&gen_text(rng)))
        })
        .collect::<Vec<_>>()
        .join("+")
}
/// the op lines (without the `c01 op <s> <col> <row>` prefix) that build one cell
fn gen_cell_ops(rng: &mut Rng, out: &mut Out) -> Vec<String> {
    let value_op = |rng: &mut Rng, out: &mut Out| -> String {
        match rng.below(100) {
            0..=24 => {
                out.count("kind.set_value");
                let t = gen_text(rng);
                format!("v {}{}", hex(&t), guess_hint(&t))
            }
            25..=44 => {
                out.count("kind.string");
                format!("s {}", hex(&gen_text(rng)))
            }
            45..=64 => {
                out.count("kind.number");
                format!("n {}", gen_f64(rng))
            }
            65..=71 => {
                out.count("kind.bool");
                format!("b {}", rng.below(2))
            }
            72..=84 => {
                out.count("kind.rich");
                format!("r {}", gen_runs(rng))
            }
            85..=96 => {
                out.count("kind.error");
                let e = if rng.chance(1, 6) { gen_text(rng) } else if rng.chance(1, 5) { rng.pick(&ERRORS[..]).to_lowercase() } else { rng.pick(&ERRORS[..]).to_string() };
                format!("e {}{}", hex(&e), guess_hint(&e))
            }
            97 => {
                out.count("kind.lazy");
                let t = gen_text(rng);
                format!("l {}{}", hex(&t), guess_hint(&t))
            }
            _ => {
                out.count("kind.blank");
                "k".to_string()
            }
        }
    };
    let mut ops = vec![];
    match rng.below(100) {
        0..=69 => ops.push(value_op(rng, out)),
        70..=89 => {
            // formula with a cached result of some kind
            out.count("kind.formula");
            let f = if rng.chance(1, 5) { gen_text(rng) } else { rng.pick(&FORMULAS[..]).to_string() };
            if rng.chance(1, 2) {
                ops.push(value_op(rng, out));
                ops.push(format!("f {}", hex(&f)));
            } else {
                ops.push(format!("f {}", hex(&f)));
                if rng.chance(3, 4) {
                    let t = gen_text(rng);
                    ops.push(format!("d {}{}", hex(&t), guess_hint(&t)));
                }
            }
        }
        90..=93 => {
            out.count("kind.styled_blank");
            ops.push("y".into());
        }
        94..=96 => {
            out.count("kind.styled_value");
            ops.push(value_op(rng, out));
            ops.push("y".into());
        }
        _ => {
            out.count("kind.touch");
            ops.push("k".into());
        }
    }
    ops
}

pub fn run(out: &mut Out, tier: Tier, seed: u64, replay: Option<Vec<String>>) {
    let mut st = State::new(1);
    let mut do_line = |out: &mut Out, st: &mut State, l: &str| {
        // a `load` request carries the facts of the matching save (recomputed here, also on replay)
        let a: Vec<&str> = l.split(' ').collect();
        let full = if a.get(1) == Some(&"load") {
            let light = a.get(2) == Some(&"light");
            match &st.saved[light as usize] {
                Some((_, f)) => format!("c01 load {} {}", a[2], f),
                None => return,
            }
        } else if a.get(1) == Some(&"charsorig") {
            return; // re-issued by the `chars` line that follows (also on replay)
        } else if a.get(1) == Some(&"chars") {
            // the character-level leg: built from the saved package of this writer (also on replay)
            let light = a.get(2) == Some(&"light");
            let n = st.nsheets;
            let saved = match &st.saved[light as usize] {
                Some((b, _)) => b.clone(),
                None => return,
            };
            let (sst, sheets) = match parts_of(&saved, n) {
                Ok(x) => x,
                Err(_) => return,
            };
            let clean = sst.as_ref().map(|s| all_xml(s)).unwrap_or(true) && sheets.iter().all(|s| all_xml(s));
            if clean {
                out.count("chars.books.xml");
                count_chars_leg(out, &st.book, n);
                st.twin[light as usize] = Some((saved, "~".into()));
                format!("c01 chars {} drop=~ {}", a[2], parts_hex(&sst, &sheets))
            } else {
                out.count("chars.books.nonxml");
                // first: the parts as saved are rejected by an XML 1.0 reader
                let orig = format!("c01 charsorig {}", parts_hex(&sst, &sheets));
                out.begin(&orig);
                let (r, nt) = exec(out, st, &orig);
                out.count("op.charsorig");
                out.end(&orig, &r, nt);
                // then the leg on the workbook without the cells that hold such a character
                let (twin, drop) = xml_twin(&st.book, n);
                out.count_n("chars.dropped.nonxml-cells", drop.len() as u64);
                let tb = match guard(|| save_bytes(&twin, light)) {
                    Ok(Ok(b)) => b,
                    _ => return,
                };
                let (tsst, tsheets) = match parts_of(&tb, n) {
                    Ok(x) => x,
                    Err(_) => return,
                };
                count_chars_leg(out, &twin, n);
                let d = drop.join(",");
                st.twin[light as usize] = Some((tb, d.clone()));
                format!("c01 chars {} drop={} {}", a[2], d, parts_hex(&tsst, &tsheets))
            }
        } else {
            l.to_string()
        };
        out.begin(&full);
        let (r, nt) = exec(out, st, &full);
        let kind = full.split(' ').nth(1).unwrap_or("?").to_string();
        out.count(&format!("op.{}", kind));
        if r == "panic" {
            out.count(&format!("panic.{}", kind));
        }
        out.end(&full, &r, nt);
    };
    if let Some(lines) = replay {
        for l in lines {
            if !l.trim().is_empty() {
                do_line(out, &mut st, &l);
            }
        }
        return;
    }
    let mut rng = Rng::new(seed ^ 0xC01);
    let (books, num_batches) = if tier == Tier::Thorough { (5000, 2000) } else { (300, 20) };
    // the witnesses of the defects repaired by fix 1-6 and of the known finding, first
    let witnesses: Vec<Vec<String>> = vec![
        vec!["e 234e2f41".into()],                                   // #N/A
        vec!["n 5".into(), "f 41312b31".into()],                     // formula, cached number
        vec!["s 20782020".into(), "f 4131".into()],                  // formula, cached " x  "
        vec!["b 1".into(), "f 4131".into()],
        vec!["e 234449562f3021".into(), "f 41312f30".into()],        // formula, cached #DIV/0!
        vec!["s 78".into(), "f 20413120".into()],                    // formula text " A1 "
        vec!["r ~:61".into(), "f 4131".into()],                      // fix 5: rich text cached under a formula
        vec!["r -".into()],                                          // KNOWN: rich text without runs
        vec!["l 616263".into()],                                     // fix 6: unresolved lazy value "abc"
        vec!["s 610d0a62".into()],                                   // a\r\nb
        vec!["r 1:7820+~:79".into(), "f 4231264331".into()],         // fix 5: two runs under B1&C1
        vec!["l 313233 num=123".into()],                             // fix 6: lazy "123"
        vec!["l 54525545".into()],                                   // fix 6: lazy "TRUE"
        vec!["l 31653520".into()],                                   // fix 6: lazy "1e5 " (trailing blank: not a number) -> text
        vec!["l 316535 num=100000".into()],                          // fix 6: lazy "1e5" -> 100000
        vec!["l 616263".into(), "f 4131".into()],                    // fix 6: lazy "abc" under a formula
        vec!["l 313233 num=123".into(), "f 4131".into()],            // fix 6: lazy "123" under a formula
        vec!["l 234e2f61".into(), "f 4131".into()],                  // fix 6: lazy "#N/a" under a formula -> error
        vec!["l -".into()],                                          // fix 6: lazy "" (blank: not written)
        vec!["l -".into(), "f 4131".into()],                         // fix 6: lazy "" under a formula
        vec!["l -".into(), "y".into()],                              // fix 6: lazy "" with a style
        vec!["r -".into(), "f 4131".into()],                         // KNOWN: rich text without runs, under a formula
    ];
    for b in 0..books {
        let n = if b == 0 { 1 } else { rng.range(1, 4) as usize };
        do_line(out, &mut st, &format!("c01 reset {}", n));
        let ncells = if b == 0 { 0 } else if rng.chance(1, 10) { rng.range(0, 5) } else if rng.chance(1, 8) { rng.range(250, 400) } else { rng.range(20, 160) };
        out.count(&format!("book.sheets.{}", n));
        out.count(&format!("book.cells.{}", if ncells < 6 { "0-5" } else if ncells < 100 { "6-99" } else if ncells < 250 { "100-249" } else { "250-400" }));
        if b == 0 {
            for (i, w) in witnesses.iter().enumerate() {
                for op in w {
                    do_line(out, &mut st, &format!("c01 op 0 1 {} {}", i + 1, op));
                }
            }
        }
        for _ in 0..ncells {
            let s = rng.below(n as u64);
            let (col, row) = gen_pos(&mut rng);
            for op in gen_cell_ops(&mut rng, out) {
                do_line(out, &mut st, &format!("c01 op {} {} {} {}", s, col, row, op));
            }
        }
        if b > 0 && b % 5 == 0 {
            for _ in 0..rng.range(1, 2) {
                let s = rng.below(n as u64);
                let kind = *rng.pick(&["remrow", "insrow", "remcol", "inscol"]);
                do_line(out, &mut st, &format!("c01 shift {} {} {} {}", s, kind, rng.range(1, 6), rng.range(1, 2)));
                out.count("book.structural-edit-before-save");
            }
        }
        do_line(out, &mut st, "c01 dump");
        for w in ["std", "light"] {
            do_line(out, &mut st, &format!("c01 save {}", w));
            do_line(out, &mut st, &format!("c01 load {}", w));
            do_line(out, &mut st, &format!("c01 chars {}", w));
        }
    }
    let raws = if tier == Tier::Thorough { 40_000 } else { 3_000 };
    do_line(out, &mut st, "c01 reset 1");
    for _ in 0..raws {
        let l = gen_rawload(&mut rng);
        do_line(out, &mut st, &l);
    }
    for i in 0..num_batches {
        do_line(out, &mut st, &format!("c01 nums 500 {}", seed.wrapping_mul(1000).wrapping_add(i)));
    }
}
