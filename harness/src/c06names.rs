//! C06 — where defined names live: the `<definedNames>` list the workbook writer emits, the reader's
//! re-homing loop, after histories that remove / insert sheets while sheets carry scoped names.
//!
//! Cases: `c06 reset nm <seed>` (generated) and `c06 reset nmw <id>` (witnesses).  One tie line per case:
//! `c06 nm <titles> <names> <ops>` — the book BEFORE the history as read off the real objects
//! (scope/name/localSheetId/address text/sheet of the first area), the history, and as reply what the
//! real code did: sheet count after the history, the raw `<definedName>` elements of the saved
//! workbook.xml in order (name/localSheetId/text) and the reloaded homes (scope/name/localSheetId/text).
//! The model (Umya/Model/AnnotNames.lean through Umya/Driver/C06Names.lean) applies the same history
//! to the same book and must print the same line.
//! Oracle on the implementation (no model involved): for books that are stable by construction, the
//! (scope, name, address) lists before saving equal the lists after reload, list by list, in order;
//! for the others the multiset of (name, address) is kept.
use crate::common::*;
use crate::wb;
use umya_spreadsheet::structs::*;

pub const WITNESSES: &[&str] = &["remove-first-of-three", "remove-first-of-two", "remove-middle", "insert-front", "unstable-moves", "wb-id-out-of-range"];

fn unescape(s: &str) -> String {
    s.replace("&lt;", "<").replace("&gt;", ">").replace("&quot;", "\"").replace("&apos;", "'").replace("&amp;", "&")
}

fn lsid(d: &DefinedName) -> String {
    if d.has_local_sheet_id() { d.get_local_sheet_id().to_string() } else { "~".into() }
}

fn first_area_sheet(d: &DefinedName) -> String {
    let (_, a) = d.verif_parts();
    match a.first() {
        Some((s, _)) => format!("={}", hex(s)),
        None => "~".into(),
    }
}

fn scoped_items(book: &Spreadsheet, with_first: bool) -> Vec<String> {
    let mut v = vec![];
    let item = |sc: String, d: &DefinedName| {
        let mut s = format!("{}/{}/{}/{}", sc, hex(d.get_name()), lsid(d), hex(&d.get_address()));
        if with_first {
            s.push('/');
            s.push_str(&first_area_sheet(d));
        }
        s
    };
    for d in book.get_defined_names() {
        v.push(item("w".into(), d));
    }
    for i in 0..book.get_sheet_count() {
        for d in book.get_sheet(&i).unwrap().get_defined_names() {
            v.push(item(i.to_string(), d));
        }
    }
    v
}

/// (scope, name, address) per list — what the property says must survive
fn identity(book: &Spreadsheet) -> Vec<(String, String, String)> {
    let mut v = vec![];
    for d in book.get_defined_names() {
        v.push(("w".to_string(), d.get_name().to_string(), d.get_address()));
    }
    for i in 0..book.get_sheet_count() {
        for d in book.get_sheet(&i).unwrap().get_defined_names() {
            v.push((i.to_string(), d.get_name().to_string(), d.get_address()));
        }
    }
    v
}

/// every name is stored where the property says it lives: a name on sheet k is scoped to k or, unscoped,
/// has a first area on sheet k; a workbook-level name is unscoped and its first area names no sheet
fn is_stable(book: &Spreadsheet) -> bool {
    let titles: Vec<String> = (0..book.get_sheet_count()).map(|i| book.get_sheet(&i).unwrap().get_name().to_string()).collect();
    let first = |d: &DefinedName| d.verif_parts().1.first().map(|(s, _)| s.clone());
    let pos = |t: &str| titles.iter().position(|x| x == t);
    for d in book.get_defined_names() {
        if d.has_local_sheet_id() || first(d).and_then(|t| pos(&t)).is_some() {
            return false;
        }
    }
    for (i, _) in titles.iter().enumerate() {
        for d in book.get_sheet(&i).unwrap().get_defined_names() {
            let ok = if d.has_local_sheet_id() { *d.get_local_sheet_id() as usize == i } else { first(d).and_then(|t| pos(&t)) == Some(i) };
            if !ok {
                return false;
            }
        }
    }
    true
}

fn make_name(name: &str, text: &str, local: Option<u32>) -> DefinedName {
    // `set_name` is crate-private: go through a scratch worksheet
    let mut tmp = Worksheet::default();
    let _ = tmp.add_defined_name(name.to_string(), text.to_string());
    let mut d = tmp.get_defined_names()[0].clone();
    if let Some(k) = local {
        d.set_local_sheet_id(k);
    }
    d
}

#[derive(Clone)]
enum Op {
    Remove(usize),
    Insert(usize, String),
}

fn apply(book: &mut Spreadsheet, op: &Op) {
    match op {
        Op::Remove(i) => {
            let _ = book.remove_sheet(*i);
        }
        Op::Insert(i, t) => {
            if book.new_sheet(t.clone()).is_ok() {
                let coll = book.get_sheet_collection_mut();
                let ws = coll.pop().unwrap();
                let at = (*i).min(coll.len());
                coll.insert(at, ws);
            }
        }
    }
}

struct Case {
    book: Spreadsheet,
    ops: Vec<Op>,
    /// every name is stored where the reader puts it, before and after the history
    stable: bool,
}

fn book_with(titles: &[&str]) -> Spreadsheet {
    let mut b = umya_spreadsheet::new_file_empty_worksheet();
    for t in titles {
        let _ = b.new_sheet(t.to_string());
    }
    b
}

fn witness(id: &str) -> Option<Case> {
    match id {
        "remove-first-of-three" => {
            // C06_defined_names_after_remove_sheet_unfixed_fails
            let mut b = book_with(&["S1", "S2", "S3"]);
            b.get_sheet_mut(&1).unwrap().add_defined_names(make_name("A", "$A$1", Some(1)));
            Some(Case { book: b, ops: vec![Op::Remove(0)], stable: true })
        }
        "remove-first-of-two" => {
            // C06_defined_names_after_remove_sheet_unfixed_panics
            let mut b = book_with(&["S1", "S2"]);
            b.get_sheet_mut(&1).unwrap().add_defined_names(make_name("A", "$A$1", Some(1)));
            Some(Case { book: b, ops: vec![Op::Remove(0)], stable: true })
        }
        "remove-middle" => {
            // the non-vacuity book of C06_defined_names_rehome_roundtrip, middle sheet removed
            let mut b = book_with(&["S1", "S2", "S3"]);
            b.add_defined_names(make_name("Rate", "0.5", None));
            b.add_defined_names(make_name("Gone", "Old!$A$1", None));
            b.get_sheet_mut(&0).unwrap().add_defined_names(make_name("A", "S1!$A$1", Some(0)));
            b.get_sheet_mut(&1).unwrap().add_defined_names(make_name("A", "S1!$A$2", Some(1)));
            b.get_sheet_mut(&1).unwrap().add_defined_names(make_name("B", "S2!$B$1,S1!$B$2", None));
            b.get_sheet_mut(&2).unwrap().add_defined_names(make_name("A", "S3!$A$1", Some(2)));
            b.get_sheet_mut(&2).unwrap().add_defined_names(make_name("C", "1.5", Some(2)));
            Some(Case { book: b, ops: vec![Op::Remove(1)], stable: true })
        }
        "insert-front" => {
            let mut b = book_with(&["S1", "S2"]);
            b.get_sheet_mut(&0).unwrap().add_defined_names(make_name("A", "S1!$A$1", Some(0)));
            b.get_sheet_mut(&1).unwrap().add_defined_names(make_name("A", "S2!$A$1", Some(1)));
            b.get_sheet_mut(&1).unwrap().add_defined_names(make_name("B", "S2!$B$1", None));
            // C06_defined_names_insert_front_fails: ids do not follow a sheet put in front through the collection
            Some(Case { book: b, ops: vec![Op::Insert(0, "New".into())], stable: false })
        }
        "unstable-moves" => {
            // C06_defined_names_unstable_moves
            let mut b = book_with(&["S1", "S2"]);
            b.add_defined_names(make_name("N", "S2!$A$1", None));
            b.get_sheet_mut(&0).unwrap().add_defined_names(make_name("M", "S2!$A$1", None));
            b.get_sheet_mut(&0).unwrap().add_defined_names(make_name("E", "1+1", Some(1)));
            Some(Case { book: b, ops: vec![], stable: false })
        }
        "wb-id-out-of-range" => {
            // C06_defined_names_read_out_of_range: a workbook-level name with a localSheetId that names no sheet
            let mut b = book_with(&["S1", "S2"]);
            b.add_defined_names(make_name("N", "S2!$A$1", Some(9)));
            Some(Case { book: b, ops: vec![], stable: false })
        }
        _ => None,
    }
}

fn gen_case(out: &mut Out, seed: u64) -> Case {
    let mut rng = Rng::new(seed ^ 0xC06_4A3E);
    let n = rng.range(2, 6) as usize;
    let mut titles: Vec<String> = vec![];
    for _ in 0..n {
        let t = wb::sheet_name(&mut rng, &titles);
        titles.push(t);
    }
    // titles that will be inserted later must not collide either
    let mut all_titles = titles.clone();
    let mut b = umya_spreadsheet::new_file_empty_worksheet();
    for t in &titles {
        let _ = b.new_sheet(t.clone());
    }
    let mut stable = b.get_sheet_count() == n;
    let unstable_case = rng.chance(1, 5);
    let area = |rng: &mut Rng, sheet: &str| -> String {
        match rng.below(4) {
            0 => format!("{}!$A$1", wb::quote_sheet(sheet)),
            1 => format!("{}!$B$2:$C$7", wb::quote_sheet(sheet)),
            2 => format!("{s}!$A$1,{s}!$D$4:$E$5", s = wb::quote_sheet(sheet)),
            _ => format!("{}!$A:$B", wb::quote_sheet(sheet)),
        }
    };
    for si in 0..b.get_sheet_count() {
        for k in 0..rng.below(5) {
            let name = format!("N{}_{}", si, k);
            let kind = rng.below(10);
            let d = match kind {
                // scoped, pointing at its own sheet
                0..=2 => make_name(&name, &area(&mut rng, &titles[si]), Some(si as u32)),
                // scoped, pointing at another sheet / at no sheet / a constant / a formula
                3 => {
                    let o = rng.below(n as u64) as usize;
                    make_name(&name, &area(&mut rng, &titles[o]), Some(si as u32))
                }
                4 => make_name(&name, *rng.pick(&["1.5", "\"text, with comma\"", "$A$1", "Gone!$A$1", "SUM(1,2)"]), Some(si as u32)),
                // the print area, scoped
                5 => make_name("_xlnm.Print_Area", &area(&mut rng, &titles[si]), Some(si as u32)),
                // scoped to ANOTHER sheet than the one it is stored on (the id wins on reload: moves)
                6 => {
                    if unstable_case {
                        let o = rng.below(n as u64) as usize;
                        if o != si {
                            stable = false;
                        }
                        make_name(&name, &area(&mut rng, &titles[si]), Some(o as u32))
                    } else {
                        make_name(&name, "SUM(1,2)", Some(si as u32))
                    }
                }
                // not scoped, homed by its first area
                7 | 8 => make_name(&name, &area(&mut rng, &titles[si]), None),
                // not scoped and stored on a sheet its first area does not name: moves on reload
                _ => {
                    if unstable_case {
                        let o = rng.below(n as u64) as usize;
                        if o != si {
                            stable = false;
                        }
                        make_name(&name, &area(&mut rng, &titles[o]), None)
                    } else {
                        make_name(&name, &area(&mut rng, &titles[si]), None)
                    }
                }
            };
            out.count(&format!("nm.name-kind.{}", kind));
            b.get_sheet_mut(&si).unwrap().add_defined_names(d);
        }
    }
    for k in 0..rng.below(4) {
        let name = format!("W{}", k);
        let d = match rng.below(4) {
            0 => make_name(&name, "0.5", None),
            1 => make_name(&name, "\"a\"&\"b\"", None),
            2 => make_name(&name, "'No such sheet'!$A$1", None),
            _ => {
                if unstable_case {
                    stable = false;
                    let o = rng.below(n as u64) as usize;
                    make_name(&name, &area(&mut rng, &titles[o]), None)
                } else {
                    make_name(&name, "$C$3", None)
                }
            }
        };
        b.add_defined_names(d);
    }
    // history: removals and insertions while the sheets carry scoped names
    let mut ops = vec![];
    let mut count = n;
    for _ in 0..rng.below(4) {
        if count > 1 && rng.chance(2, 3) {
            let i = rng.below(count as u64) as usize;
            out.count(if i + 1 == count { "nm.op.remove-last" } else { "nm.op.remove-earlier" });
            ops.push(Op::Remove(i));
            count -= 1;
        } else {
            let t = wb::sheet_name(&mut rng, &all_titles);
            all_titles.push(t.clone());
            let i = rng.below(count as u64 + 1) as usize;
            out.count(if i == count { "nm.op.insert-end" } else { "nm.op.insert-before" });
            if i < count {
                // no API inserts in front; done through the collection, the ids do not follow
                stable = false;
            }
            ops.push(Op::Insert(i, t));
            count += 1;
        }
    }
    if rng.chance(1, 12) {
        // out of range: Err, nothing changes
        out.count("nm.op.remove-out-of-range");
        ops.push(Op::Remove(count + rng.below(3) as usize));
    }
    // an inserted sheet takes over workbook-level names that name it: none do (fresh titles, the
    // workbook-level addresses name no generated title unless `unstable_case`)
    Case { book: b, ops, stable }
}

pub fn run_case(out: &mut Out, header: &str) {
    let a: Vec<&str> = header.split(' ').collect();
    out.begin(header);
    let case = match a.get(2) {
        Some(&"nmw") => match witness(a.get(3).copied().unwrap_or("")) {
            Some(c) => c,
            None => {
                out.oracle_fail(Fail::new("case-build-failed").with("op", header));
                out.end(header, "ok", false);
                return;
            }
        },
        _ => gen_case(out, a.get(3).and_then(|x| x.parse().ok()).unwrap_or(0)),
    };
    out.end(header, "ok", false);
    out.count(&format!("case.{}", a[2]));
    let Case { mut book, ops, stable } = case;
    let titles: Vec<String> = (0..book.get_sheet_count()).map(|i| hex(book.get_sheet(&i).unwrap().get_name())).collect();
    let items = scoped_items(&book, true);
    let ops_s: Vec<String> = ops
        .iter()
        .map(|o| match o {
            Op::Remove(i) => format!("r{}", i),
            Op::Insert(i, t) => format!("i{}:{}", i, hex(t)),
        })
        .collect();
    let join = |v: &[String]| if v.is_empty() { "-".to_string() } else { v.join(",") };
    let line = format!("c06 nm {} {} {}", join(&titles), join(&items), join(&ops_s));
    out.begin(&line);
    for o in &ops {
        apply(&mut book, o);
    }
    let before = identity(&book);
    // the hypothesis of C06_defined_names_rehome_roundtrip evaluated on the real objects
    let stable_now = is_stable(&book);
    if stable && !stable_now {
        out.count("nm.case.built-stable-but-not-stable");
    }
    let stable = stable_now;
    let stale = (0..book.get_sheet_count())
        .map(|i| book.get_sheet(&i).unwrap().get_defined_names().iter().filter(|d| d.has_local_sheet_id() && *d.get_local_sheet_id() as usize != i).count())
        .sum::<usize>();
    out.count_n("nm.names", before.len() as u64);
    out.count_n("nm.names-with-stale-id-at-save", stale as u64);
    out.count(if stale > 0 { "nm.case.stale-ids" } else { "nm.case.current-ids" });
    out.count(if stable { "nm.case.stable" } else { "nm.case.unstable" });
    let bytes = match guard(|| wb::save_bytes(&book, false)) {
        Ok(Ok(b)) => b,
        _ => {
            out.oracle_fail(Fail::new("names-save-failed").with("op", &line));
            out.end(&line, "save-failed", true);
            return;
        }
    };
    let parts = unzip_all(&bytes).unwrap_or_default();
    let wbx = parts.iter().find(|(n, _)| n == "xl/workbook.xml").map(|(_, b)| String::from_utf8_lossy(b).to_string()).unwrap_or_default();
    let raw: Vec<String> = scan_between(&wbx, "<definedName ", "</definedName>")
        .into_iter()
        .map(|s| {
            let mut it = s.splitn(2, '>');
            let tag = it.next().unwrap_or("");
            let text = it.next().unwrap_or("");
            let tag = format!("<definedName {}", tag);
            format!(
                "{}/{}/{}",
                hex(&unescape(attr_of(&tag, "name").unwrap_or("?"))),
                attr_of(&tag, "localSheetId").map(|x| x.to_string()).unwrap_or("~".into()),
                hex(&unescape(text))
            )
        })
        .collect();
    let n_after = book.get_sheet_count();
    let back = guard(|| umya_spreadsheet::reader::xlsx::read_reader(std::io::Cursor::new(&bytes[..]), true));
    let r = match &back {
        Ok(Ok(bk)) => join(&scoped_items(bk, false)),
        Ok(Err(_)) => "err".to_string(),
        Err(_) => "panic".to_string(),
    };
    // oracle on the implementation
    match &back {
        Ok(Ok(bk)) => {
            let after = identity(bk);
            if stable {
                if before == after {
                    out.oracle_ok();
                } else {
                    out.oracle_fail(
                        Fail::new("names-rehome-mismatch")
                            .with("op", &line)
                            .with("before", format!("{:?}", before))
                            .with("after", format!("{:?}", after)),
                    );
                }
            } else {
                let key = |v: &Vec<(String, String, String)>| {
                    let mut k: Vec<(String, String)> = v.iter().map(|(_, n, a)| (n.clone(), a.clone())).collect();
                    k.sort();
                    k
                };
                if key(&before) == key(&after) {
                    out.oracle_ok();
                    out.count(if before == after { "nm.unstable.nothing-moved" } else { "nm.unstable.moved" });
                } else {
                    out.oracle_fail(Fail::new("names-lost-or-changed").with("op", &line).with("before", format!("{:?}", before)).with("after", format!("{:?}", after)));
                }
            }
        }
        _ => {
            if a.get(2) == Some(&"nmw") && a.get(3) == Some(&"wb-id-out-of-range") {
                // the reader's unwrap on a localSheetId that names no sheet: predicted by the model
                // (C06_defined_names_read_out_of_range); only an API-made workbook-level name gets there
                out.count("nm.reload-panic.wb-level-id-out-of-range");
            } else {
                out.oracle_fail(Fail::new("names-reload-failed").with("op", &line).with("reload", &r));
            }
        }
    }
    out.count("tie.nm");
    out.end(&line, &format!("n={};w={};r={}", n_after, join(&raw), r), true);
}

pub fn gen(tier: Tier, rng: &mut Rng) -> Vec<String> {
    let mut v = vec![];
    for w in WITNESSES {
        v.push(format!("c06 reset nmw {}", w));
    }
    for _ in 0..(if tier == Tier::Thorough { 3000 } else { 300 }) {
        v.push(format!("c06 reset nm {}", rng.next() % 1_000_000_007));
    }
    v
}
