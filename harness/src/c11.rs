//! C11 — lazy loading is equivalent to eager loading for every access pattern.
//!
//! One case = one file (corpus or generated), opened twice: lazily (`L`, the object under test) and
//! eagerly (`E`, the oracle).  Every request is applied to both.  Observations:
//!   * after each request: which sheets of `L` are still raw (observed through the public
//!     `get_sheet`, which refuses raw sheets), and the sheet names — compared with the model;
//!   * `dump i`: full public-getter dump of sheet i of `L` against the same sheet of `E` (oracle);
//!   * `save`: `L` and `E` are written to memory.  The package of `L` is taken apart by an
//!     independent skeleton reader (zip + quick-xml, nothing of the crate): part names, every
//!     `_rels/*.rels` with resolved targets, content types, workbook.xml sheets ↔ workbook.xml.rels ↔
//!     sheet parts.  The skeleton facts are compared with the model's prediction (correspondence);
//!     validity, byte-identity of copied raw sheets and their closure, and `reopen(L-save)` ==
//!     `reopen(E-save)` sheet by sheet are the implementation-level oracle.
use crate::common::*;
use std::collections::{BTreeMap, BTreeSet};
use std::io::Cursor;
use umya_spreadsheet::structs::{Spreadsheet, Worksheet};

// ------------------------------------------------------------------------------------------------
// hashing / small helpers

pub fn fnv64(b: &[u8]) -> u64 {
    let mut h: u64 = 0xcbf29ce484222325;
    for x in b {
        h ^= *x as u64;
        h = h.wrapping_mul(0x100000001b3);
    }
    h
}
fn h8(s: &str) -> String {
    format!("{:08x}", fnv64(s.as_bytes()) & 0xffff_ffff)
}

// ------------------------------------------------------------------------------------------------
// full dump of a deserialized worksheet through public getters (section name, hash of the section)

/// remove every `key<value>` (value = up to the next `,` or ` }`) from a Debug rendering
fn strip_field(s: &str, key: &str) -> String {
    let mut out = String::with_capacity(s.len());
    let mut rest = s;
    while let Some(i) = rest.find(key) {
        out.push_str(&rest[..i]);
        let r = &rest[i + key.len()..];
        let j = r.find(|c| c == ',' || c == '}').unwrap_or(r.len());
        rest = &r[j..];
    }
    out.push_str(rest);
    out
}

pub fn dump_full(ws: &Worksheet) -> Vec<(&'static str, String)> {
    let mut v: Vec<(&'static str, String)> = vec![];
    v.push(("name", hex(ws.get_name())));
    v.push(("state", h8(&format!("{:?}/{}", ws.get_state(), ws.get_sheet_state()))));
    v.push(("code", h8(&format!("{:?}", ws.get_code_name()))));
    v.push(("tab", h8(&format!("{:?}", ws.get_tab_color()))));
    v.push(("active", h8(ws.get_active_cell())));
    // table indices are compared resolved (DESIGN 2.5a): a number format is its format code, not the id it got in numFmts
    let cells: Vec<String> = ws.get_cell_collection_sorted().iter().map(|c| strip_field(&strip_field(&format!("{:?}", c), "number_format_id: "), "is_build_in: ")).collect();
    v.push(("ncells", cells.len().to_string()));
    v.push(("cells", h8(&cells.join("\n"))));
    let mut rows: Vec<(u32, String)> = ws.get_row_dimensions_to_hashmap().iter().map(|(k, r)| (*k, format!("{:?}", r))).collect();
    rows.sort();
    v.push(("rows", h8(&format!("{:?}", rows))));
    v.push(("cols", h8(&format!("{:?}", ws.get_column_dimensions()))));
    v.push(("merge", h8(&format!("{:?}", ws.get_merge_cells()))));
    v.push(("comments", h8(&format!("{:?}", ws.get_comments()))));
    v.push(("cf", h8(&format!("{:?}", ws.get_conditional_formatting_collection()))));
    v.push(("af", h8(&format!("{:?}", ws.get_auto_filter()))));
    v.push(("dv", h8(&format!("{:?}", ws.get_data_validations()))));
    v.push(("drawing", h8(&format!("{:?}", ws.get_worksheet_drawing()))));
    v.push(("ole", h8(&format!("{:?}", ws.get_ole_objects()))));
    v.push(("tables", h8(&format!("{:?}", ws.get_tables()))));
    v.push(("pivots", h8(&format!("{:?}", ws.get_pivot_tables()))));
    v.push(("pagesetup", h8(&format!("{:?}", ws.get_page_setup()))));
    v.push(("margins", h8(&format!("{:?}", ws.get_page_margins()))));
    v.push(("hf", h8(&format!("{:?}", ws.get_header_footer()))));
    v.push(("views", h8(&format!("{:?}", ws.get_sheets_views()))));
    v.push(("fmt", h8(&format!("{:?}", ws.get_sheet_format_properties()))));
    v.push(("print", h8(&format!("{:?}", ws.get_print_options()))));
    v.push(("prot", h8(&format!("{:?}", ws.get_sheet_protection()))));
    v.push(("breaks", h8(&format!("{:?}{:?}", ws.get_row_breaks(), ws.get_column_breaks()))));
    v.push(("names", h8(&format!("{:?}", ws.get_defined_names()))));
    v
}
fn dump_diff(a: &[(&'static str, String)], b: &[(&'static str, String)]) -> Vec<&'static str> {
    a.iter().zip(b.iter()).filter(|(x, y)| x != y).map(|(x, _)| x.0).collect()
}
/// the sections that legitimately follow a rename: the name itself and the sheet's own defined names
fn same_but_name(want: &mut Vec<(&'static str, String)>, got: &[(&'static str, String)], renamed: bool) {
    want[0] = got[0].clone();
    if renamed {
        for (w, g) in want.iter_mut().zip(got.iter()) {
            if w.0 == "names" {
                *w = g.clone();
            }
        }
    }
}
fn stable<'a>(d: Vec<&'static str>, st: &State, i: usize) -> Vec<&'static str> {
    match st.origin.get(i).copied().flatten() {
        Some(k) => d.into_iter().filter(|x| !st.unstable[k].contains(x)).collect(),
        None => d,
    }
}
fn dump_hash(a: &[(&'static str, String)]) -> String {
    h8(&a.iter().map(|(k, v)| format!("{}={}", k, v)).collect::<Vec<_>>().join(";"))
}

// ------------------------------------------------------------------------------------------------
// independent package skeleton reader

#[derive(Clone, Debug)]
pub struct RelE {
    pub id: String,
    pub ty: String,
    pub target: String,
    pub external: bool,
    pub resolved: String,
}
#[derive(Default)]
pub struct Skel {
    pub order: Vec<String>,
    pub parts: BTreeMap<String, Vec<u8>>,
    pub dups: Vec<String>,
    pub rels: BTreeMap<String, Vec<RelE>>,
    pub ct_default: BTreeMap<String, String>,
    pub ct_override: BTreeMap<String, String>,
    pub wb_sheets: Vec<(String, String, String)>, // name, sheetId, r:id
    pub bad_xml: Vec<String>,
}

/// `a/b/_rels/c.xml.rels` → (`a/b/c.xml`, `a/b`); `_rels/.rels` → (``, ``)
pub fn rels_source(name: &str) -> Option<(String, String)> {
    let (dir, file) = match name.rfind('/') {
        Some(i) => (&name[..i], &name[i + 1..]),
        None => ("", name),
    };
    let base = dir.strip_suffix("_rels")?;
    let base = base.strip_suffix('/').unwrap_or(base);
    let src_file = file.strip_suffix(".rels")?;
    let src = if src_file.is_empty() {
        String::new()
    } else if base.is_empty() {
        src_file.to_string()
    } else {
        format!("{}/{}", base, src_file)
    };
    Some((src, base.to_string()))
}
pub fn rels_name_of(part: &str) -> String {
    match part.rfind('/') {
        Some(i) => format!("{}/_rels/{}.rels", &part[..i], &part[i + 1..]),
        None => format!("_rels/{}.rels", part),
    }
}
pub fn resolve(base: &str, target: &str) -> String {
    let full = if let Some(t) = target.strip_prefix('/') { t.to_string() } else if base.is_empty() { target.to_string() } else { format!("{}/{}", base, target) };
    let mut out: Vec<&str> = vec![];
    for seg in full.split('/') {
        match seg {
            "" | "." => {}
            ".." => {
                out.pop();
            }
            s => out.push(s),
        }
    }
    out.join("/")
}

fn xml_attrs(e: &quick_xml::events::BytesStart) -> BTreeMap<String, String> {
    let mut m = BTreeMap::new();
    for a in e.attributes().with_checks(false).flatten() {
        let k = String::from_utf8_lossy(a.key.into_inner()).to_string();
        let v = a.unescape_value().map(|x| x.to_string()).unwrap_or_else(|_| String::from_utf8_lossy(&a.value).to_string());
        m.insert(k, v);
    }
    m
}
/// every start/empty element of an XML part as (local name, attributes); Err on malformed XML
fn xml_elements(bytes: &[u8]) -> Result<Vec<(String, BTreeMap<String, String>)>, String> {
    use quick_xml::events::Event;
    let mut r = quick_xml::Reader::from_reader(bytes);
    let mut buf = Vec::new();
    let mut out = vec![];
    loop {
        match r.read_event_into(&mut buf) {
            Ok(Event::Start(e)) | Ok(Event::Empty(e)) => {
                let n = String::from_utf8_lossy(e.local_name().into_inner()).to_string();
                out.push((n, xml_attrs(&e)));
            }
            Ok(Event::Eof) => break,
            Ok(_) => {}
            Err(e) => return Err(e.to_string()),
        }
        buf.clear();
    }
    Ok(out)
}

pub fn skeleton(buf: &[u8]) -> Result<Skel, String> {
    let mut s = Skel::default();
    for (name, bytes) in unzip_all(buf)? {
        if name.ends_with('/') {
            continue;
        }
        s.order.push(name.clone());
        if s.parts.insert(name.clone(), bytes).is_some() {
            s.dups.push(name);
        }
    }
    for (name, bytes) in &s.parts {
        if name.ends_with(".rels") {
            if let Some((_, base)) = rels_source(name) {
                match xml_elements(bytes) {
                    Ok(els) => {
                        let mut v = vec![];
                        for (n, a) in els {
                            if n == "Relationship" {
                                let target = a.get("Target").cloned().unwrap_or_default();
                                let external = a.get("TargetMode").map(|x| x == "External").unwrap_or(false);
                                v.push(RelE {
                                    id: a.get("Id").cloned().unwrap_or_default(),
                                    ty: a.get("Type").cloned().unwrap_or_default(),
                                    resolved: if external { String::new() } else { resolve(&base, &target) },
                                    target,
                                    external,
                                });
                            }
                        }
                        s.rels.insert(name.clone(), v);
                    }
                    Err(_) => s.bad_xml.push(name.clone()),
                }
            }
        }
    }
    if let Some(b) = s.parts.get("[Content_Types].xml") {
        match xml_elements(b) {
            Ok(els) => {
                for (n, a) in els {
                    if n == "Default" {
                        s.ct_default.insert(a.get("Extension").cloned().unwrap_or_default().to_lowercase(), a.get("ContentType").cloned().unwrap_or_default());
                    } else if n == "Override" {
                        s.ct_override.insert(a.get("PartName").cloned().unwrap_or_default(), a.get("ContentType").cloned().unwrap_or_default());
                    }
                }
            }
            Err(_) => s.bad_xml.push("[Content_Types].xml".into()),
        }
    }
    if let Some(b) = s.parts.get("xl/workbook.xml") {
        match xml_elements(b) {
            Ok(els) => {
                for (n, a) in els {
                    if n == "sheet" {
                        s.wb_sheets.push((
                            a.get("name").cloned().unwrap_or_default(),
                            a.get("sheetId").cloned().unwrap_or_default(),
                            a.get("r:id").or_else(|| a.get("id")).cloned().unwrap_or_default(),
                        ));
                    }
                }
            }
            Err(_) => s.bad_xml.push("xl/workbook.xml".into()),
        }
    }
    Ok(s)
}

impl Skel {
    /// the part each workbook sheet resolves to (through xl/_rels/workbook.xml.rels), in workbook order
    pub fn sheet_parts(&self) -> Vec<Option<String>> {
        let wr = self.rels.get("xl/_rels/workbook.xml.rels");
        self.wb_sheets
            .iter()
            .map(|(_, _, rid)| wr.and_then(|v| v.iter().find(|r| &r.id == rid)).map(|r| r.resolved.clone()))
            .collect()
    }
    /// independent validity check of the package skeleton; every problem is a keyed string
    pub fn problems(&self) -> BTreeSet<String> {
        let mut p = BTreeSet::new();
        for d in &self.dups {
            p.insert(format!("dup-part:{}", d));
        }
        for b in &self.bad_xml {
            p.insert(format!("bad-xml:{}", b));
        }
        for (name, rels) in &self.rels {
            let (src, _) = rels_source(name).unwrap();
            if !src.is_empty() && !self.parts.contains_key(&src) {
                p.insert(format!("rels-without-source:{}", name));
            }
            let mut ids = BTreeSet::new();
            for r in rels {
                if !ids.insert(r.id.clone()) {
                    p.insert(format!("dup-rid:{}#{}", name, r.id));
                }
                if !r.external && !self.parts.contains_key(&r.resolved) {
                    p.insert(format!("dangling:{}->{}", name, r.resolved));
                }
            }
        }
        for name in self.parts.keys() {
            if name == "[Content_Types].xml" {
                continue;
            }
            let ext = name.rsplit('.').next().unwrap_or("").to_lowercase();
            if !self.ct_override.contains_key(&format!("/{}", name)) && !self.ct_default.contains_key(&ext) {
                p.insert(format!("no-content-type:{}", name));
            }
        }
        for part in self.ct_override.keys() {
            if !self.parts.contains_key(part.trim_start_matches('/')) {
                p.insert(format!("override-without-part:{}", part));
            }
        }
        // a numbered part (drawing, comments, table, chart, …) belongs to one owner
        let mut owners: BTreeMap<&str, BTreeSet<&str>> = BTreeMap::new();
        for (name, rels) in &self.rels {
            for r in rels {
                if !r.external && family_of(&r.resolved).is_some() {
                    owners.entry(&r.resolved).or_default().insert(name);
                }
            }
        }
        for (t, o) in owners {
            if o.len() > 1 {
                p.insert(format!("shared-target:{}", t));
            }
        }
        // workbook.xml sheets ↔ workbook.xml.rels ↔ sheet parts
        let sp = self.sheet_parts();
        let mut seen = BTreeSet::new();
        let mut names = BTreeSet::new();
        let mut sids = BTreeSet::new();
        for (i, (name, sid, _)) in self.wb_sheets.iter().enumerate() {
            if !names.insert(name.clone()) {
                p.insert(format!("dup-sheet-name:{}", hex(name)));
            }
            if !sids.insert(sid.clone()) {
                p.insert(format!("dup-sheet-id:{}", sid));
            }
            match &sp[i] {
                None => {
                    p.insert(format!("sheet-without-rel:{}", i + 1));
                }
                Some(t) => {
                    if !self.parts.contains_key(t) {
                        p.insert(format!("sheet-part-missing:{}", i + 1));
                    }
                    if !seen.insert(t.clone()) {
                        p.insert(format!("sheet-part-shared:{}", t));
                    }
                }
            }
        }
        if self.wb_sheets.is_empty() {
            p.insert("no-sheets".into());
        }
        for name in self.parts.keys() {
            if name.starts_with("xl/worksheets/") && !name.contains("/_rels/") && !seen.contains(name) {
                p.insert(format!("orphan-sheet-part:{}", name));
            }
        }
        p
    }
    /// the relationship closure of a part, the way `RawWorksheet::read` gathers it: children first
    pub fn closure(&self, part: &str, out: &mut Vec<String>, depth: usize) {
        if depth > 12 {
            return;
        }
        let rn = rels_name_of(part);
        if let Some(rels) = self.rels.get(&rn) {
            for r in rels {
                if !r.external {
                    self.closure(&r.resolved, out, depth + 1);
                }
            }
            out.push(rn);
        }
    }
    /// the depth of the relationship closure of a part: the length of the longest chain of relationship parts
    /// followed from it (no relationship part = 0, the part's own only = 1, sheet -> drawing = 2, ...); capped like `closure`
    pub fn closure_depth(&self, part: &str, depth: usize) -> usize {
        if depth > 12 {
            return 0;
        }
        match self.rels.get(&rels_name_of(part)) {
            Some(rels) => 1 + rels.iter().filter(|r| !r.external).map(|r| self.closure_depth(&r.resolved, depth + 1)).max().unwrap_or(0),
            None => 0,
        }
    }
}

/// parts that belong to the workbook level (not written by the per-sheet machinery); outside the model
fn workbook_level(name: &str) -> bool {
    matches!(
        name,
        "[Content_Types].xml" | "_rels/.rels" | "xl/workbook.xml" | "xl/_rels/workbook.xml.rels" | "xl/styles.xml" | "xl/sharedStrings.xml" | "xl/theme/theme1.xml" | "xl/vbaProject.bin"
    ) || name.starts_with("docProps/")
        || name.starts_with("customUI/")
}

// ------------------------------------------------------------------------------------------------
// descriptions for the model

/// what a raw sheet holds, structured: the sheet part, a hash of its bytes, and the closure of relationship parts
/// (children first), every relationship external (`None`) or (target, zero-length?, hash of the bytes)
#[derive(Clone, Debug, PartialEq)]
pub struct RawDesc {
    pub part: String,
    pub hash: u64,
    pub closure: Vec<(String, Vec<Option<(String, bool, u64)>>)>,
}
/// the raw sheet the reader should record for `part`, computed from the harness' own zip scan of the file
pub fn raw_of_skel(sk: &Skel, part: &str) -> RawDesc {
    let mut cl = vec![];
    sk.closure(part, &mut cl, 0);
    RawDesc {
        part: part.to_string(),
        hash: sk.parts.get(part).map(|b| fnv64(b)).unwrap_or(0),
        closure: cl
            .iter()
            .map(|rn| {
                (
                    rn.clone(),
                    sk.rels[rn]
                        .iter()
                        .map(|r| {
                            if r.external {
                                None
                            } else {
                                let b = sk.parts.get(&r.resolved);
                                Some((r.resolved.clone(), b.map(|b| b.is_empty()).unwrap_or(true), b.map(|b| fnv64(b)).unwrap_or(0)))
                            }
                        })
                        .collect(),
                )
            })
            .collect(),
    }
}
/// what the implementation holds for every sheet (hook `verif_raw_state`): `None` = deserialized
pub fn raws_of_book(book: &Spreadsheet) -> Vec<Option<RawDesc>> {
    book.verif_raw_state()
        .into_iter()
        .map(|s| {
            s.map(|(part, hash, _len, closure)| RawDesc {
                part,
                hash,
                closure: closure
                    .into_iter()
                    .map(|(rn, rels)| (rn, rels.into_iter().map(|(ext, t, h, len)| if ext { None } else { Some((t, len == 0, h)) }).collect()))
                    .collect(),
            })
        })
        .collect()
}
/// `<part>:<relspart>><entry>,<entry>+<relspart>>…:<hash>` ; entry = `x` (external) or `<target>.<0|1>.<hash>` (1 = empty data)
pub fn render_raw(d: &RawDesc) -> String {
    let rp: Vec<String> = d
        .closure
        .iter()
        .map(|(rn, rels)| {
            let es: Vec<String> = rels
                .iter()
                .map(|r| match r {
                    None => "x".to_string(),
                    Some((t, empty, h)) => format!("{}.{}.{:016x}", hex(t), if *empty { 1 } else { 0 }, h),
                })
                .collect();
            format!("{}>{}", hex(rn), es.join(","))
        })
        .collect();
    format!("{}:{}:{:016x}", hex(&d.part), rp.join("+"), d.hash)
}
fn describe_raw(sk: &Skel, part: &str) -> String {
    render_raw(&raw_of_skel(sk, part))
}
/// the package as the model's reader sees it: every zip entry `<name>.<hash>.<0|1>` and, for a relationships part,
/// `><entry>,…` with entry = `x` (external) or `<resolved target>`
fn describe_pkg(sk: &Skel) -> String {
    let mut seen = BTreeSet::new();
    sk.order
        .iter()
        .filter(|n| seen.insert((*n).clone()))
        .map(|n| {
            let b = &sk.parts[n];
            let head = format!("{}.{:016x}.{}", hex(n), fnv64(b), if b.is_empty() { 1 } else { 0 });
            match sk.rels.get(n) {
                Some(rels) => format!("{}>{}", head, rels.iter().map(|r| if r.external { "x".to_string() } else { hex(&r.resolved) }).collect::<Vec<_>>().join(",")),
                None => head,
            }
        })
        .collect::<Vec<_>>()
        .join(";")
}

// name classes, as the model has them (`isSheetName`, `isRelsName`, `reserved`, `targetOk`, `hygienic`)
fn is_sheet_name(n: &str) -> bool {
    n.strip_prefix("xl/worksheets/sheet").and_then(|x| x.strip_suffix(".xml")).map(|m| !m.is_empty() && m.bytes().all(|b| b.is_ascii_digit()) && (m == "0" || !m.starts_with('0'))).unwrap_or(false)
}
fn is_rels_name(n: &str) -> bool {
    let v: Vec<&str> = n.split('/').collect();
    v.len() >= 2 && v[v.len() - 2] == "_rels" && v[v.len() - 1].ends_with(".rels") && v[v.len() - 1].len() > 5
}
fn reserved(n: &str) -> bool {
    matches!(
        n,
        "[Content_Types].xml" | "_rels/.rels" | "xl/workbook.xml" | "xl/styles.xml" | "xl/sharedStrings.xml" | "xl/theme/theme1.xml" | "xl/vbaProject.bin" | "docProps/app.xml" | "docProps/core.xml" | "docProps/custom.xml" | "xl/_rels/workbook.xml.rels"
    )
}
fn target_ok(n: &str) -> bool {
    !is_sheet_name(n) && !is_rels_name(n) && !reserved(n)
}
pub fn hygienic(d: &RawDesc) -> bool {
    !is_rels_name(&d.part)
        && !reserved(&d.part)
        && d.closure.iter().all(|(rn, rels)| {
            let src_ok = is_rels_name(rn)
                && match rels_source(rn) {
                    Some((src, _)) => src == d.part || d.closure.iter().any(|(_, rs)| rs.iter().any(|r| matches!(r, Some((t, _, _)) if *t == src))),
                    None => false,
                };
            src_ok && rels.iter().all(|r| match r {
                None => true,
                Some((t, _, _)) => target_ok(t) && *t != d.part,
            })
        })
}
/// names owned by the closure of a raw sheet (relationship parts and non-external targets)
fn closure_names(d: &RawDesc) -> BTreeSet<String> {
    let mut v = BTreeSet::new();
    for (rn, rels) in &d.closure {
        v.insert(rn.clone());
        for r in rels.iter().flatten() {
            v.insert(r.0.clone());
        }
    }
    v
}

const FAMS: [(&str, &str, &str); 8] = [
    ("d", "xl/drawings/drawing", ".xml"),
    ("v", "xl/drawings/vmlDrawing", ".vml"),
    ("m", "xl/comments", ".xml"),
    ("c", "xl/charts/chart", ".xml"),
    ("o", "xl/embeddings/oleObject", ".bin"),
    ("e", "xl/embeddings/Microsoft_Excel_Worksheet", ".xlsx"),
    ("p", "xl/printerSettings/printerSettings", ".bin"),
    ("t", "xl/tables/table", ".xml"),
];
fn family_of(name: &str) -> Option<&'static str> {
    for (k, pre, suf) in FAMS.iter() {
        if let Some(mid) = name.strip_prefix(pre).and_then(|x| x.strip_suffix(suf)) {
            if !mid.is_empty() && mid.bytes().all(|b| b.is_ascii_digit()) && (mid == "0" || !mid.starts_with('0')) {
                return Some(k);
            }
        }
    }
    None
}
/// what the serialiser emitted for one deserialized sheet, as a tree: `F<fam>` (an allocated part of a
/// numbered family) / `N<hex name>` (a part with a fixed name) / `x` (external), children in `(..)`
fn describe_tree(sk: &Skel, part: &str, depth: usize) -> String {
    let rn = rels_name_of(part);
    match sk.rels.get(&rn) {
        None => String::new(),
        Some(rels) if depth > 6 => format!("({})", rels.iter().map(|_| "x").collect::<Vec<_>>().join(",")),
        Some(rels) => {
            let cs: Vec<String> = rels
                .iter()
                .map(|r| {
                    if r.external {
                        "x".to_string()
                    } else {
                        let k = if !sk.parts.contains_key(&r.resolved) {
                            // the serialiser names a part it does not write (dangling in the eager save as well)
                            format!("M{}", hex(&r.resolved))
                        } else {
                            match family_of(&r.resolved) {
                                Some(f) => format!("F{}", f),
                                None => format!("N{}", hex(&r.resolved)),
                            }
                        };
                        format!("{}{}", k, describe_tree(sk, &r.resolved, depth + 1))
                    }
                })
                .collect();
            format!("({})", cs.join(","))
        }
    }
}

// ------------------------------------------------------------------------------------------------
// state

pub struct State {
    pub lazy: Option<Spreadsheet>,
    pub eager: Option<Spreadsheet>,
    /// a second eagerly opened workbook that receives every request too: the control for what differs between two
    /// instances anyway (hash-map order inside the style tables decides e.g. which of two equal number formats is written)
    pub control: Option<Spreadsheet>,
    pub file: String,
    pub bytes: Vec<u8>,
    pub orig: Option<Skel>,
    pub orig_sheet_parts: Vec<String>,
    pub orig_dumps: Vec<Vec<(&'static str, String)>>,
    /// per current sheet: index of the original sheet it came from (None = created by new_sheet)
    pub origin: Vec<Option<usize>>,
    /// per current sheet: was it changed by a request (cell edit, structural edit)
    pub edited: Vec<bool>,
    /// per current sheet: was it renamed (its own defined names follow the new name), or was a sheet removed since open
    /// (defined names are re-numbered by remove_sheet)
    pub renamed: Vec<bool>,
    /// per current sheet: cells written by `edit` requests, with their text
    pub cells: Vec<BTreeMap<(u32, u32), String>>,
    /// per original sheet: dump sections that differ between two eager reads of the same bytes (the reader is not
    /// deterministic there, e.g. the order of drawing objects); they are left out of every comparison
    pub unstable: Vec<Vec<&'static str>>,
    pub dead: bool,
    pub base_dumps: Option<Option<Vec<Vec<(&'static str, String)>>>>,
    /// the closure of every sheet part of the file is hygienic (hypothesis `pkgOk` of the theorems)
    pub pkg_ok: bool,
}
fn bucket(n: usize) -> String {
    match n {
        0..=4 => n.to_string(),
        5..=9 => "5-9".into(),
        10..=19 => "10-19".into(),
        _ => "20+".into(),
    }
}
impl State {
    pub fn new() -> Self {
        State { lazy: None, eager: None, control: None, file: String::new(), bytes: vec![], orig: None, orig_sheet_parts: vec![], orig_dumps: vec![], origin: vec![], edited: vec![], renamed: vec![], cells: vec![], unstable: vec![], dead: true, base_dumps: None, pkg_ok: false }
    }
}

fn repo_dir() -> String {
    std::env::var("UMYA_REPO").unwrap_or_else(|_| format!("{}/../../repo", env!("CARGO_MANIFEST_DIR")))
}

pub const CORPUS_QUICK: [&str; 8] = ["aaa.xlsx", "aaa_2.xlsx", "table.xlsx", "libre2.xlsx", "google.xlsx", "wps_comment.xlsx", "issue_194.xlsx", "openpyxl.xlsx"];

fn read_book(bytes: &[u8], eager: bool) -> Result<Spreadsheet, String> {
    match guard(|| umya_spreadsheet::reader::xlsx::read_reader(Cursor::new(bytes.to_vec()), eager)) {
        Ok(Ok(b)) => Ok(b),
        Ok(Err(e)) => Err(format!("err:{:?}", e)),
        Err(_) => Err("panic".into()),
    }
}
fn save_book(book: &Spreadsheet) -> Result<Vec<u8>, String> {
    match guard(|| {
        let mut buf: Vec<u8> = Vec::new();
        umya_spreadsheet::writer::xlsx::write_writer(book, Cursor::new(&mut buf)).map(|_| buf)
    }) {
        Ok(Ok(b)) => Ok(b),
        Ok(Err(e)) => Err(format!("err:{:?}", e)),
        Err(_) => Err("panic".into()),
    }
}

/// `R` = still raw (the public `get_sheet` refuses it), `L` = deserialized
fn flags(book: &Spreadsheet) -> String {
    (0..book.get_sheet_count()).map(|i| if guard(|| book.get_sheet(&i).is_some()).is_ok() { 'L' } else { 'R' }).collect()
}
fn names(book: &Spreadsheet) -> String {
    book.get_sheet_collection_no_check().iter().map(|s| hex(s.get_name())).collect::<Vec<_>>().join(",")
}
fn status(book: &Spreadsheet) -> String {
    format!("{} {}", flags(book), names(book))
}

// ------------------------------------------------------------------------------------------------
// generated multi-sheet files (built with the library, saved, then reopened lazily by `reset`)

pub fn generate(spec: &str) -> Result<Vec<u8>, String> {
    // spec = g<seed>, or d<seed>: the same file with a chart AND a picture on every sheet (sheet -> drawing -> chart / image:
    // the closure of every sheet has the relationship parts of the sheet and of its drawing)
    if spec.is_empty() || !spec.is_char_boundary(1) {
        return Err("bad spec".into());
    }
    let deep = spec.starts_with('d');
    let seed: u64 = spec[1..].parse().map_err(|_| "bad spec".to_string())?;
    let mut rng = Rng::new(seed ^ 0x11C11);
    let r = guard(|| {
        let mut book = umya_spreadsheet::new_file();
        let n = 2 + rng.below(5) as usize; // 2..6 sheets
        for i in 1..n {
            book.new_sheet(format!("G{}", i + 1)).unwrap();
        }
        let shared = ["alpha", "beta", "gamma", "a&b<c>", " lead", "x\u{e9}y"];
        for i in 0..n {
            let ws = book.get_sheet_mut(&i).unwrap();
            let cells = rng.below(12);
            for _ in 0..cells {
                let c = rng.range(1, 5) as u32;
                let r = rng.range(1, 8) as u32;
                match rng.below(4) {
                    0 => {
                        ws.get_cell_mut((c, r)).set_value_string(*rng.pick(&shared));
                    }
                    1 => {
                        ws.get_cell_mut((c, r)).set_value_number(rng.below(1000) as f64 / 4.0);
                    }
                    2 => {
                        ws.get_cell_mut((c, r)).set_value_string(format!("s{}u{}", i, rng.below(6)));
                    }
                    _ => {
                        ws.get_cell_mut((c, r)).set_value_string(*rng.pick(&shared));
                        ws.get_style_mut((c, r)).set_background_color(format!("FF{:06X}", 0x101010 * (1 + rng.below(5))));
                    }
                }
            }
            if rng.chance(1, 2) {
                let mut cm = umya_spreadsheet::structs::Comment::default();
                cm.new_comment("B2");
                cm.set_text_string(format!("note on sheet {}", i));
                cm.set_author("au");
                ws.add_comments(cm);
            }
            if rng.chance(1, 2) {
                let mut t = umya_spreadsheet::structs::Table::new(&format!("Tbl{}", i + 1), ("A10", "B12"));
                t.set_display_name(&format!("Tbl{}", i + 1));
                t.add_column(umya_spreadsheet::structs::TableColumn::new("h1"));
                t.add_column(umya_spreadsheet::structs::TableColumn::new("h2"));
                ws.get_cell_mut("A10").set_value_string("h1");
                ws.get_cell_mut("B10").set_value_string("h2");
                ws.add_table(t);
            }
            if rng.chance(1, 3) {
                ws.add_merge_cells("D1:E2");
            }
            if rng.chance(1, 3) {
                let mut hl = umya_spreadsheet::structs::Hyperlink::default();
                hl.set_url(format!("https://example.org/{}", i));
                ws.get_cell_mut("F1").set_value_string("link").set_hyperlink(hl);
            }
        }
        // charts whose series live on another sheet (or on their own)
        for i in 0..n {
            if rng.chance(1, 3) || deep {
                let src = if rng.chance(2, 3) { 0 } else { i };
                let src_name = book.get_sheet_collection_no_check()[src].get_name().to_string();
                for r in 1..=3u32 {
                    book.get_sheet_mut(&src).unwrap().get_cell_mut((7, r)).set_value_number((r * 3) as f64);
                }
                let mut from_marker = umya_spreadsheet::structs::drawing::spreadsheet::MarkerType::default();
                let mut to_marker = umya_spreadsheet::structs::drawing::spreadsheet::MarkerType::default();
                from_marker.set_coordinate("H1");
                to_marker.set_coordinate("M12");
                let area = format!("{}!$G$1:$G$3", src_name);
                let mut chart = umya_spreadsheet::structs::Chart::default();
                chart.new_chart(umya_spreadsheet::structs::ChartType::LineChart, from_marker, to_marker, vec![&area]).set_series_title(vec!["S1"]).set_series_point_title(vec!["a", "b", "c"]);
                book.get_sheet_mut(&i).unwrap().add_chart(chart);
            }
        }
        // the same picture on several sheets: the closures of those sheets share the part xl/media/shared.png
        if rng.chance(1, 2) || deep {
            const PNG: [u8; 67] = [
                0x89, 0x50, 0x4E, 0x47, 0x0D, 0x0A, 0x1A, 0x0A, 0x00, 0x00, 0x00, 0x0D, 0x49, 0x48, 0x44, 0x52, 0x00, 0x00, 0x00, 0x01, 0x00, 0x00, 0x00, 0x01, 0x08, 0x06, 0x00, 0x00, 0x00, 0x1F, 0x15, 0xC4, 0x89, 0x00, 0x00, 0x00, 0x0A, 0x49, 0x44,
                0x41, 0x54, 0x78, 0x9C, 0x63, 0x00, 0x01, 0x00, 0x00, 0x05, 0x00, 0x01, 0x0D, 0x0A, 0x2D, 0xB4, 0x00, 0x00, 0x00, 0x00, 0x49, 0x45, 0x4E, 0x44, 0xAE, 0x42, 0x60, 0x82,
            ];
            for i in 0..n {
                if rng.chance(2, 3) || deep {
                    let mut marker = umya_spreadsheet::structs::drawing::spreadsheet::MarkerType::default();
                    marker.set_coordinate("N2");
                    let mut img = umya_spreadsheet::structs::Image::default();
                    img.new_image_with_dimensions(8, 8, "shared.png", PNG.to_vec(), marker);
                    book.get_sheet_mut(&i).unwrap().add_image(img);
                }
            }
        }
        save_book(&book)
    });
    match r {
        Ok(x) => x,
        Err(_) => Err("panic while generating".into()),
    }
}

/// EXPERIMENT (recorded, not an oracle): a package whose relationship graph has a cycle.  The library-made file
/// `d<seed>` (every sheet: drawing with a chart and a picture) is rewritten so that xl/drawings/_rels/drawing1.xml.rels
/// has one more relationship, back to the sheet (`sheet`: sheet1 -> drawing1 -> sheet1) or to the drawing itself
/// (`self`: drawing1 -> drawing1).  `RawWorksheet::read_rawrelationships` follows relationship parts without a visited set.
pub fn make_cyclic(variant: &str) -> Result<Vec<u8>, String> {
    use std::io::Write;
    let bytes = generate("d1")?;
    let sk = skeleton(&bytes)?;
    let target = match variant {
        "sheet" => "../worksheets/sheet1.xml",
        "self" => "../drawings/drawing1.xml",
        "none" => return Ok(bytes),
        _ => return Err("unknown variant".into()),
    };
    let name = "xl/drawings/_rels/drawing1.xml.rels";
    if !sk.parts.contains_key(name) {
        return Err("no drawing relationships in the generated file".into());
    }
    let mut zw = zip::ZipWriter::new(Cursor::new(Vec::new()));
    let opt = zip::write::SimpleFileOptions::default().compression_method(zip::CompressionMethod::Deflated);
    for n in &sk.order {
        let mut data = sk.parts[n].clone();
        if n == name {
            let text = String::from_utf8_lossy(&data).to_string();
            let add = format!("<Relationship Id=\"rId99\" Type=\"http://schemas.openxmlformats.org/officeDocument/2006/relationships/drawing\" Target=\"{}\"/></Relationships>", target);
            if !text.contains("</Relationships>") {
                return Err("relationship part without an end tag".into());
            }
            data = text.replacen("</Relationships>", &add, 1).into_bytes();
        }
        zw.start_file(n.clone(), opt).map_err(|e| e.to_string())?;
        zw.write_all(&data).map_err(|e| e.to_string())?;
    }
    Ok(zw.finish().map_err(|e| e.to_string())?.into_inner())
}

/// child process of the experiment: `umya_harness c11cyclic <lazy|eager|make-sheet|make-self> 0 <file>`; opens the file
/// (and, when that worked, saves it to memory) on the main thread; the exit status / signal is the result
pub fn cyclic_child(mode: &str, path: &str) -> i32 {
    if let Some(v) = mode.strip_prefix("make-") {
        return match make_cyclic(v).and_then(|b| std::fs::write(path, b).map_err(|e| e.to_string())) {
            Ok(()) => 0,
            Err(e) => {
                eprintln!("{}", e);
                1
            }
        };
    }
    let r = if mode == "eager" { umya_spreadsheet::reader::xlsx::read(path) } else { umya_spreadsheet::reader::xlsx::lazy_read(std::path::Path::new(path)) };
    match r {
        Ok(book) => {
            println!("open ok, {} sheets", book.get_sheet_count());
            match save_book(&book) {
                Ok(b) => {
                    println!("save ok, {} bytes", b.len());
                    0
                }
                Err(e) => {
                    println!("save err {}", e);
                    4
                }
            }
        }
        Err(e) => {
            println!("open err {:?}", e);
            3
        }
    }
}

/// parent side of the experiment: both variants, lazy and eager open, each in a child process with a time limit; the
/// outcome is counted (`cyclic.<variant>.<mode>.<outcome>`) and noted, never an oracle failure
/// one variant of the cyclic package opened in a child process: "ok", "overflow-SIGABRT", "exit-N", "timeout", "not-run"
fn cyclic_run(variant: &str, mode: &str) -> String {
    use std::os::unix::process::ExitStatusExt;
    let exe = match std::env::current_exe() {
        Ok(e) => e,
        Err(_) => return "not-run".into(),
    };
    let path = std::env::temp_dir().join(format!("c11_cyc_{}_{}_{}.xlsx", variant, mode, std::process::id()));
    match make_cyclic(variant) {
        Ok(b) => {
            if std::fs::write(&path, b).is_err() {
                return "not-run".into();
            }
        }
        Err(_) => return "not-run".into(),
    }
    let child = std::process::Command::new(&exe).args(["c11cyclic", mode, "0"]).arg(&path).stdout(std::process::Stdio::null()).stderr(std::process::Stdio::null()).spawn();
    let mut child = match child {
        Ok(c) => c,
        Err(_) => return "not-run".into(),
    };
    let t0 = std::time::Instant::now();
    let outcome = loop {
        match child.try_wait() {
            Ok(Some(s)) => {
                break match (s.code(), s.signal()) {
                    (Some(0), _) => "ok".to_string(),
                    (Some(c), _) => format!("exit-{}", c),
                    (None, Some(6)) => "overflow-SIGABRT".to_string(),
                    (None, Some(11)) => "overflow-SIGSEGV".to_string(),
                    (None, Some(sig)) => format!("signal-{}", sig),
                    _ => "unknown".to_string(),
                }
            }
            Ok(None) => {
                if t0.elapsed().as_secs() >= 30 {
                    let _ = child.kill();
                    let _ = child.wait();
                    break "timeout".to_string();
                }
                std::thread::sleep(std::time::Duration::from_millis(20));
            }
            Err(_) => break "unknown".to_string(),
        }
    };
    let _ = std::fs::remove_file(&path);
    outcome
}

fn cyclic_experiment(out: &mut Out) {
    use std::os::unix::process::ExitStatusExt;
    let exe = match std::env::current_exe() {
        Ok(e) => e,
        Err(_) => {
            out.count("cyclic.not-run");
            return;
        }
    };
    for variant in ["sheet", "self"] {
        let path = std::env::temp_dir().join(format!("c11_cyclic_{}_{}.xlsx", variant, std::process::id()));
        match make_cyclic(variant) {
            Ok(b) => {
                if std::fs::write(&path, b).is_err() {
                    out.count("cyclic.not-run");
                    continue;
                }
            }
            Err(e) => {
                out.count("cyclic.not-made");
                out.notes.push(format!("cyclic {}: {}", variant, e));
                continue;
            }
        }
        for mode in ["lazy", "eager"] {
            let child = std::process::Command::new(&exe).args(["c11cyclic", mode, "0"]).arg(&path).stdout(std::process::Stdio::piped()).stderr(std::process::Stdio::piped()).spawn();
            let mut child = match child {
                Ok(c) => c,
                Err(_) => {
                    out.count("cyclic.not-run");
                    continue;
                }
            };
            let t0 = std::time::Instant::now();
            let outcome = loop {
                match child.try_wait() {
                    Ok(Some(s)) => {
                        break match (s.code(), s.signal()) {
                            (Some(0), _) => "ok".to_string(),
                            (Some(c), _) => format!("exit-{}", c),
                            (None, Some(6)) => "overflow-SIGABRT".to_string(),
                            (None, Some(11)) => "overflow-SIGSEGV".to_string(),
                            (None, Some(sig)) => format!("signal-{}", sig),
                            _ => "unknown".to_string(),
                        }
                    }
                    Ok(None) => {
                        if t0.elapsed().as_secs() >= 30 {
                            let _ = child.kill();
                            let _ = child.wait();
                            break "timeout-30s".to_string();
                        }
                        std::thread::sleep(std::time::Duration::from_millis(20));
                    }
                    Err(_) => break "unknown".to_string(),
                }
            };
            let mut text = String::new();
            if let Some(mut so) = child.stdout.take() {
                let _ = std::io::Read::read_to_string(&mut so, &mut text);
            }
            if let Some(mut se) = child.stderr.take() {
                let _ = std::io::Read::read_to_string(&mut se, &mut text);
            }
            // (the thread id in the runtime's message differs from run to run: digits are dropped)
            let text: String = text.lines().filter(|l| !l.trim().is_empty()).take(4).collect::<Vec<_>>().join(" | ").replace(|c: char| c.is_ascii_digit(), "");
            out.count(&format!("cyclic.{}.{}.{}", variant, mode, outcome));
            out.notes.push(format!("cyclic {} {}: {} [{}]", variant, mode, outcome, text));
        }
        let _ = std::fs::remove_file(&path);
    }
}

/// a copy of the package with its sheet parts renamed (sheet1 ↔ sheetN order reversed plus an offset), as
/// foreign producers do: the part number of a sheet is not its position
pub fn permute_sheet_parts(bytes: &[u8]) -> Result<Vec<u8>, String> {
    use std::io::Write;
    let sk = skeleton(bytes)?;
    let sp: Vec<String> = sk.sheet_parts().into_iter().flatten().collect();
    let n = sp.len();
    let mut map: BTreeMap<String, String> = BTreeMap::new();
    for (i, p) in sp.iter().enumerate() {
        if family_or_sheet_no(p).is_none() {
            return Err("sheet part with a foreign name".into());
        }
        map.insert(p.clone(), format!("xl/worksheets/sheet{}.xml", n - i + 2));
    }
    let mut zw = zip::ZipWriter::new(Cursor::new(Vec::new()));
    let opt = zip::write::SimpleFileOptions::default().compression_method(zip::CompressionMethod::Deflated);
    for name in &sk.order {
        let data = &sk.parts[name];
        let (new_name, new_data): (String, Vec<u8>) = if let Some(t) = map.get(name) {
            (t.clone(), data.clone())
        } else if let Some((src, _)) = rels_source(name).filter(|(s, _)| map.contains_key(s)) {
            (rels_name_of(&map[&src]), data.clone())
        } else if name == "xl/_rels/workbook.xml.rels" || name == "[Content_Types].xml" {
            let mut text = String::from_utf8_lossy(data).to_string();
            for (i, p) in sp.iter().enumerate() {
                let short = p.strip_prefix("xl/").unwrap_or(p);
                text = text.replace(&format!("\"{}\"", short), &format!("\"@@{}@@\"", i)).replace(&format!("\"/{}\"", p), &format!("\"/@@{}@@\"", i));
            }
            for (i, p) in sp.iter().enumerate() {
                let t = &map[p];
                let short = t.strip_prefix("xl/").unwrap_or(t);
                text = text.replace(&format!("\"@@{}@@\"", i), &format!("\"{}\"", short)).replace(&format!("\"/@@{}@@\"", i), &format!("\"/{}\"", t));
            }
            (name.clone(), text.into_bytes())
        } else {
            (name.clone(), data.clone())
        };
        zw.start_file(new_name, opt).map_err(|e| e.to_string())?;
        zw.write_all(&new_data).map_err(|e| e.to_string())?;
    }
    Ok(zw.finish().map_err(|e| e.to_string())?.into_inner())
}
fn family_or_sheet_no(p: &str) -> Option<u32> {
    p.strip_prefix("xl/worksheets/sheet").and_then(|x| x.strip_suffix(".xml")).and_then(|x| x.parse().ok())
}

/// file ids: `corpus:<name>`, `gen:g<seed>`, and either with the suffix `~perm`
pub fn load_file(id: &str) -> Result<Vec<u8>, String> {
    let (base, perm) = match id.strip_suffix("~perm") {
        Some(b) => (b, true),
        None => (id, false),
    };
    let bytes = if let Some(n) = base.strip_prefix("corpus:") {
        std::fs::read(format!("{}/tests/test_files/{}", repo_dir(), n)).map_err(|e| e.to_string())?
    } else if let Some(s) = base.strip_prefix("gen:") {
        generate(s)?
    } else {
        return Err("unknown file id".into());
    };
    if perm {
        permute_sheet_parts(&bytes)
    } else {
        Ok(bytes)
    }
}

// ------------------------------------------------------------------------------------------------
// requests

fn both(st: &mut State, f: &dyn Fn(&mut Spreadsheet) -> String) -> (String, String) {
    let l = st.lazy.as_mut().unwrap();
    let rl = guard(|| f(l)).unwrap_or_else(|_| "panic".into());
    let e = st.eager.as_mut().unwrap();
    let re = guard(|| f(e)).unwrap_or_else(|_| "panic".into());
    if let Some(c) = st.control.as_mut() {
        if guard(|| f(c)).map(|r| r != re).unwrap_or(true) {
            st.control = None;
        }
    }
    (rl, re)
}

/// open the file of a case lazily and eagerly; returns the state and, when both opens worked, the description
pub fn open_case(out: &mut Out, id: &str, line: &str) -> (State, Option<String>) {
    let mut st = State::new();
    let bytes = match load_file(id) {
        Ok(b) => b,
        Err(e) => {
            out.count("reset.unreadable");
            out.notes.push(format!("{}: {}", id, e));
            return (st, None);
        }
    };
    let sk = match skeleton(&bytes) {
        Ok(s) => s,
        Err(_) => return (st, None),
    };
    let lazy = read_book(&bytes, false);
    let eager = read_book(&bytes, true);
    match (lazy, eager) {
        (Ok(l), Ok(e)) => {
            let cnt = l.get_sheet_count();
            let sp = sk.sheet_parts();
            if sp.len() != cnt || sp.iter().any(|x| x.is_none()) {
                out.count("reset.sheet-list-unresolved");
                return (st, None);
            }
            st.orig_sheet_parts = sp.iter().map(|x| x.clone().unwrap_or_default()).collect();
            st.orig_dumps = (0..cnt).map(|i| dump_full(e.get_sheet(&i).unwrap())).collect();
            st.unstable = vec![vec![]; cnt];
            if let Ok(e2) = read_book(&bytes, true) {
                for i in 0..cnt {
                    if let Ok(d2) = guard(|| dump_full(e2.get_sheet(&i).unwrap())) {
                        st.unstable[i] = dump_diff(&st.orig_dumps[i], &d2);
                        for sec in &st.unstable[i] {
                            out.count(&format!("inherited.nondeterministic-read.{}", sec));
                        }
                    }
                }
                st.control = Some(e2);
            }
            st.origin = (0..cnt).map(Some).collect();
            st.edited = vec![false; cnt];
            st.renamed = vec![false; cnt];
            st.cells = vec![BTreeMap::new(); cnt];
            let d: Vec<String> = sk.wb_sheets.iter().zip(sp.iter()).map(|((nm, _, _), p)| format!("{}:{}", hex(nm), describe_raw(&sk, p.as_deref().unwrap_or("")))).collect();
            st.lazy = Some(l);
            st.eager = Some(e);
            st.file = id.to_string();
            st.bytes = bytes;
            st.orig = Some(sk);
            st.dead = false;
            out.count(&format!("sheets.{}", cnt.min(9)));
            let x = describe_pkg(st.orig.as_ref().unwrap());
            let raws: Vec<RawDesc> = st.orig_sheet_parts.iter().map(|p| raw_of_skel(st.orig.as_ref().unwrap(), p)).collect();
            let ok = raws.iter().all(hygienic);
            st.pkg_ok = ok;
            out.count(&format!("reset.pkgok.{}", ok as u8));
            let mut owners: BTreeMap<String, usize> = BTreeMap::new();
            for r in &raws {
                let depth = st.orig.as_ref().unwrap().closure_depth(&r.part, 0);
                out.count(&format!("closure.depth.{}", if depth >= 3 { "3+".to_string() } else { depth.to_string() }));
                out.count(&format!("closure.parts.{}", r.closure.len()));
                out.count(&format!("reset.closure-names.{}", bucket(closure_names(r).len())));
                for n in closure_names(r) {
                    *owners.entry(n).or_default() += 1;
                }
            }
            out.count(&format!("reset.names-in-several-closures.{}", bucket(owners.values().filter(|c| **c > 1).count())));
            (st, Some(format!("{} X={}", d.join(";"), x)))
        }
        (l, e) => {
            let (l, e) = (l.err().unwrap_or("ok".into()), e.err().unwrap_or("ok".into()));
            if (l == "ok") != (e == "ok") {
                out.oracle_fail(Fail::new("open-differs").with("op", line).with("file", id).with("lazy", &l).with("eager", &e));
            } else {
                out.count("reset.both-fail");
            }
            (st, None)
        }
    }
}

pub fn exec(out: &mut Out, st: &mut State, line: &str) -> (String, bool) {
    let a: Vec<&str> = line.split(' ').collect();
    if a.len() < 2 {
        return ("bad-op".into(), false);
    }
    let n = |i: usize| -> usize { a.get(i).and_then(|x| x.parse().ok()).unwrap_or(usize::MAX) };
    if a[1] == "cyc" {
        // c11 cyc <variant> W=<sheet parts> X=<package>: the REAL lazy reader on that package, in a child process
        // (a stack overflow aborts the process); `open=0` = it did not come back with a workbook
        let variant = a.get(2).copied().unwrap_or("");
        let outcome = cyclic_run(variant, "lazy");
        out.count(&format!("cyc.{}.{}", variant, outcome));
        return match outcome.as_str() {
            "ok" => ("ok open=1".into(), true),
            "not-run" => ("unmodelled".into(), false),
            _ => ("ok open=0".into(), true),
        };
    }
    if a[1] == "reset" {
        // c11 reset <file id> [D=<description>]: the files were opened by `open_case` (see `run`) before the
        // request line was written, because the description is part of the line
        if st.dead {
            ("skip".into(), false)
        } else {
            (format!("ok {} open=1 ## pkgok={}", status(st.lazy.as_ref().unwrap()), st.pkg_ok as u8), true)
        }
    } else if st.dead {
        ("dead".into(), false)
    } else {
        exec_op(out, st, line, &a, &n)
    }
}

fn kill(st: &mut State) {
    st.dead = true;
}

fn exec_op(out: &mut Out, st: &mut State, line: &str, a: &[&str], n: &dyn Fn(usize) -> usize) -> (String, bool) {
    let cnt = st.lazy.as_ref().unwrap().get_sheet_count();
    let name_of = |st: &State, i: usize| -> String { st.lazy.as_ref().unwrap().get_sheet_collection_no_check().get(i).map(|s| s.get_name().to_string()).unwrap_or_else(|| "\u{1}no such sheet".into()) };
    // every materialising / editing request goes to both workbooks; their outcomes must agree
    let mut agree = |out: &mut Out, st: &mut State, rl: String, re: String, materialising: bool| -> Option<String> {
        if rl == "panic" || re == "panic" {
            if materialising && re != "panic" {
                // eager loading decoded this sheet, lazy materialisation panics
                out.oracle_fail(Fail::new("materialise-panics").with("op", line).with("file", &st.file).with("lazy", &rl).with("eager", &re));
            } else if rl != re {
                out.oracle_fail(Fail::new("outcome-differs").with("op", line).with("file", &st.file).with("lazy", &rl).with("eager", &re));
            } else {
                out.count("inherited.panic-in-both");
            }
            kill(st);
            return None;
        }
        if rl != re {
            out.oracle_fail(Fail::new("outcome-differs").with("op", line).with("file", &st.file).with("lazy", &rl).with("eager", &re));
        }
        Some(rl)
    };
    match a[1] {
        "read" => {
            let i = n(2);
            let l = st.lazy.as_mut().unwrap();
            let r = guard(|| {
                l.read_sheet(i);
            });
            match r {
                Ok(()) => (format!("ok {}", status(st.lazy.as_ref().unwrap())), true),
                Err(()) => {
                    if i < cnt {
                        out.oracle_fail(Fail::new("materialise-panics").with("op", line).with("file", &st.file));
                        kill(st);
                        ("dead".into(), false)
                    } else {
                        ("panic".into(), false)
                    }
                }
            }
        }
        "getmut" | "byname" => {
            let i = n(2);
            let nm = name_of(st, i);
            let l = st.lazy.as_mut().unwrap();
            let by = a[1] == "byname";
            let r = guard(|| if by { l.get_sheet_by_name_mut(&nm).is_some() } else { l.get_sheet_mut(&i).is_some() });
            match r {
                Ok(true) => (format!("ok {}", status(st.lazy.as_ref().unwrap())), true),
                Ok(false) => ("none".into(), false),
                Err(()) => {
                    out.oracle_fail(Fail::new("materialise-panics").with("op", line).with("file", &st.file));
                    kill(st);
                    ("dead".into(), false)
                }
            }
        }
        "readall" | "collmut" => {
            let l = st.lazy.as_mut().unwrap();
            let cm = a[1] == "collmut";
            let r = guard(|| {
                if cm {
                    l.get_sheet_collection_mut();
                } else {
                    l.read_sheet_collection();
                }
            });
            match r {
                Ok(()) => (format!("ok {}", status(st.lazy.as_ref().unwrap())), true),
                Err(()) => {
                    out.oracle_fail(Fail::new("materialise-panics").with("op", line).with("file", &st.file));
                    kill(st);
                    ("dead".into(), false)
                }
            }
        }
        "edit" | "style" => {
            // edit i col row tok  /  style i col row colour
            let (i, c, r, t) = (n(2), n(3) as u32, n(4) as u32, n(5));
            let styl = a[1] == "style";
            let (rl, re) = both(st, &|b: &mut Spreadsheet| match b.get_sheet_mut(&i) {
                Some(ws) => {
                    if styl {
                        ws.get_style_mut((c, r)).set_background_color(format!("FF{:06X}", t));
                    } else {
                        ws.get_cell_mut((c, r)).set_value_string(format!("tK{}", t));
                    }
                    "ok".to_string()
                }
                None => "none".to_string(),
            });
            match agree(out, st, rl, re, true) {
                Some(r0) => {
                    if r0 == "ok" {
                        st.edited[i] = true;
                        if !styl {
                            st.cells[i].insert((c, r), format!("tK{}", t));
                        }
                        (format!("ok {}", status(st.lazy.as_ref().unwrap())), true)
                    } else {
                        (r0, false)
                    }
                }
                None => ("dead".into(), false),
            }
        }
        "annot" => {
            // annot i kind k: an edit that makes the serialiser emit NEW related parts for sheet i
            // (kind 0 = a comment -> comments + vmlDrawing, 1 = a table, 2 = a chart -> drawing + chart)
            let (i, kind, k) = (n(2), n(3), n(4) as u32);
            let (rl, re) = both(st, &|b: &mut Spreadsheet| {
                let title = b.get_sheet_collection_no_check().get(i).map(|ws| ws.get_name().to_string()).unwrap_or_default();
                match b.get_sheet_mut(&i) {
                    Some(ws) => {
                        match kind {
                            0 => {
                                let mut cm = umya_spreadsheet::structs::Comment::default();
                                cm.new_comment(format!("D{}", 20 + k));
                                cm.set_text_string(format!("added note {} on {}", k, i));
                                cm.set_author("ann");
                                ws.add_comments(cm);
                            }
                            1 => {
                                let nm = format!("AddedT{}x{}", i, k);
                                let (r0, r1) = (30 + 4 * k, 32 + 4 * k);
                                let mut t = umya_spreadsheet::structs::Table::new(&nm, (format!("A{}", r0).as_str(), format!("B{}", r1).as_str()));
                                t.set_display_name(&nm);
                                t.add_column(umya_spreadsheet::structs::TableColumn::new("h1"));
                                t.add_column(umya_spreadsheet::structs::TableColumn::new("h2"));
                                ws.get_cell_mut(format!("A{}", r0).as_str()).set_value_string("h1");
                                ws.get_cell_mut(format!("B{}", r0).as_str()).set_value_string("h2");
                                ws.add_table(t);
                            }
                            _ => {
                                for r in 1..=3u32 {
                                    ws.get_cell_mut((9, r)).set_value_number((r * 2 + k) as f64);
                                }
                                let mut from_marker = umya_spreadsheet::structs::drawing::spreadsheet::MarkerType::default();
                                let mut to_marker = umya_spreadsheet::structs::drawing::spreadsheet::MarkerType::default();
                                from_marker.set_coordinate("K2");
                                to_marker.set_coordinate("P14");
                                let area = format!("'{}'!$I$1:$I$3", title.replace('\'', "''"));
                                let mut chart = umya_spreadsheet::structs::Chart::default();
                                chart.new_chart(umya_spreadsheet::structs::ChartType::LineChart, from_marker, to_marker, vec![&area]).set_series_title(vec!["S"]).set_series_point_title(vec!["a", "b", "c"]);
                                ws.add_chart(chart);
                            }
                        }
                        "ok".to_string()
                    }
                    None => "none".to_string(),
                }
            });
            match agree(out, st, rl, re, true) {
                Some(r0) => {
                    if r0 == "ok" {
                        st.edited[i] = true;
                        (format!("ok {}", status(st.lazy.as_ref().unwrap())), true)
                    } else {
                        (r0, false)
                    }
                }
                None => ("dead".into(), false),
            }
        }
        "newsheet" => {
            let nm = String::from_utf8_lossy(&unhex(a.get(2).copied().unwrap_or("-"))).to_string();
            let (rl, re) = both(st, &|b: &mut Spreadsheet| if b.new_sheet(nm.clone()).is_ok() { "ok".into() } else { "err".into() });
            match agree(out, st, rl, re, false) {
                Some(r0) => {
                    if r0 == "ok" {
                        st.origin.push(None);
                        st.edited.push(false);
                        st.renamed.push(false);
                        st.cells.push(BTreeMap::new());
                        (format!("ok {}", status(st.lazy.as_ref().unwrap())), true)
                    } else {
                        (r0, false)
                    }
                }
                None => ("dead".into(), false),
            }
        }
        "rmsheet" | "rmname" => {
            let i = n(2);
            let nm = name_of(st, i);
            let byn = a[1] == "rmname";
            let (rl, re) = both(st, &|b: &mut Spreadsheet| {
                let r = if byn { b.remove_sheet_by_name(&nm) } else { b.remove_sheet(i) };
                if r.is_ok() {
                    "ok".into()
                } else {
                    "err".into()
                }
            });
            match agree(out, st, rl, re, false) {
                Some(r0) => {
                    if r0 == "ok" {
                        st.origin.remove(i);
                        st.edited.remove(i);
                        st.renamed.remove(i);
                        st.cells.remove(i);
                        // since fix 39e32f7 remove_sheet re-numbers the localSheetId of the names scoped to later sheets and
                        // drops those scoped to the removed one: the `names` section of the remaining sheets legitimately
                        // differs from what it was at open (it is still compared lazy against eager on every dump)
                        for r in st.renamed.iter_mut() {
                            *r = true;
                        }
                        (format!("ok {}", status(st.lazy.as_ref().unwrap())), true)
                    } else {
                        (r0, false)
                    }
                }
                None => ("dead".into(), false),
            }
        }
        "rename" => {
            let i = n(2);
            let nm = String::from_utf8_lossy(&unhex(a.get(3).copied().unwrap_or("-"))).to_string();
            let (rl, re) = both(st, &|b: &mut Spreadsheet| if b.set_sheet_name(i, nm.clone()).is_ok() { "ok".into() } else { "err".into() });
            match agree(out, st, rl, re, false) {
                Some(r0) => {
                    if r0 == "ok" {
                        st.renamed[i] = true;
                        (format!("ok {}", status(st.lazy.as_ref().unwrap())), true)
                    } else {
                        (r0, false)
                    }
                }
                None => ("dead".into(), false),
            }
        }
        "insrow" | "remrow" => {
            // workbook-level: insrow i row n — deserializes every sheet
            let (i, row, k) = (n(2), n(3) as u32, n(4) as u32);
            let nm = name_of(st, i);
            let ins = a[1] == "insrow";
            let (rl, re) = both(st, &|b: &mut Spreadsheet| {
                if ins {
                    b.insert_new_row(&nm, &row, &k);
                } else {
                    b.remove_row(&nm, &row, &k);
                }
                "ok".into()
            });
            match agree(out, st, rl, re, true) {
                Some(_) => {
                    if i < cnt {
                        st.edited[i] = true;
                        let old = std::mem::take(&mut st.cells[i]);
                        for ((c, r), v) in old {
                            if ins {
                                st.cells[i].insert((c, if r >= row { r + k } else { r }), v);
                            } else if r < row {
                                st.cells[i].insert((c, r), v);
                            } else if r >= row + k {
                                st.cells[i].insert((c, r - k), v);
                            }
                        }
                    }
                    // references on the other sheets may have been adjusted as well
                    for e in st.edited.iter_mut() {
                        *e = true;
                    }
                    (format!("ok {}", status(st.lazy.as_ref().unwrap())), true)
                }
                None => ("dead".into(), false),
            }
        }
        "dump" => {
            let i = n(2);
            let l = st.lazy.as_ref().unwrap();
            let e = st.eager.as_ref().unwrap();
            if i >= cnt {
                return ("none".into(), false);
            }
            let fl = flags(l);
            if fl.as_bytes()[i] == b'R' {
                return ("R".into(), false);
            }
            let dl = guard(|| dump_full(l.get_sheet(&i).unwrap()));
            let de = guard(|| dump_full(e.get_sheet(&i).unwrap()));
            match (dl, de) {
                (Ok(dl), Ok(de)) => {
                    let d = stable(dump_diff(&dl, &de), st, i);
                    if d.is_empty() {
                        out.oracle_ok();
                    } else {
                        out.oracle_fail(Fail::new("view-differs").with("op", line).with("file", &st.file).with("sections", d.join(",")));
                    }
                    // a sheet nobody edited shows exactly what eager loading showed at open
                    if !st.edited[i] {
                        if let Some(k) = st.origin[i] {
                            let mut want = st.orig_dumps[k].clone();
                            same_but_name(&mut want, &dl, st.renamed[i]);
                            let d2 = stable(dump_diff(&dl, &want), st, i);
                            if d2.is_empty() {
                                out.oracle_ok();
                            } else {
                                out.oracle_fail(Fail::new("view-differs-from-open").with("op", line).with("file", &st.file).with("sections", d2.join(",")));
                            }
                        }
                    }
                    let cells: Vec<String> = st.cells[i]
                        .iter()
                        .map(|((c, r), _)| format!("{}.{}={}", c, r, l.get_sheet(&i).unwrap().get_value((*c, *r))))
                        .collect();
                    let o = match st.origin[i] {
                        Some(k) => k.to_string(),
                        None => "-".into(),
                    };
                    (format!("L o={} e={} ## {}", o, cells.join(","), dump_hash(&dl)), true)
                }
                _ => {
                    out.oracle_fail(Fail::new("dump-panics").with("op", line).with("file", &st.file));
                    ("panic".into(), false)
                }
            }
        }
        "save" => exec_save(out, st, line),
        "inv" => exec_inv(out, st, line),
        _ => ("bad-op".into(), false),
    }
}


/// the state of the lazily opened workbook as the hook reports it: `-` for a deserialized sheet
fn describe_state(book: &Spreadsheet) -> String {
    raws_of_book(book).iter().map(|r| match r { None => "-".to_string(), Some(d) => render_raw(d) }).collect::<Vec<_>>().join(";")
}

/// `inv`: package consistency of the implementation's state, evaluated here independently of the model (every raw sheet
/// holds exactly what the harness' own zip scan of the file computes for one of its sheet parts — the sheet part the
/// harness tracks for that position —, and the closure is hygienic); the model evaluates `consistent` on the same state
fn exec_inv(out: &mut Out, st: &mut State, line: &str) -> (String, bool) {
    let l = st.lazy.as_ref().unwrap();
    let raws = match guard(|| raws_of_book(l)) {
        Ok(r) => r,
        Err(_) => return ("panic".into(), false),
    };
    let orig = st.orig.as_ref().unwrap();
    let mut bad = vec![];
    let mut hyg = true;
    let mut owners: BTreeMap<String, usize> = BTreeMap::new();
    let mut nraw = 0;
    let mut nparts = 0;
    for (i, r) in raws.iter().enumerate() {
        let d = match r {
            Some(d) => d,
            None => continue,
        };
        nraw += 1;
        let names = closure_names(d);
        nparts += names.len();
        for n in names {
            *owners.entry(n).or_default() += 1;
        }
        hyg &= hygienic(d);
        if !st.orig_sheet_parts.contains(&d.part) {
            bad.push(format!("raw sheet {} holds {} which is no sheet part of the file", i, d.part));
            continue;
        }
        match st.origin.get(i).copied().flatten() {
            Some(k) if st.orig_sheet_parts[k] == d.part => {}
            o => bad.push(format!("raw sheet {} holds the part {} but came from sheet {:?} of the file", i, d.part, o)),
        }
        let want = raw_of_skel(orig, &d.part);
        if *d != want {
            let what = if d.hash != want.hash {
                "sheet bytes"
            } else if d.closure.len() != want.closure.len() {
                "number of relationship parts in the closure"
            } else {
                "closure content"
            };
            bad.push(format!("raw sheet {} ({}) no longer holds what the file has: {}", i, d.part, what));
        }
    }
    let overlap = owners.values().filter(|c| **c > 1).count();
    out.count(&format!("inv.raw-sheets.{}", nraw.min(6)));
    out.count(&format!("inv.closure-names.{}", bucket(nparts)));
    out.count(&format!("inv.names-in-several-closures.{}", bucket(overlap)));
    if bad.is_empty() {
        out.oracle_ok();
    } else {
        bad.truncate(4);
        out.oracle_fail(Fail::new("invariant-broken").with("op", line).with("file", &st.file).with("flags", flags(l)).with("detail", bad.join("; ")));
    }
    if !hyg {
        out.count("inv.not-hygienic");
    }
    (format!("ok cons={} same=1 ## raw={} names={} shared={}", (bad.is_empty() && hyg) as u8, nraw, nparts, overlap), nraw > 0)
}

/// sheet dumps after `lazy open; save; eager reopen` of the unchanged file (every sheet copied raw): the reference for
/// what the re-serialised workbook-level tables alone change
fn baseline(st: &mut State) -> Option<Vec<Vec<(&'static str, String)>>> {
    if st.base_dumps.is_none() {
        let r = read_book(&st.bytes, false).ok().and_then(|b| save_book(&b).ok()).and_then(|b| read_book(&b, true).ok());
        st.base_dumps = Some(r.and_then(|b| guard(|| (0..b.get_sheet_count()).map(|i| dump_full(b.get_sheet(&i).unwrap())).collect::<Vec<_>>()).ok()).filter(|v| v.len() == st.orig_dumps.len()));
    }
    st.base_dumps.clone().unwrap()
}

/// description of the eager workbook's own save: what the serialiser emits for each sheet when it is deserialized
fn profiles(sk: &Skel) -> String {
    sk.sheet_parts()
        .iter()
        .map(|p| match p {
            Some(p) => {
                let t = describe_tree(sk, p, 0);
                if t.is_empty() {
                    "-".to_string()
                } else {
                    t
                }
            }
            None => "?".into(),
        })
        .collect::<Vec<_>>()
        .join(";")
}

fn exec_save(out: &mut Out, st: &mut State, line: &str) -> (String, bool) {
    let base = baseline(st);
    let l = st.lazy.as_ref().unwrap();
    let e = st.eager.as_ref().unwrap();
    let fl = flags(l);
    let sl = save_book(l);
    let se = save_book(e);
    let (bl, be) = match (sl, se) {
        (Ok(a), Ok(b)) => (a, b),
        (a, b) => {
            let (a, b) = (a.err().unwrap_or("ok".into()), b.err().unwrap_or("ok".into()));
            if a != "ok" && b == "ok" {
                out.oracle_fail(Fail::new("save-fails").with("op", line).with("file", &st.file).with("lazy", &a).with("flags", &fl));
            } else {
                out.count("inherited.eager-save-fails");
            }
            out.count(if a == "ok" { "save.eager-failed-only" } else { "save.both-failed" });
            st.dead = true;
            return ("dead".into(), false);
        }
    };
    let (kl, ke) = match (skeleton(&bl), skeleton(&be)) {
        (Ok(a), Ok(b)) => (a, b),
        _ => {
            out.oracle_fail(Fail::new("save-not-a-zip").with("op", line).with("file", &st.file));
            st.dead = true;
            return ("dead".into(), false);
        }
    };
    // ---- oracle 1: the skeleton is valid (problems the eager save shows as well are the serialiser's, not lazy loading's)
    let (pl, pe) = (kl.problems(), ke.problems());
    let own: Vec<String> = pl.difference(&pe).cloned().collect();
    for p in pl.intersection(&pe) {
        out.count(&format!("inherited.skeleton.{}", p.split(':').next().unwrap()));
    }
    if own.is_empty() {
        out.oracle_ok();
    } else {
        let kinds: BTreeSet<&str> = own.iter().map(|p| p.split(':').next().unwrap()).collect();
        out.oracle_fail(
            Fail::new("skeleton-invalid")
                .with("op", line)
                .with("file", &st.file)
                .with("flags", &fl)
                .with("kinds", kinds.into_iter().collect::<Vec<_>>().join(","))
                .with("problems", own.iter().take(6).cloned().collect::<Vec<_>>().join(" ")),
        );
    }
    // ---- oracle 2: raw sheets are copied byte for byte, with their closure under names their relationships resolve to
    let sp = kl.sheet_parts();
    let orig = st.orig.as_ref().unwrap();
    for (i, f) in fl.chars().enumerate() {
        if f != 'R' {
            continue;
        }
        let k = match st.origin[i] {
            Some(k) => k,
            None => continue,
        };
        let mut bad = vec![];
        let part = sp.get(i).cloned().flatten().unwrap_or_default();
        let opart = &st.orig_sheet_parts[k];
        if kl.parts.get(&part) != orig.parts.get(opart) {
            bad.push("sheet bytes differ".to_string());
        }
        // walk both relationship graphs in parallel
        let mut stack = vec![(part.clone(), opart.clone(), 0)];
        while let Some((pn, po, d)) = stack.pop() {
            if d > 10 {
                continue;
            }
            let (rn, ro) = (kl.rels.get(&rels_name_of(&pn)), orig.rels.get(&rels_name_of(&po)));
            match (rn, ro) {
                (None, None) => {}
                (Some(x), None) if x.is_empty() => {}
                (None, Some(x)) if x.is_empty() => {}
                (Some(rn), Some(ro)) => {
                    for r0 in ro {
                        match rn.iter().find(|r| r.id == r0.id) {
                            None => bad.push(format!("relationship {} of {} lost", r0.id, po)),
                            Some(r1) => {
                                if r0.external != r1.external || r0.ty != r1.ty {
                                    bad.push(format!("relationship {} of {} changed", r0.id, po));
                                } else if !r0.external {
                                    if kl.parts.get(&r1.resolved) != orig.parts.get(&r0.resolved) {
                                        bad.push(format!("target of {} of {} has other bytes ({} vs {})", r0.id, po, r1.resolved, r0.resolved));
                                    }
                                    stack.push((r1.resolved.clone(), r0.resolved.clone(), d + 1));
                                }
                            }
                        }
                    }
                }
                _ => bad.push(format!("relationships of {} (was {}) {}", pn, po, if rn.is_none() { "missing" } else { "appeared" })),
            }
        }
        if bad.is_empty() {
            out.oracle_ok();
        } else {
            bad.truncate(5);
            out.oracle_fail(Fail::new("raw-copy-broken").with("op", line).with("file", &st.file).with("flags", &fl).with("sheet", i.to_string()).with("detail", bad.join("; ")));
        }
    }
    // ---- oracle 3: reopen both saves eagerly; sheet by sheet the same content; untouched raw sheets as at open; edits present
    match (read_book(&bl, true), read_book(&be, true)) {
        (Ok(r1), Ok(r2)) => {
            let mut bad = vec![];
            let mut control: Option<Option<Spreadsheet>> = None;
            if r1.get_sheet_count() != fl.len() {
                bad.push(format!("{} sheets reloaded, workbook has {}", r1.get_sheet_count(), fl.len()));
            } else {
                for i in 0..fl.len() {
                    let d1 = guard(|| dump_full(r1.get_sheet(&i).unwrap()));
                    let d2 = guard(|| dump_full(r2.get_sheet(&i).unwrap()));
                    match (d1, d2) {
                        (Ok(d1), Ok(d2)) => {
                            let is_raw = fl.as_bytes()[i] == b'R';
                            if d1[0].1 != hex(l.get_sheet_collection_no_check()[i].get_name()) {
                                bad.push(format!("sheet {} reloads under another name", i));
                            }
                            if !is_raw {
                                // a deserialized sheet is written by the same serialiser in both workbooks
                                let mut d = stable(dump_diff(&d1, &d2), st, i);
                                if !d.is_empty() {
                                    // control: is the eager workbook's own save-and-reload repeatable in these sections?
                                    // (style interning follows hash-map order; C05's subject)
                                    if control.is_none() {
                                        control = Some(st.control.as_ref().and_then(|c| save_book(c).ok()).and_then(|b| read_book(&b, true).ok()));
                                    }
                                    if let Some(Some(r3)) = &control {
                                        if let Ok(d3) = guard(|| dump_full(r3.get_sheet(&i).unwrap())) {
                                            let unrepeatable = dump_diff(&d2, &d3);
                                            for sec in &unrepeatable {
                                                out.count(&format!("inherited.differs-between-two-eager-instances.{}", sec));
                                            }
                                            d.retain(|x| !unrepeatable.contains(x));
                                        }
                                    }
                                }
                                if !d.is_empty() {
                                    bad.push(format!("sheet {} (L) differs from the eager workbook's save in {}", i, d.join(",")));
                                }
                            } else if let Some(k) = st.origin[i] {
                                // a raw sheet was copied: it must decode to what it decoded to at open
                                let mut want = st.orig_dumps[k].clone();
                                same_but_name(&mut want, &d1, st.renamed[i]);
                                // defined names live in workbook.xml (keyed by sheet position), not in the copied sheet part:
                                // they are compared with the eager workbook's save like everything that is serialised
                                for ((w, g), e2) in want.iter_mut().zip(d1.iter()).zip(d2.iter()) {
                                    if w.0 == "names" {
                                        if g != e2 {
                                            bad.push(format!("defined names of raw sheet {} differ from the eager workbook's save", i));
                                        }
                                        *w = g.clone();
                                    }
                                }
                                let dd = stable(dump_diff(&d1, &want), st, i);
                                if dd.is_empty() {
                                    out.count("save.raw-sheet-identical-to-open");
                                } else {
                                    // what an untouched lazy save of the same file loses (re-serialised style / string tables)
                                    let base: Vec<&str> = match &base {
                                        Some(b) => dump_diff(&b[k], &st.orig_dumps[k]),
                                        None => vec![],
                                    };
                                    let extra: Vec<&str> = dd.iter().filter(|x| !base.contains(x)).cloned().collect();
                                    if extra.is_empty() {
                                        out.count(&format!("inherited.table-roundtrip.{}", dd.join("+")));
                                    } else {
                                        bad.push(format!("raw sheet {} (originally {}) no longer decodes as at open: {}", i, k, extra.join(",")));
                                    }
                                }
                            }
                            for ((c, r), v) in &st.cells[i] {
                                let got = r1.get_sheet(&i).unwrap().get_value((*c, *r));
                                if &got != v {
                                    bad.push(format!("edit {}.{}={} of sheet {} reloads as {:?}", c, r, v, i, got));
                                }
                            }
                        }
                        _ => bad.push(format!("dump of reloaded sheet {} panics", i)),
                    }
                }
            }
            if bad.is_empty() {
                out.oracle_ok();
            } else {
                bad.truncate(5);
                out.oracle_fail(Fail::new("saved-content-differs").with("op", line).with("file", &st.file).with("flags", &fl).with("detail", bad.join("; ")));
            }
        }
        (Err(x), Ok(_)) => {
            out.oracle_fail(Fail::new("saved-file-unreadable").with("op", line).with("file", &st.file).with("flags", &fl).with("how", &x));
        }
        (_, Err(_)) => {
            out.count("inherited.eager-save-unreadable");
        }
    }
    // ---- tables only grow (text level, on the written parts)
    let cnt_of = |sk: &Skel, part: &str, open: &str, tag: &str| -> usize {
        sk.parts
            .get(part)
            .map(|b| {
                let t = String::from_utf8_lossy(b).to_string();
                let inner = if open.is_empty() { t.clone() } else { scan_between(&t, open, &format!("</{}>", &open[1..])).first().map(|x| x.to_string()).unwrap_or_default() };
                inner.matches(&format!("<{} ", tag)).count() + inner.matches(&format!("<{}>", tag)).count() + inner.matches(&format!("<{}/>", tag)).count()
            })
            .unwrap_or(0)
    };
    let sst_texts = |sk: &Skel| -> Vec<String> {
        sk.parts
            .get("xl/sharedStrings.xml")
            .map(|b| {
                let t = String::from_utf8_lossy(b).to_string();
                let mut v = vec![];
                let mut rest: &str = &t;
                while let Some(i) = rest.find("<si") {
                    let r = &rest[i..];
                    let j = match (r.find("</si>"), r.find("/>")) {
                        (Some(a), Some(b)) if b < a && !r[..b].contains('>') => {
                            v.push(String::new());
                            rest = &r[b + 2..];
                            continue;
                        }
                        (Some(a), _) => a,
                        _ => break,
                    };
                    let si = &r[..j];
                    // text of the item: all <t> payloads outside phonetic runs
                    let mut txt = String::new();
                    let mut q = si;
                    while let Some(a) = q.find("<t") {
                        let qq = &q[a..];
                        let in_rph = q[..a].rfind("<rPh").map(|x| !q[x..a].contains("</rPh>")).unwrap_or(false);
                        match (qq.find('>'), qq.find("</t>")) {
                            (Some(g), Some(z)) if g < z && !qq[..g].ends_with('/') && (qq.as_bytes()[2] == b'>' || qq.as_bytes()[2] == b' ') => {
                                if !in_rph {
                                    txt.push_str(&qq[g + 1..z]);
                                }
                                q = &qq[z + 4..];
                            }
                            _ => {
                                q = &qq[2..];
                            }
                        }
                    }
                    // character data is compared unescaped (`'` and `&apos;` are the same text)
                    // ... and as an XML processor passes it on: a literal CR LF / CR is a line feed (XML 1.0 2.11)
                    let txt = txt.replace("\r\n", "\n").replace('\r', "\n");
                    v.push(txt.replace("&apos;", "'").replace("&quot;", "\"").replace("&lt;", "<").replace("&gt;", ">").replace("&#13;", "\r").replace("&#10;", "\n").replace("&amp;", "&"));
                    rest = &r[j + 5..];
                }
                v
            })
            .unwrap_or_default()
    };
    let any_raw = fl.contains('R');
    let (s0, s1) = (sst_texts(orig), sst_texts(&kl));
    let sst_ok = !any_raw || (s1.len() >= s0.len() && s0.iter().zip(s1.iter()).all(|(a, b)| a == b));
    let (x0, x1) = (cnt_of(orig, "xl/styles.xml", "<cellXfs", "xf"), cnt_of(&kl, "xl/styles.xml", "<cellXfs", "xf"));
    let (d0, d1) = (cnt_of(orig, "xl/styles.xml", "<dxfs", "dxf"), cnt_of(&kl, "xl/styles.xml", "<dxfs", "dxf"));
    let grow = format!("{}{}{}", sst_ok as u8, (!any_raw || x1 >= x0) as u8, (!any_raw || d1 >= d0) as u8);
    if grow == "111" {
        out.oracle_ok();
    } else {
        out.oracle_fail(Fail::new("table-shrunk-or-reordered").with("op", line).with("file", &st.file).with("flags", &fl).with("grow", &grow).with("first_sst_difference", s0.iter().zip(s1.iter()).enumerate().find(|(_, (a, b))| a != b).map(|(i, (a, b))| format!("{}: {:?} -> {:?}", i, a, b)).unwrap_or_default()).with("counts", format!("sst {}->{} xf {}->{} dxf {}->{}", s0.len(), s1.len(), x0, x1, d0, d1)));
    }
    // ---- reply: the skeleton facts the model predicts
    let scope: Vec<&String> = kl.parts.keys().filter(|n| !workbook_level(n)).collect();
    let rels: Vec<String> = kl
        .rels
        .iter()
        .filter(|(n, _)| !workbook_level(n))
        .map(|(n, v)| {
            let mut t: Vec<String> = v.iter().map(|r| if r.external { "x".to_string() } else { r.resolved.clone() }).collect();
            t.sort();
            format!("{}[{}]", n, t.join(","))
        })
        .collect();
    let sheets: Vec<String> = kl.wb_sheets.iter().zip(sp.iter()).map(|((nm, _, _), p)| format!("{}@{}", hex(nm), p.clone().unwrap_or("?".into()))).collect();
    let reply = format!(
        "ok sheets={};parts={};rels={};grow={} ## sst {}->{} xf {}->{} dxf {}->{} parts {}",
        sheets.join(","),
        scope.iter().map(|x| x.as_str()).collect::<Vec<_>>().join(","),
        rels.join(""),
        grow,
        s0.len(),
        s1.len(),
        x0,
        x1,
        d0,
        d1,
        kl.parts.len()
    );
    let _ = ke;
    (reply, true)
}

// ------------------------------------------------------------------------------------------------
// generation of histories

fn perms_of_subsets(n: usize) -> Vec<Vec<usize>> {
    // all ordered subsets (arrangements) of {0..n-1}
    fn rec(n: usize, cur: &mut Vec<usize>, out: &mut Vec<Vec<usize>>) {
        out.push(cur.clone());
        for i in 0..n {
            if !cur.contains(&i) {
                cur.push(i);
                rec(n, cur, out);
                cur.pop();
            }
        }
    }
    let mut out = vec![];
    rec(n, &mut vec![], &mut out);
    out
}

fn access_op(rng: &mut Rng, i: usize) -> String {
    if rng.chance(1, 5) {
        // an edit that adds related parts (comments / table / drawing+chart) to the sheet
        return format!("c11 annot {} {} {}", i, rng.below(3), rng.below(3));
    }
    match rng.below(4) {
        0 => format!("c11 read {}", i),
        1 => format!("c11 getmut {}", i),
        2 => format!("c11 byname {}", i),
        _ => format!("c11 edit {} {} {} {}", i, rng.range(1, 4), rng.range(1, 6), rng.below(50)),
    }
}

/// one history for a file with `n` sheets; `k` selects the access order (exhaustive for n ≤ 4)
fn history(rng: &mut Rng, n: usize, k: usize, orders: &[Vec<usize>], allow_wb: bool) -> Vec<String> {
    let mut v = vec![];
    let mut cur = n; // current number of sheets (tracked approximately; invalid indices are fine)
    let order: Vec<usize> = if n <= 4 && !orders.is_empty() {
        orders[k % orders.len()].clone()
    } else {
        let m = rng.below(n as u64 + 1) as usize;
        let mut o: Vec<usize> = vec![];
        while o.len() < m {
            let i = rng.below(n as u64) as usize;
            if !o.contains(&i) {
                o.push(i);
            }
        }
        o
    };
    let structural = rng.chance(2, 3);
    let mut new_no = 0;
    for (j, i) in order.iter().enumerate() {
        // structural edits while other sheets are still unloaded
        if structural && rng.chance(1, 3) && cur > 0 {
            match rng.below(7) {
                0 | 1 => {
                    if cur > 1 {
                        let x = rng.below(cur as u64) as usize;
                        v.push(format!("c11 {} {}", if rng.chance(1, 4) { "rmname" } else { "rmsheet" }, x));
                        cur -= 1;
                    }
                }
                2 | 3 => {
                    new_no += 1;
                    v.push(format!("c11 newsheet {}", hex(&format!("New {}", new_no))));
                    cur += 1;
                }
                4 => {
                    v.push(format!("c11 rename {} {}", rng.below(cur as u64), hex(&format!("Ren{}", j))));
                }
                5 if allow_wb => {
                    v.push(format!("c11 insrow {} {} {}", rng.below(cur as u64), rng.range(1, 6), rng.range(1, 2)));
                }
                _ => {
                    v.push(format!("c11 style {} {} {} {}", rng.below(cur as u64), rng.range(1, 4), rng.range(1, 6), 0x20 * (1 + rng.below(6))));
                }
            }
        }
        v.push(access_op(rng, *i));
        if rng.chance(1, 2) {
            v.push(format!("c11 dump {}", i));
        }
        if rng.chance(1, 6) {
            v.push("c11 save".into());
        }
    }
    if structural && rng.chance(1, 2) && cur > 0 {
        match rng.below(4) {
            0 => {
                if cur > 1 {
                    v.push(format!("c11 rmsheet {}", rng.below(cur as u64)));
                    cur -= 1;
                }
            }
            1 => {
                v.push(format!("c11 newsheet {}", hex("Z last")));
                cur += 1;
            }
            2 => v.push(format!("c11 rename {} {}", rng.below(cur as u64), hex("Renamed & <x>"))),
            _ => {
                if allow_wb {
                    v.push(format!("c11 remrow {} {} 1", rng.below(cur as u64), rng.range(1, 6)))
                }
            }
        }
    }
    if rng.chance(1, 12) {
        v.push(if rng.chance(1, 2) { "c11 readall".into() } else { "c11 collmut".into() });
    }
    // boundary requests
    if rng.chance(1, 10) {
        v.push(format!("c11 read {}", cur + rng.below(2) as usize));
    }
    if rng.chance(1, 10) {
        v.push(format!("c11 getmut {}", cur + 1));
    }
    if rng.chance(1, 10) && cur > 0 {
        v.push(format!("c11 rename 0 {}", hex("New 1")));
    }
    v.push("c11 save".into());
    for i in 0..cur.min(8) {
        v.push(format!("c11 dump {}", i));
    }
    v
}

pub fn run(out: &mut Out, tier: Tier, seed: u64, replay: Option<Vec<String>>) {
    let mut st = State::new();
    out.flush_each = tier == Tier::Thorough;
    let mut step1 = |out: &mut Out, st: &mut State, op: &str| -> bool {
        // requests that carry a description get it (re)computed from the state
        let core: Vec<&str> = op.split(' ').take_while(|x| !x.starts_with("D=") && !x.starts_with("P=") && !x.starts_with("S=") && !x.starts_with("X=")).collect();
        let a = core.clone();
        let mut full = core.join(" ");
        if a.len() >= 3 && a[1] == "reset" {
            let (new_st, d) = open_case(out, a[2], &full);
            *st = new_st;
            if let Some(d) = d {
                full = format!("{} D={}", full, d);
            }
        } else if a.len() >= 3 && a[1] == "cyc" {
            // the package with a cyclic (or, variant `none`, the same acyclic) relationship graph, as the model's reader sees it
            if let Ok(b) = make_cyclic(a[2]) {
                if let Ok(sk) = skeleton(&b) {
                    let sp: Vec<String> = sk.sheet_parts().into_iter().flatten().map(|p| hex(&p)).collect();
                    full = format!("{} W={} X={}", full, sp.join(";"), describe_pkg(&sk));
                }
            }
        } else if a.len() >= 2 && a[1] == "inv" && !st.dead {
            if let Some(Ok(d)) = st.lazy.as_ref().map(|l| guard(|| describe_state(l))) {
                full = format!("{} S={}", full, d);
            }
        } else if a.len() >= 2 && a[1] == "save" && !st.dead {
            if let Some(e) = st.eager.as_ref() {
                if let Ok(b) = save_book(e) {
                    if let Ok(sk) = skeleton(&b) {
                        full = format!("{} P={}", full, profiles(&sk));
                    }
                }
            }
        }
        out.begin(&full);
        let (reply, nt) = exec(out, st, &full);
        let kind = a.get(1).copied().unwrap_or("?");
        out.count(&format!("op.{}", kind));
        out.count(&format!("reply.{}.{}", kind, reply.split(' ').next().unwrap_or("")));
        if kind == "save" && reply.starts_with("ok ") {
            let fl = st.lazy.as_ref().map(flags).unwrap_or_default();
            let r = fl.matches('R').count();
            out.count(&format!("save.raw-sheets.{}", r.min(6)));
            out.count(&format!("save.loaded-sheets.{}", (fl.len() - r).min(6)));
        }
        out.end(&full, &reply, nt);
        reply.starts_with("ok") && matches!(kind, "reset" | "read" | "getmut" | "byname" | "readall" | "collmut" | "edit" | "style" | "annot" | "newsheet" | "rmsheet" | "rmname" | "rename" | "insrow" | "remrow")
    };
    if let Some(lines) = replay {
        // a replay holds the `inv` requests of the run it came from
        for l in lines {
            step1(out, &mut st, &l);
        }
        return;
    }
    // generated histories: the invariant is evaluated after every request that changed (or may have changed) the state
    let mut step = |out: &mut Out, st: &mut State, op: &str| {
        if step1(out, st, op) && !st.dead {
            let kind = op.split(' ').nth(1).unwrap_or("?").to_string();
            out.count(&format!("inv.after.{}", kind));
            step1(out, st, "c11 inv");
        }
    };
    let mut rng = Rng::new(seed ^ 0xC11);
    let mut files: Vec<String> = vec![];
    let per_file;
    if tier == Tier::Thorough {
        let mut names: Vec<String> = std::fs::read_dir(format!("{}/tests/test_files", repo_dir()))
            .map(|d| d.flatten().map(|e| e.file_name().to_string_lossy().to_string()).filter(|n| n.ends_with(".xlsx") || n.ends_with(".xlsm")).collect())
            .unwrap_or_default();
        names.sort();
        for n in names {
            files.push(format!("corpus:{}", n));
        }
        for g in 0..20 {
            files.push(format!("gen:g{}", seed.wrapping_add(g) % 100000));
        }
        for g in 0..6 {
            files.push(format!("gen:d{}", seed.wrapping_add(g) % 100000));
        }
        per_file = 24;
    } else {
        for n in CORPUS_QUICK.iter() {
            files.push(format!("corpus:{}", n));
        }
        for g in 0..6 {
            files.push(format!("gen:g{}", seed.wrapping_add(g) % 100000));
        }
        for g in 0..2 {
            files.push(format!("gen:d{}", seed.wrapping_add(g) % 100000));
        }
        per_file = 40;
    }
    // the experiment with cyclic relationship graphs (child processes; counted only)
    cyclic_experiment(out);
    // ... and tied to the model: the model's reader on the same packages (C11_read_closure_cyclic: `none` for every fuel;
    // variant `none` = the same package without the extra relationship: C11_read_closure_fuel)
    for l in ["c11 cyc sheet", "c11 cyc self", "c11 cyc none"] {
        step1(out, &mut st, l);
    }
    // the witness of the repaired defect (C11_old_rels_fails) is replayed on every run
    for l in ["c11 reset corpus:aaa.xlsx", "c11 rmsheet 0", "c11 save"] {
        step(out, &mut st, l);
    }
    let all_files: Vec<String> = files.iter().flat_map(|f| vec![f.clone(), format!("{}~perm", f)]).collect();
    for f in all_files {
        let big = f.contains("aaa_large") || f.contains("issue_188_2") || f.contains("issue_216") || f.contains("issue_233");
        let is_perm = f.ends_with("~perm");
        let bytes = match load_file(&f) {
            Ok(b) => b,
            Err(_) => {
                out.count("file.unreadable");
                continue;
            }
        };
        let n = skeleton(&bytes).map(|s| s.wb_sheets.len()).unwrap_or(0);
        if n == 0 {
            out.count("file.no-sheets");
            continue;
        }
        let orders = if n <= 4 { perms_of_subsets(n) } else { vec![] };
        let mut count = if big { 3 } else if is_perm { per_file / 4 } else { per_file };
        if n <= 4 && !big && !is_perm {
            count = count.max(orders.len().min(40));
        }
        for k in 0..count {
            step(out, &mut st, &format!("c11 reset {}", f));
            if st.dead {
                break;
            }
            // workbook-level insert/remove runs the formula tokenizer over every sheet; on some corpus files it never
            // returns (DESIGN.md section 4 row 1, e.g. issue_215.xlsx — in the eager workbook as well), so these requests
            // are generated for the library-made files and for the corpus files known to come back
            let allow_wb = f.starts_with("gen:") || CORPUS_QUICK.iter().any(|c| f == format!("corpus:{}", c) || f == format!("corpus:{}~perm", c));
            if !allow_wb {
                out.count("gen.no-workbook-level-edits-on-this-file");
            }
            for l in history(&mut rng, n, k, &orders, allow_wb) {
                step(out, &mut st, &l);
            }
        }
    }
}
