//! C05 — the `codec` request family: the tie of the concrete style codecs of
//! `lean/Umya/Model/StyleCodec.lean` (theorems `C05_*_codec`) to the implementation.
//!
//!   c05 codec cell <enc>
//!   c05 codec row <num> <fields> <enc>      fields: h=<height> c=<customHeight> d=<hidden> t=<thickBot> s=<descent>
//!   c05 codec col <num> <fields> <enc>      fields: w=<width> d=<hidden> b=<bestFit>
//!
//! (`enc` = the style wire encoding of c05.rs; the fields are applied through the public setters in
//! the order given.)  The harness builds the style / dimension in a new workbook, saves, takes
//! `xl/styles.xml` and `xl/worksheets/sheet1.xml` out of the zip, reloads the file and reads every
//! attribute through the public getters.  It then emits the derived request
//!
//!   c05 codecx <kind …> <enc> <styles.xml hex> <sheet1.xml hex> <getters>
//!
//! claiming `ok`: the Lean driver lexes the two parts with its own XML reader and checks (a) that the
//! real element of each component is tree-equal to `write x` of the model and (b) that the model's
//! `read` of the real element shows the reloaded getters.  Independently, the oracle here compares
//! the getters before saving with those after reloading, attribute by attribute.
use crate::c05::build_style;
use crate::common::*;
use std::io::{Cursor, Read};
use umya_spreadsheet::structs::*;

fn hx(s: &str) -> String {
    if s.is_empty() {
        "-".to_string()
    } else {
        hex(s)
    }
}
fn b(v: bool) -> String {
    if v { "1".into() } else { "0".into() }
}

fn color_desc(c: &Color) -> String {
    format!("{}~{}~{}~{}", hx(c.get_argb()), c.get_indexed(), c.get_theme_index(), c.get_tint())
}
fn ocolor_desc(c: Option<&Color>) -> String {
    match c {
        Some(c) => color_desc(c),
        None => color_desc(&Color::default()),
    }
}

/// the attributes of the components a style HAS, through the public getters
pub fn cdesc(st: &Style) -> Vec<(String, String)> {
    let mut d: Vec<(String, String)> = vec![];
    let mut put = |k: &str, v: String| d.push((k.to_string(), v));
    if let Some(f) = st.get_font() {
        put("font.name", hx(f.get_name()));
        put("font.size", f.get_size().to_string());
        put("font.family", f.get_family().to_string());
        put("font.bold", b(*f.get_bold()));
        put("font.italic", b(*f.get_italic()));
        put("font.underline", f.get_font_underline().get_val().get_value_string().to_string());
        put("font.strike", b(*f.get_strikethrough()));
        put("font.color", color_desc(f.get_color()));
        put("font.charset", f.get_charset().to_string());
        put("font.scheme", f.get_scheme().to_string());
        put("font.vertAlign", f.get_vertical_text_alignment().get_val().get_value_string().to_string());
    }
    if let Some(fi) = st.get_fill() {
        match fi.get_pattern_fill() {
            Some(p) => {
                put("fill.pattern", p.get_pattern_type().get_value_string().to_string());
                put("fill.fg", ocolor_desc(p.get_foreground_color()));
                put("fill.bg", ocolor_desc(p.get_background_color()));
            }
            None => {
                put("fill.pattern", "none".to_string());
                put("fill.fg", ocolor_desc(None));
                put("fill.bg", ocolor_desc(None));
            }
        }
        match fi.get_gradient_fill() {
            Some(g) => {
                let stops: Vec<String> = g.get_gradient_stop().iter().map(|s| format!("{}@{}", s.get_position(), color_desc(s.get_color()))).collect();
                put("fill.gradient", format!("{}:{}", g.get_degree(), stops.join(";")));
            }
            None => put("fill.gradient", "-".to_string()),
        }
    }
    if let Some(bo) = st.get_borders() {
        for (n, e) in [
            ("left", bo.get_left_border()),
            ("right", bo.get_right_border()),
            ("top", bo.get_top_border()),
            ("bottom", bo.get_bottom_border()),
            ("diagonal", bo.get_diagonal_border()),
            ("vertical", bo.get_vertical_border()),
            ("horizontal", bo.get_horizontal_border()),
        ] {
            put(&format!("border.{}.style", n), e.get_border_style().to_string());
            put(&format!("border.{}.color", n), color_desc(e.get_color()));
        }
        put("border.diagonalDown", b(*bo.get_diagonal_down()));
        put("border.diagonalUp", b(*bo.get_diagonal_up()));
    }
    if let Some(a) = st.get_alignment() {
        put("align.horizontal", a.get_horizontal().get_value_string().to_string());
        put("align.vertical", a.get_vertical().get_value_string().to_string());
        put("align.wrap", b(*a.get_wrap_text()));
        put("align.rotation", a.get_text_rotation().to_string());
    }
    if let Some(n) = st.get_numbering_format() {
        put("numfmt.code", hx(n.get_format_code()));
    }
    if let Some(p) = st.get_protection() {
        let mut p = p.clone();
        put("prot.locked", b(*p.get_locked()));
        put("prot.hidden", b(*p.get_hidden()));
    }
    d
}

fn row_desc(r: &Row) -> Vec<(String, String)> {
    vec![
        ("row.height".into(), r.get_height().to_string()),
        ("row.customHeight".into(), b(*r.get_custom_height())),
        ("row.hidden".into(), b(*r.get_hidden())),
        ("row.thickBot".into(), b(*r.get_thick_bot())),
        ("row.descent".into(), r.get_descent().to_string()),
    ]
}
fn col_desc(c: &Column) -> Vec<(String, String)> {
    vec![("col.width".into(), c.get_width().to_string()), ("col.hidden".into(), b(*c.get_hidden())), ("col.bestFit".into(), b(*c.get_best_fit()))]
}

fn desc_text(d: &[(String, String)]) -> String {
    d.iter().map(|(k, v)| format!("{}={}", k, v)).collect::<Vec<_>>().join("|")
}

fn zip_text(buf: &[u8], name: &str) -> Result<String, String> {
    let mut zip = zip::ZipArchive::new(Cursor::new(buf)).map_err(|e| e.to_string())?;
    let mut f = zip.by_name(name).map_err(|e| e.to_string())?;
    let mut xml = String::new();
    f.read_to_string(&mut xml).map_err(|e| e.to_string())?;
    Ok(xml)
}

fn flds(s: &str) -> Vec<(&str, &str)> {
    if s.is_empty() || s == "-" {
        return vec![];
    }
    s.split(',')
        .map(|kv| {
            let i = kv.find('=').unwrap();
            (&kv[..i], &kv[i + 1..])
        })
        .collect()
}

fn count_enc(out: &mut Out, enc: &str) {
    if enc == "-" {
        out.count("codec.comp.none");
        return;
    }
    for comp in enc.split('/') {
        let (tag, rest) = comp.split_at(1);
        out.count(&format!("codec.comp.{}", tag));
        match tag {
            "F" | "P" | "B" | "A" | "L" => {
                for (k, v) in flds(rest) {
                    out.count(&format!("codec.attr.{}.{}", tag, k));
                    // enum-valued and flag attributes: the value too
                    let enumish = matches!((tag, k), ("F", "u") | ("F", "m") | ("F", "v") | ("F", "b") | ("F", "i") | ("F", "s") | ("P", "t") | ("A", "h") | ("A", "v") | ("A", "w") | ("L", _) | ("B", "dd") | ("B", "du"));
                    if enumish {
                        out.count(&format!("codec.value.{}.{}.{}", tag, k, v));
                    }
                    if tag == "B" && k.len() == 1 {
                        out.count(&format!("codec.value.B.style.{}", v.split('~').next().unwrap_or("?")));
                    }
                    if v.contains('~') {
                        // colour form: kind and whether a tint is present
                        let p: Vec<&str> = v.split('~').collect();
                        let (kind, tint) = if tag == "B" && k.len() == 1 { (p.get(1), p.get(3)) } else { (p.first(), p.get(2)) };
                        out.count(&format!("codec.color.{}{}", kind.unwrap_or(&"?"), if tint.map(|t| *t != "-").unwrap_or(false) { "+tint" } else { "" }));
                    }
                }
            }
            "N" => out.count(&format!("codec.attr.N.{}", &rest[..1])),
            _ => {}
        }
    }
}

/// run one `c05 codec …` request
pub fn exec(out: &mut Out, line: &str) -> (String, bool) {
    let a: Vec<&str> = line.split(' ').collect();
    if a.len() < 4 {
        return ("bad-op".into(), false);
    }
    let kind = a[2];
    let enc = *a.last().unwrap();
    out.count(&format!("codec.kind.{}", kind));
    count_enc(out, enc);
    let built = guard(|| -> Result<(Vec<u8>, Vec<(String, String)>), String> {
        let style = build_style(enc);
        let mut book = umya_spreadsheet::new_file();
        let ws = book.get_sheet_mut(&0).unwrap();
        let mut before = cdesc(&style);
        match kind {
            "cell" => {
                ws.get_cell_mut((1, 1)).set_value("x");
                ws.set_style((1, 1), style.clone());
            }
            "row" => {
                let num: u32 = a[3].parse().map_err(|_| "bad row")?;
                let rd = ws.get_row_dimension_mut(&num);
                for (k, v) in flds(a[4]) {
                    match k {
                        "h" => {
                            rd.set_height(v.parse::<f64>().unwrap());
                        }
                        "c" => {
                            rd.set_custom_height(v == "1");
                        }
                        "d" => {
                            rd.set_hidden(v == "1");
                        }
                        "t" => {
                            rd.set_thick_bot(v == "1");
                        }
                        "s" => {
                            rd.set_descent(v.parse::<f64>().unwrap());
                        }
                        _ => return Err("bad row field".into()),
                    }
                }
                rd.set_style(style.clone());
                before.extend(row_desc(rd));
            }
            "col" => {
                let num: u32 = a[3].parse().map_err(|_| "bad col")?;
                let cd = ws.get_column_dimension_by_number_mut(&num);
                for (k, v) in flds(a[4]) {
                    match k {
                        "w" => {
                            cd.set_width(v.parse::<f64>().unwrap());
                        }
                        "d" => {
                            cd.set_hidden(v == "1");
                        }
                        "b" => {
                            cd.set_best_fit(v == "1");
                        }
                        _ => return Err("bad col field".into()),
                    }
                }
                cd.set_style(style.clone());
                before.extend(col_desc(cd));
            }
            _ => return Err("bad kind".into()),
        }
        let mut buf: Vec<u8> = Vec::new();
        umya_spreadsheet::writer::xlsx::write_writer(&book, Cursor::new(&mut buf)).map_err(|e| format!("{:?}", e))?;
        Ok((buf, before))
    });
    let (buf, before) = match built {
        Ok(Ok(x)) => x,
        Ok(Err(e)) => {
            out.oracle_fail(Fail::new("codec-save-failed").with("op", line).with("detail", e));
            return ("ok".into(), false);
        }
        Err(_) => {
            out.oracle_fail(Fail::new("codec-save-panic").with("op", line));
            return ("ok".into(), false);
        }
    };
    let parts = zip_text(&buf, "xl/styles.xml").and_then(|s| zip_text(&buf, "xl/worksheets/sheet1.xml").map(|w| (s, w)));
    let (styles, sheet) = match parts {
        Ok(x) => x,
        Err(e) => {
            out.oracle_fail(Fail::new("codec-part-missing").with("op", line).with("detail", e));
            return ("ok".into(), false);
        }
    };
    // reload, getters
    let after = guard(|| -> Result<Vec<(String, String)>, String> {
        let re = umya_spreadsheet::reader::xlsx::read_reader(Cursor::new(buf.clone()), true).map_err(|e| format!("{:?}", e))?;
        let ws = re.get_sheet(&0).ok_or("no sheet")?;
        match kind {
            "cell" => Ok(cdesc(ws.get_cell((1, 1)).ok_or("cell A1 missing after reload")?.get_style())),
            "row" => {
                let num: u32 = a[3].parse().unwrap();
                let rd = ws.get_row_dimension(&num).ok_or("row missing after reload")?;
                let mut d = cdesc(rd.get_style());
                d.extend(row_desc(rd));
                Ok(d)
            }
            _ => {
                let num: u32 = a[3].parse().unwrap();
                let cd = ws.get_column_dimension_by_number(&num).ok_or("column missing after reload")?;
                let mut d = cdesc(cd.get_style());
                d.extend(col_desc(cd));
                Ok(d)
            }
        }
    });
    let after = match after {
        Ok(Ok(d)) => d,
        Ok(Err(e)) => {
            out.oracle_fail(Fail::new("codec-reload-failed").with("op", line).with("detail", e));
            return ("ok".into(), false);
        }
        Err(_) => {
            out.oracle_fail(Fail::new("codec-reload-panic").with("op", line));
            return ("ok".into(), false);
        }
    };
    // the property's own oracle: every attribute that was given shows the same value after reload
    let mut bad = false;
    for (k, v) in &before {
        match after.iter().find(|(k2, _)| k2 == k) {
            Some((_, v2)) if v2 == v => {}
            other => {
                bad = true;
                // strings travel hex-encoded in the descriptors; the record shows the plain value where it is an enum
                out.oracle_fail(
                    Fail::new("roundtrip")
                        .with("op", line)
                        .with("target", format!("codec {}", kind))
                        .with("attr", k)
                        .with("set", v)
                        .with("got", other.map(|(_, v2)| v2.as_str()).unwrap_or("<absent>"))
                        .with("style", enc),
                );
                break;
            }
        }
    }
    if !bad {
        out.oracle_ok();
    }
    out.count_n("codec.getters-compared", before.len() as u64);
    // the derived request for the model
    let head: Vec<&str> = a[2..a.len()].to_vec();
    let derived = format!("c05 codecx {} {} {} {}", head.join(" "), hex(&styles), hex(&sheet), desc_text(&after));
    out.begin(&derived);
    out.end(&derived, "ok", true);
    ("ok".into(), true)
}

/// the generated requests (each is its own case: `c05 reset` in front)
pub fn gen(v: &mut Vec<String>, rng: &mut Rng, fonts: &[String], fills: &[String], borders: &[String], misc: &[String], nfs: &[String], random_styles: &[String]) {
    let mut cell = |v: &mut Vec<String>, enc: &str| {
        if enc == "-" || enc.starts_with('X') {
            return;
        }
        v.push("c05 reset".to_string());
        v.push(format!("c05 codec cell {}", enc));
    };
    for group in [fonts, fills, borders, misc, nfs, random_styles] {
        for enc in group {
            cell(v, enc);
        }
    }
    // extra boundary values the attribute lists above do not have
    let fg = format!("a~{}~-", hex("FF123456"));
    let extra: Vec<String> = vec![
        "Fy=2147483647".into(),
        "Fy=-2147483648".into(),
        "Fh=-5".into(),
        "Fz=0".into(),
        "Fz=0.0000001".into(),
        "Fz=123456789012345680000".into(),
        format!("Fn={}", hex("A&B <\"x\"> 'y'\t\n z")),
        format!("Fn={}", hex(" lead and trail ")),
        "Fc=t~4294967295~-".into(),
        "Fc=i~4294967295~1".into(),
        format!("Fc=a~{}~-", hex("not a colour & <>")),
        format!("Fc=a~{}~-1", hex("FF000000")),
        "Fc=-~-~0.5".into(),
        "Fb=1,i=1,s=1,u=single".into(),
        "Fb=0,i=0,s=0,u=none".into(),
        "Ar=4294967295".into(),
        // `fillNoneFg` of Thm/C05Codec.lean: the counter-example of the former known finding (fill none + fgColor
        // reloaded as solid), repaired by 90daeac — it must now come back as it was set
        format!("Pt=none,f=a~{}~-", hex("FF112233")),
        format!("Pt=none,f={}", fg),
        format!("Pf={}", fg),
        "Pt=solid,f=-~-~-".into(),
        "Pt=gray125,f=-~-~-,b=-~-~-".into(),
        "Pt=none,f=-~-~-".into(),
        format!("Pt=solid,f=t~2~0.1,b=a~{}~-", hex("FF000000")),
        "G0".into(),
        "G-45.5,0~t~1~-,0.25~i~3~0.5,1~-~-~-".into(),
        format!("Nc{}", hex("0.0 \"a&b\" <x>;[Red]-0.0")),
        format!("Nc{}", hex("#,##0.00 \u{20ac};@ \t")),
        "Bl=thin~-~-~-,r=thin~-~-~-,t=thin~-~-~-,b=thin~-~-~-,d=thin~-~-~-,v=thin~-~-~-,h=thin~-~-~-,dd=1,du=1".into(),
        "Bv=none~-~-~-,h=-~-~-~0.5".into(),
        "Bv=none~t~1~-".into(),
        format!("Fn={},z=9,b=1/Pt=solid,f={}/Bl=thick~i~5~-/Ah=left,w=1/Lk=0,h=1/Nc{}", hex("Courier"), fg, hex("0.000")),
    ];
    for enc in &extra {
        cell(v, enc);
    }
    // rows
    let row_fields = [
        "h=15", "h=22.5", "h=0", "h=409.5", "h=0.75", "c=1", "c=0", "d=1", "d=0", "t=1", "t=0", "s=0.25", "h=30,c=0", "h=12.75,d=1,t=1,s=0.2", "c=1,d=1",
        "h=18,c=1,d=0,t=0",
    ];
    for (i, f) in row_fields.iter().enumerate() {
        let enc = if i % 3 == 0 { "Fb=1".to_string() } else if i % 3 == 1 { "-".to_string() } else { random_styles[i % random_styles.len()].clone() };
        v.push("c05 reset".to_string());
        v.push(format!("c05 codec row {} {} {}", 1 + (rng.below(40) as u32) * (1 + i as u32 % 3), f, enc));
    }
    v.push("c05 reset".to_string());
    v.push("c05 codec row 1048576 h=20 Fi=1".to_string());
    v.push("c05 reset".to_string());
    v.push("c05 codec row 3 - Fi=1".to_string());
    // columns
    let col_fields = ["w=8.38", "w=12.5", "w=0", "w=255", "w=0.1", "-", "d=1", "d=0", "b=1", "b=0", "w=20,d=1,b=1", "w=9.140625,b=1"];
    for (i, f) in col_fields.iter().enumerate() {
        let enc = if i % 3 == 0 { "-".to_string() } else if i % 3 == 1 { format!("Pt=solid,f={}", fg) } else { random_styles[(i * 7) % random_styles.len()].clone() };
        v.push("c05 reset".to_string());
        v.push(format!("c05 codec col {} {} {}", 1 + rng.below(30) as u32, f, enc));
    }
    v.push("c05 reset".to_string());
    v.push("c05 codec col 16384 w=11 Fb=1".to_string());
}
