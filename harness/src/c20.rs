//! C20 — CSV export is a faithful rectangular rendering of the active sheet.
//!
//! Stateful protocol (a case starts with `c20 reset`):
//!   c20 reset                         -> ok 0 1            (new_file(): one sheet, active tab 0)
//!   c20 newsheet                      -> ok <active> <n>   (appends a sheet)
//!   c20 rmsheet <i>                   -> ok <active> <n> | err
//!   c20 active <i>                    -> ok <active> <n>   (set_active_sheet, unchecked by the crate)
//!   c20 set <sheet> <row> <col> <hex> -> ok | nosheet      (set_value_string on a cell)
//!   c20 csv <enc> <trim> <wrapHex> <r|u>      -> ok b:<hex bytes> (utf-8/16) | ok t:<hex decoded text> (legacy) | panic
//!   c20 csvfile <enc> <trim> <wrapHex> <r|u>  -> same, through writer::csv::write + reading the file back
//!   c20 parse <dHex> <qHex> <textHex> -> ok <n> <records> | err      (stateless: ties the two RFC 4180 parsers)
//!   c20 parsew <wHex> <textHex>       -> ok <n> <records> | err      (stateless: ties the two string-quote readers)
//!   c20 trim <hex>                    -> <hex of str::trim>           (stateless: ties the White_Space table)
//! A wrap string of two or more characters is modelled by Umya/Model/CsvWrap.lean (theorem
//! C20_wrap_string_roundtrip); the harness reads the real text back with its own string-quote reader.
//! The flag r/u says whether every value of the active sheet survives encode+decode of the selected
//! encoding (computed with encoding_rs by the generator); `u` lines are outside the model.
use crate::common::*;
use std::collections::BTreeMap;
use std::str::FromStr;
use umya_spreadsheet::structs::{CsvEncodeValues, CsvWriterOption, Spreadsheet};

pub const ENCODINGS: [&str; 10] = [
    "utf_8", "shift_jis", "koi_8_u", "koi_8_r", "iso_8859_8_i", "gbk", "euc_kr", "big_5", "utf_16_le", "utf_16_be",
];

fn legacy(enc: &str) -> Option<&'static encoding_rs::Encoding> {
    Some(match enc {
        "shift_jis" => encoding_rs::SHIFT_JIS,
        "koi_8_u" => encoding_rs::KOI8_U,
        "koi_8_r" => encoding_rs::KOI8_R,
        "iso_8859_8_i" => encoding_rs::ISO_8859_8_I,
        "gbk" => encoding_rs::GBK,
        "euc_kr" => encoding_rs::EUC_KR,
        "big_5" => encoding_rs::BIG5,
        _ => return None,
    })
}

/// does `s` survive encode + decode of `enc`?
pub fn representable(enc: &str, s: &str) -> bool {
    match legacy(enc) {
        None => true,
        Some(e) => {
            let (bytes, _, bad) = e.encode(s);
            if bad {
                return false;
            }
            let (back, bad2) = e.decode_without_bom_handling(&bytes);
            !bad2 && back == s
        }
    }
}

/// what encode + decode of the code page makes of `s` (`&#NNNN;` for unmappable characters)
fn through_codepage(enc: &str, s: &str) -> String {
    match legacy(enc) {
        None => s.to_string(),
        Some(e) => {
            let (bytes, _, _) = e.encode(s);
            e.decode_without_bom_handling(&bytes).0.into_owned()
        }
    }
}

/// decode the bytes written for encoding `enc`
fn decode(enc: &str, bytes: &[u8]) -> Result<String, String> {
    match enc {
        "utf_8" => String::from_utf8(bytes.to_vec()).map_err(|e| e.to_string()),
        "utf_16_le" | "utf_16_be" => {
            if bytes.len() % 2 != 0 {
                return Err("odd number of bytes".into());
            }
            let units: Vec<u16> = bytes
                .chunks(2)
                .map(|p| if enc == "utf_16_le" { u16::from_le_bytes([p[0], p[1]]) } else { u16::from_be_bytes([p[0], p[1]]) })
                .collect();
            String::from_utf16(&units).map_err(|e| e.to_string())
        }
        _ => {
            let e = legacy(enc).ok_or("unknown encoding")?;
            let (s, bad) = e.decode_without_bom_handling(bytes);
            if bad {
                Err("malformed byte sequence".into())
            } else {
                Ok(s.into_owned())
            }
        }
    }
}

/// Independent RFC 4180 reader (recursive descent over a char vector; strict: bare CR/LF, a quote
/// inside a non-escaped field, garbage after a closing quote and an unterminated escaped field are
/// errors).  Every CRLF outside quotes terminates a record; a final record without CRLF counts if
/// at least one character was consumed for it.  An empty line is a record with one empty field.
pub fn parse_csv(d: char, q: char, text: &str) -> Option<Vec<Vec<String>>> {
    if d == q || d == '\r' || d == '\n' || q == '\r' || q == '\n' {
        return None;
    }
    let t: Vec<char> = text.chars().collect();
    let mut pos = 0usize;
    let mut records = vec![];
    while pos < t.len() {
        let mut fields = vec![];
        loop {
            let mut f = String::new();
            if pos < t.len() && t[pos] == q {
                pos += 1;
                loop {
                    if pos >= t.len() {
                        return None;
                    }
                    if t[pos] == q {
                        if pos + 1 < t.len() && t[pos + 1] == q {
                            f.push(q);
                            pos += 2;
                        } else {
                            pos += 1;
                            break;
                        }
                    } else {
                        f.push(t[pos]);
                        pos += 1;
                    }
                }
            } else {
                while pos < t.len() && t[pos] != d && t[pos] != '\r' {
                    if t[pos] == '\n' || t[pos] == q {
                        return None;
                    }
                    f.push(t[pos]);
                    pos += 1;
                }
            }
            fields.push(f);
            if pos >= t.len() {
                break;
            }
            if t[pos] == d {
                pos += 1;
                continue;
            }
            if t[pos] == '\r' && pos + 1 < t.len() && t[pos + 1] == '\n' {
                pos += 2;
                break;
            }
            return None;
        }
        records.push(fields);
    }
    Some(records)
}

/// Reader for text in which every field is wrapped in the string `w` (one or more characters):
/// `w` opens and closes a field, `w w` inside a field is one `w` of text; after the closing `w`
/// only `,`, CRLF or the end of the text may follow.  Independent of the Lean reader `parseW`.
pub fn parse_csv_w(w: &str, text: &str) -> Option<Vec<Vec<String>>> {
    let w: Vec<char> = w.chars().collect();
    if w.is_empty() {
        return None;
    }
    let ww: Vec<char> = w.iter().chain(w.iter()).copied().collect();
    let t: Vec<char> = text.chars().collect();
    let at = |pos: usize, pat: &[char]| pos + pat.len() <= t.len() && &t[pos..pos + pat.len()] == pat;
    let mut pos = 0usize;
    let mut records = vec![];
    while pos < t.len() {
        let mut fields = vec![];
        loop {
            if !at(pos, &w) {
                return None;
            }
            pos += w.len();
            let mut f = String::new();
            loop {
                if pos >= t.len() {
                    return None;
                }
                if at(pos, &ww) {
                    f.extend(w.iter());
                    pos += ww.len();
                } else if at(pos, &w) {
                    pos += w.len();
                    break;
                } else {
                    f.push(t[pos]);
                    pos += 1;
                }
            }
            fields.push(f);
            if pos >= t.len() {
                break;
            }
            if t[pos] == ',' {
                pos += 1;
                continue;
            }
            if t[pos] == '\r' && pos + 1 < t.len() && t[pos + 1] == '\n' {
                pos += 2;
                break;
            }
            return None;
        }
        records.push(fields);
    }
    Some(records)
}

/// no proper non-empty prefix of `w` is a suffix of `w` (side condition of C20_wrap_string_roundtrip)
pub fn unbordered(w: &[char]) -> bool {
    (1..w.len()).all(|k| w[..k] != w[w.len() - k..])
}

fn grid_str(g: &[Vec<String>]) -> String {
    let recs: Vec<String> = g.iter().map(|r| r.iter().map(|f| hex(f)).collect::<Vec<_>>().join(",")).collect();
    if recs.is_empty() {
        "ok 0".into()
    } else {
        format!("ok {} {}", g.len(), recs.join(";"))
    }
}

pub struct St {
    book: Spreadsheet,
    /// the harness' own record of what was stored: one map per sheet, (row, col) -> text
    shadow: Vec<BTreeMap<(u32, u32), String>>,
    /// active index according to the documented behaviour (remove clamps into the list)
    active: u32,
    tmp: std::path::PathBuf,
    counter: u32,
}

impl St {
    pub fn new(dir: &std::path::Path) -> Self {
        St { book: umya_spreadsheet::new_file(), shadow: vec![BTreeMap::new()], active: 0, tmp: dir.join("c20_tmp.csv"), counter: 0 }
    }
    fn view(&self) -> String {
        format!("ok {} {}", self.book.get_workbook_view().get_active_tab(), self.book.get_sheet_count())
    }
}

fn expected_grid(sh: &BTreeMap<(u32, u32), String>, trim: bool) -> Vec<Vec<String>> {
    let maxr = sh.keys().map(|k| k.0).max().unwrap_or(0);
    let maxc = sh.keys().map(|k| k.1).max().unwrap_or(0);
    (1..=maxr)
        .map(|r| {
            (1..=maxc)
                .map(|c| {
                    let v = sh.get(&(r, c)).cloned().unwrap_or_default();
                    if trim {
                        v.trim().to_string()
                    } else {
                        v
                    }
                })
                .collect()
        })
        .collect()
}

pub fn exec(out: &mut Out, st: &mut St, line: &str) -> (String, bool) {
    let a: Vec<&str> = line.split(' ').collect();
    if a.len() < 2 {
        return ("bad-op".into(), false);
    }
    match a[1] {
        "reset" => {
            let tmp = st.tmp.clone();
            *st = St::new(tmp.parent().unwrap());
            (st.view(), false)
        }
        "newsheet" => {
            st.counter += 1;
            let name = format!("N{}", st.counter);
            match guard(|| st.book.new_sheet(name).is_ok()) {
                Ok(true) => {
                    st.shadow.push(BTreeMap::new());
                    (st.view(), false)
                }
                Ok(false) => ("err".into(), false),
                Err(_) => ("panic".into(), false),
            }
        }
        "rmsheet" => {
            let i: usize = a[2].parse().unwrap();
            match guard(|| st.book.remove_sheet(i).is_ok()) {
                Ok(true) => {
                    if i < st.shadow.len() {
                        st.shadow.remove(i);
                    }
                    // documented expectation: the active tab keeps pointing into the list
                    let last = st.shadow.len().saturating_sub(1) as u32;
                    if st.active > last {
                        st.active = last;
                    }
                    (st.view(), false)
                }
                Ok(false) => ("err".into(), false),
                Err(_) => ("panic".into(), false),
            }
        }
        "active" => {
            let i: u32 = a[2].parse().unwrap();
            st.book.set_active_sheet(i);
            st.active = i;
            (st.view(), false)
        }
        "set" => {
            let s: usize = a[2].parse().unwrap();
            let r: u32 = a[3].parse().unwrap();
            let c: u32 = a[4].parse().unwrap();
            let v = String::from_utf8(unhex(a[5])).unwrap();
            let res = guard(|| match st.book.get_sheet_mut(&s) {
                Some(ws) => {
                    ws.get_cell_mut((c, r)).set_value_string(v.clone());
                    true
                }
                None => false,
            });
            match res {
                Ok(true) => {
                    st.shadow[s].insert((r, c), v);
                    ("ok".into(), false)
                }
                Ok(false) => ("nosheet".into(), false),
                Err(_) => ("panic".into(), false),
            }
        }
        "del" => {
            // remove_cell before the export: the loop bounds come from the ordered indexes, which a
            // removal must keep in step with the map
            let s: usize = a[2].parse().unwrap();
            let r: u32 = a[3].parse().unwrap();
            let c: u32 = a[4].parse().unwrap();
            let res = guard(|| match st.book.get_sheet_mut(&s) {
                Some(ws) => {
                    ws.remove_cell((c, r));
                    true
                }
                None => false,
            });
            match res {
                Ok(true) => {
                    st.shadow[s].remove(&(r, c));
                    ("ok".into(), false)
                }
                Ok(false) => ("nosheet".into(), false),
                Err(_) => ("panic".into(), false),
            }
        }
        "csv" | "csvfile" => {
            let enc = a[2];
            let trim = a[3] == "1";
            let wrap = String::from_utf8(unhex(a[4])).unwrap();
            let flag = a[5];
            let mut opt = CsvWriterOption::default();
            opt.set_csv_encode_value(CsvEncodeValues::from_str(enc).unwrap());
            opt.set_do_trim(trim);
            opt.set_wrap_with_char(wrap.clone());
            let via_file = a[1] == "csvfile";
            let res: Result<Option<Vec<u8>>, ()> = guard(|| {
                if via_file {
                    let _ = std::fs::remove_file(&st.tmp);
                    match umya_spreadsheet::writer::csv::write(&st.book, &st.tmp, Some(&opt)) {
                        Ok(()) => std::fs::read(&st.tmp).ok(),
                        Err(_) => None,
                    }
                } else {
                    let mut cur = std::io::Cursor::new(Vec::new());
                    match umya_spreadsheet::writer::csv::write_writer(&st.book, &mut cur, &opt) {
                        Ok(()) => Some(cur.into_inner()),
                        Err(_) => None,
                    }
                }
            });
            let in_range = (st.active as usize) < st.shadow.len();
            let opts_s = format!("enc={} trim={} wrap={}", enc, a[3], hex(&wrap));
            let bytes = match res {
                Err(_) => {
                    if in_range {
                        out.oracle_fail(
                            Fail::new("csv-panic")
                                .with("op", line)
                                .with("opts", &opts_s)
                                .with("active", st.active.to_string())
                                .with("actual_active_tab", st.book.get_workbook_view().get_active_tab().to_string())
                                .with("sheets", st.shadow.len().to_string()),
                        );
                    } else {
                        out.count("csv.caller_set_active_out_of_range");
                    }
                    return ("panic".into(), false);
                }
                Ok(None) => {
                    out.oracle_fail(Fail::new("csv-err").with("op", line).with("opts", &opts_s));
                    return ("err".into(), false);
                }
                Ok(Some(b)) => b,
            };
            if !in_range {
                // the crate produced output although no sheet is active by the documented rule
                out.oracle_fail(Fail::new("csv-active-mismatch").with("op", line).with("opts", &opts_s));
                return (format!("ok b:{}", hexb(&bytes)), false);
            }
            let sh = &st.shadow[st.active as usize];
            let exp = expected_grid(sh, trim);
            let decoded = decode(enc, &bytes);
            let reply = if legacy(enc).is_some() {
                match &decoded {
                    Ok(t) => format!("ok t:{}", hex(t)),
                    Err(_) => format!("ok b:{}", hexb(&bytes)),
                }
            } else {
                format!("ok b:{}", hexb(&bytes))
            };
            // oracle: a standard reader with the same delimiter / quote recovers the grid
            let wc: Vec<char> = wrap.chars().collect();
            let q = if wc.is_empty() { Some('"') } else if wc.len() == 1 { Some(wc[0]) } else { None };
            let std_cfg = matches!(q, Some(c) if c != ',' && c != '\r' && c != '\n');
            let degenerate = exp.iter().any(|r| r.is_empty());
            if wc.len() >= 2 && !degenerate {
                // wrap STRING: read the real text back with the string-quote reader
                let usable = unbordered(&wc) && wrap != "\r\n";
                let got = decoded.as_ref().ok().and_then(|t| parse_csv_w(&wrap, t));
                let same = got.as_ref() == Some(&exp);
                if usable {
                    out.count("csv.wrapstr_usable");
                    if same {
                        out.oracle_ok();
                    } else {
                        out.oracle_fail(
                            Fail::new("csv-wrapstr-grid").with("op", line).with("enc", enc).with("trim", a[3]).with("wrap", hex(&wrap)).with(
                                "detail",
                                format!("text={} got={} want={}", decoded.as_ref().map(|t| hex(t)).unwrap_or_default(), got.as_ref().map(|g| grid_str(g)).unwrap_or("err".into()), grid_str(&exp)),
                            ),
                        );
                    }
                } else {
                    // self-overlapping string (or CRLF): C20_wrap_string_overlap_fails says reading back may fail
                    out.count(if same { "csv.wrapstr_unusable_recovered" } else if got.is_none() { "csv.wrapstr_unusable_unreadable" } else { "csv.wrapstr_unusable_misread" });
                }
            } else if !std_cfg || degenerate {
                out.count(if !std_cfg { "csv.oracle_skipped_nonstandard_quote" } else { "csv.oracle_skipped_zero_columns" });
            } else {
                let fail = |class: &str, detail: String| {
                    Fail::new(class).with("op", line).with("enc", enc).with("trim", a[3]).with("wrap", hex(&wrap)).with("flag", flag).with("detail", detail)
                };
                match &decoded {
                    Err(e) => out.oracle_fail(fail("csv-decode", e.clone())),
                    Ok(text) => match parse_csv(',', q.unwrap(), text) {
                        None => out.oracle_fail(fail("csv-parse", format!("text={}", hex(text)))),
                        Some(g) => {
                            if g == exp {
                                out.oracle_ok();
                                if legacy(enc).is_some() && exp.iter().flatten().any(|v| !v.is_ascii()) {
                                    out.count("csv.legacy_non_ascii_recovered");
                                }
                            } else if flag == "u" && g == exp.iter().map(|r| r.iter().map(|v| through_codepage(enc, v)).collect::<Vec<_>>()).collect::<Vec<_>>() {
                                // right structure; the field texts differ exactly by what the code page does to them
                                out.oracle_fail(fail("csv-unrepresentable", format!("got={} want={}", grid_str(&g), grid_str(&exp))));
                            } else {
                                let shape = g.len() != exp.len() || g.iter().any(|r| r.len() != exp.first().map(|x| x.len()).unwrap_or(0));
                                out.oracle_fail(fail(
                                    if shape { "csv-shape" } else { "csv-grid" },
                                    format!("text={} got={} want={}", hex(text), grid_str(&g), grid_str(&exp)),
                                ));
                            }
                        }
                    },
                }
            }
            let nt = !exp.is_empty();
            (reply, nt)
        }
        "trim" => {
            // str::trim on its own (ties the model's White_Space table to char::is_whitespace)
            let v = String::from_utf8(unhex(a[2])).unwrap();
            (hex(v.trim()), !v.is_empty())
        }
        "parsew" => {
            let w = String::from_utf8(unhex(a[2])).unwrap();
            let t = String::from_utf8(unhex(a[3])).unwrap();
            match parse_csv_w(&w, &t) {
                Some(g) => {
                    let nt = !g.is_empty();
                    (grid_str(&g), nt)
                }
                None => ("err".into(), false),
            }
        }
        "parse" => {
            let d: Vec<char> = String::from_utf8(unhex(a[2])).unwrap().chars().collect();
            let q: Vec<char> = String::from_utf8(unhex(a[3])).unwrap().chars().collect();
            let t = String::from_utf8(unhex(a[4])).unwrap();
            if d.len() != 1 || q.len() != 1 {
                return ("bad-op".into(), false);
            }
            match parse_csv(d[0], q[0], &t) {
                Some(g) => {
                    let nt = !g.is_empty();
                    (grid_str(&g), nt)
                }
                None => ("err".into(), false),
            }
        }
        _ => ("bad-op".into(), false),
    }
}

// ------------------------------------------------------------------------------------ generator

const COMMON: &[&str] = &[
    ",", ",", "\"", "\"", "'", "'", "\r", "\n", "\r\n", "\t", " ", " ", "a", "b", "Z", "0", "7", ";", "&", "#", "<", "\u{1}",
];
const WIDE: &[&str] = &[
    "é", "ж", "Я", "日", "あ", "ｱ", "한", "א", "中", "國", "😀", "𝄞", "\u{a0}", "\u{2028}", "\u{3000}", "\u{fffe}", "¥", "€", "\u{85}",
];
const WHOLE: &[&str] = &[
    "", "", " ", "  ", "TRUE", "123", "#N/A", "1e5", "-0", "\"\"", "\",\"", "\"", "'", "''", ",", ",,", "\r\n", "\n", "\r", "a,b", "q\"r",
    " x ", "\tx\n", "a\r\nb", "\"a\"", "'a'", "&#128512;", "x\u{3000}",
];

fn enc_alphabet(enc: &str) -> &'static [&'static str] {
    match enc {
        "shift_jis" => &["日", "あ", "ｱ", "本", "、"],
        "koi_8_u" => &["ж", "Я", "є", "ї"],
        "koi_8_r" => &["ж", "Я", "ё", "═"],
        "iso_8859_8_i" => &["א", "ב", "ת", "×"],
        "gbk" => &["中", "日", "国", "€", "é"],
        "euc_kr" => &["한", "글", "日"],
        "big_5" => &["中", "國", "日"],
        _ => &["é", "日", "😀"],
    }
}

fn rand_value(rng: &mut Rng, focus: Option<&str>) -> String {
    if rng.chance(1, 4) {
        return (*rng.pick(WHOLE)).to_string();
    }
    let n = match rng.below(10) {
        0 => 0,
        1..=6 => rng.range(1, 4),
        7 | 8 => rng.range(5, 9),
        _ => rng.range(10, 24),
    };
    let mut s = String::new();
    for _ in 0..n {
        let k = rng.below(10);
        if k < 6 {
            s.push_str(*rng.pick(COMMON));
        } else if let Some(e) = focus {
            s.push_str(*rng.pick(enc_alphabet(e)));
        } else {
            s.push_str(*rng.pick(WIDE));
        }
    }
    s
}

struct Shadow {
    sheets: Vec<BTreeMap<(u32, u32), String>>,
    active: u32,
}

fn csv_line(rng: &mut Rng, sh: &Shadow, enc: &str, trim: bool, wrap: &str) -> String {
    let rep = match sh.sheets.get(sh.active as usize) {
        Some(m) => m.values().all(|v| representable(enc, v) && representable(enc, v.trim())),
        None => true,
    };
    let op = if rng.chance(1, 12) { "csvfile" } else { "csv" };
    format!("c20 {} {} {} {} {}", op, enc, if trim { 1 } else { 0 }, hex(wrap), if rep { "r" } else { "u" })
}

fn gen_case(rng: &mut Rng, v: &mut Vec<String>, idx: u64) {
    let mut sh = Shadow { sheets: vec![BTreeMap::new()], active: 0 };
    v.push("c20 reset".into());
    // a case is either free-alphabet or focused on one legacy encoding's repertoire
    let focus: Option<&str> = if rng.chance(1, 2) { Some(ENCODINGS[(idx % 10) as usize]) } else { None };
    let extra = if rng.chance(1, 3) { rng.range(1, 3) } else { 0 };
    for _ in 0..extra {
        v.push("c20 newsheet".into());
        sh.sheets.push(BTreeMap::new());
    }
    let (maxr, maxc) = match rng.below(8) {
        0 => (1, 1),
        1 => (rng.range(1, 9), 1),
        2 => (1, rng.range(1, 9)),
        3 => (rng.range(10, 40), rng.range(1, 3)),
        _ => (rng.range(1, 8), rng.range(1, 6)),
    };
    let ncells = match rng.below(12) {
        0 => 0,
        1 => 1,
        _ => rng.range(1, 2 + maxr.min(8) * maxc.min(6) / 2),
    };
    let nsh = sh.sheets.len() as u64;
    for _ in 0..ncells {
        let s = rng.below(nsh) as usize;
        let r = if rng.chance(1, 60) { 0 } else { rng.range(1, maxr) as u32 };
        let c = if rng.chance(1, 60) { 0 } else { rng.range(1, maxc) as u32 };
        let val = rand_value(rng, focus);
        v.push(format!("c20 set {} {} {} {}", s, r, c, hex(&val)));
        sh.sheets[s].insert((r, c), val);
    }
    // removals (often of the right-most / bottom-most cells: they decide the loop bounds)
    if rng.chance(1, 2) {
        for _ in 0..rng.range(1, 3) {
            let s = rng.below(nsh) as usize;
            let keys: Vec<(u32, u32)> = sh.sheets[s].keys().copied().collect();
            if keys.is_empty() {
                continue;
            }
            let k = if rng.chance(1, 2) {
                *keys.iter().max_by_key(|k| (k.1, k.0)).unwrap()
            } else {
                *rng.pick(&keys)
            };
            v.push(format!("c20 del {} {} {}", s, k.0, k.1));
            sh.sheets[s].remove(&k);
        }
    }
    if rng.chance(1, 25) {
        v.push(format!("c20 set {} 1 1 {}", nsh + rng.below(2), hex("x"))); // no such sheet
    }
    // sheet list edits / active selection
    if nsh > 1 || rng.chance(1, 10) {
        for _ in 0..rng.range(1, 3) {
            match rng.below(4) {
                0 | 1 => {
                    let i = if rng.chance(1, 8) { sh.sheets.len() as u64 + rng.below(2) } else { rng.below(sh.sheets.len() as u64) };
                    v.push(format!("c20 active {}", i));
                    sh.active = i as u32;
                }
                2 => {
                    if sh.sheets.len() > 1 || rng.chance(1, 6) {
                        let i = rng.below(sh.sheets.len() as u64 + 1) as usize;
                        v.push(format!("c20 rmsheet {}", i));
                        if i < sh.sheets.len() {
                            sh.sheets.remove(i);
                            let last = sh.sheets.len().saturating_sub(1) as u32;
                            if sh.active > last {
                                sh.active = last;
                            }
                        }
                    }
                }
                _ => {
                    v.push("c20 newsheet".into());
                    sh.sheets.push(BTreeMap::new());
                }
            }
        }
    }
    // exports: the focus encoding (if any) first, then a rotating selection of all combinations
    let wraps = ["", "\"", "'"];
    if let Some(e) = focus {
        let (t, w) = (rng.chance(1, 2), *rng.pick(&wraps));
        let l = csv_line(rng, &sh, e, t, w);
        v.push(l);
    }
    let k = rng.range(3, 6);
    for j in 0..k {
        let combo = (idx * 7 + j * 13 + rng.below(60)) % 60;
        let enc = ENCODINGS[(combo % 10) as usize];
        let trim = (combo / 10) % 2 == 1;
        let wrap = wraps[(combo / 20) as usize];
        let l = csv_line(rng, &sh, enc, trim, wrap);
        v.push(l);
    }
    if rng.chance(1, 20) {
        // quote settings outside the property's quantifier (multi-character, delimiter, line break)
        let w = *rng.pick(&["\"\"", "ab", ",", "\r", "\n", "|", "日", "😀"]);
        let t = rng.chance(1, 2);
        let l = csv_line(rng, &sh, "utf_8", t, w);
        v.push(l);
    }
}

/// wrap strings of two or more characters: usable ones and self-overlapping ones
const WRAP_STRINGS: &[&str] = &[
    "ab", "\"'", "aab", "abb", "<>", "||x", ",x", "x,", "\n\r", "日本", "😀é", "a\r\nb", "abc", "ba",
    "aa", "aba", "\"\"", "''", "abab", "aaa", "abca", "\r\n", ",,", "日日", "a,a",
];

/// a case whose values are built from the pieces of the wrap string, then exported with it
fn gen_wrap_case(rng: &mut Rng, v: &mut Vec<String>, idx: u64) {
    let w = WRAP_STRINGS[(idx % WRAP_STRINGS.len() as u64) as usize];
    let wc: Vec<char> = w.chars().collect();
    v.push("c20 reset".into());
    let (maxr, maxc) = (rng.range(1, 4), rng.range(1, 4));
    let n = rng.range(1, 8);
    for _ in 0..n {
        let mut val = String::new();
        for _ in 0..rng.below(7) {
            match rng.below(8) {
                0 | 1 => val.push_str(w),
                2 | 3 => val.push(*rng.pick(&wc)),
                4 => val.extend(wc[..rng.below(wc.len() as u64 + 1) as usize].iter()),
                5 => val.extend(wc[rng.below(wc.len() as u64) as usize..].iter()),
                6 => val.push_str(*rng.pick(COMMON)),
                _ => val.push_str(*rng.pick(&["a", "b", "x", " "])),
            }
        }
        v.push(format!("c20 set 0 {} {} {}", rng.range(1, maxr), rng.range(1, maxc), hex(&val)));
    }
    let enc = *rng.pick(&["utf_8", "utf_8", "utf_16_le", "utf_16_be"]);
    let op = if rng.chance(1, 12) { "csvfile" } else { "csv" };
    v.push(format!("c20 {} {} {} {} r", op, enc, rng.below(2), hex(w)));
}

fn gen_parsew(rng: &mut Rng, v: &mut Vec<String>, n: u64) {
    for i in 0..n {
        let w = WRAP_STRINGS[(i % WRAP_STRINGS.len() as u64) as usize];
        let wc: Vec<char> = w.chars().collect();
        let mut t = String::new();
        for _ in 0..rng.below(12) {
            match rng.below(10) {
                0..=3 => t.push_str(w),
                4 => t.push(*rng.pick(&wc)),
                5 | 6 => t.push(','),
                7 => t.push_str("\r\n"),
                8 => t.push_str(*rng.pick(&["\r", "\n", "x"])),
                _ => t.push_str(*rng.pick(&["a", "b"])),
            }
        }
        v.push(format!("c20 parsew {} {}", hex(w), hex(&t)));
    }
    for (w, t) in [("", "x"), ("ab", ""), ("ab", "abab"), ("ab", "abab,"), ("ab", "abab\r\n"), ("ab", "abab\r"), ("ab", "ababab"), ("ab", "abababab"), ("aa", "aaaaa\r\n")] {
        v.push(format!("c20 parsew {} {}", hex(w), hex(t)));
    }
}

fn gen_parse(rng: &mut Rng, v: &mut Vec<String>, n: u64) {
    let alpha = [",", ",", "\"", "\"", "'", "\r\n", "\r\n", "\r", "\n", "a", "b", " ", ";", "é", "😀"];
    for _ in 0..n {
        let len = rng.below(14);
        let t: String = (0..len).map(|_| *rng.pick(&alpha)).collect();
        let (d, q) = *rng.pick(&[(",", "\""), (",", "\""), (",", "'"), (";", "\""), (",", ","), ("\r", "\""), (",", "\n"), ("a", "b")]);
        v.push(format!("c20 parse {} {} {}", hex(d), hex(q), hex(&t)));
    }
    for t in [
        "", "\r\n", "a", "a\r\n", "a,b\r\nc,d", "a,b\r\nc,d\r\n", "\"a\"", "\"a\"\r\n", "\"a\"x", "\"a", "a\"b", "\"a\"\"b\"", ",", ",\r\n", "a,", "\r\n\r\n",
        "a\rb", "a\nb", "\"a\r\nb\"", "\"\"", "\"\",\"\"\r\n", "\"\"\"\"", "a\r", "\"a\"\r", "x,\"y\"", "\"x\",y\r\n\r\n",
    ] {
        v.push(format!("c20 parse {} {} {}", hex(","), hex("\""), hex(t)));
    }
}

pub fn gen(tier: Tier, seed: u64) -> Vec<String> {
    let mut rng = Rng::new(seed);
    let mut v = vec![];
    // witnesses of the defects seen on the unchanged tree (DESIGN.md section 4, rows 16 and 24)
    for (val, wrap) in [("a,b", ""), ("q\"r", "\""), ("q\"r", ""), ("x'y", "'"), ("a\r\nb", ""), ("😀é", "")] {
        v.push("c20 reset".into());
        v.push(format!("c20 set 0 1 1 {}", hex(val)));
        v.push(format!("c20 set 0 2 2 {}", hex("z")));
        for enc in ["utf_8", "utf_16_le", "utf_16_be"] {
            v.push(format!("c20 csv {} 0 {} r", enc, hex(wrap)));
        }
    }
    v.push("c20 reset".into());
    v.push("c20 newsheet".into());
    v.push(format!("c20 set 1 1 1 {}", hex("second")));
    v.push(format!("c20 set 0 1 1 {}", hex("first")));
    v.push("c20 active 1".into());
    v.push(format!("c20 csv utf_8 0 {} r", hex("")));
    v.push("c20 rmsheet 1".into());
    v.push(format!("c20 csv utf_8 0 {} r", hex("")));
    // degenerate shapes
    v.push("c20 reset".into());
    v.push(format!("c20 csv utf_8 0 {} r", hex(""))); // empty sheet
    v.push(format!("c20 csv utf_16_le 1 {} r", hex("\"")));
    v.push(format!("c20 set 0 3 1 {}", hex(""))); // one column, every field empty
    v.push(format!("c20 csv utf_8 0 {} r", hex("")));
    v.push(format!("c20 csv utf_8 0 {} r", hex("'")));
    v.push(format!("c20 set 0 1 1 {}", hex("  ")));
    v.push(format!("c20 csv utf_8 1 {} r", hex("")));
    // cells at row / column 0 (accepted by the cell store), a far-away cell, a long value
    for (r, c) in [(1u32, 0u32), (0, 1), (0, 0), (3, 0)] {
        v.push("c20 reset".into());
        v.push(format!("c20 set 0 {} {} {}", r, c, hex("x")));
        v.push(format!("c20 csv utf_8 0 {} r", hex("")));
        v.push(format!("c20 set 0 2 2 {}", hex("y")));
        v.push(format!("c20 csv utf_8 0 {} r", hex("\"")));
    }
    v.push("c20 reset".into());
    v.push(format!("c20 set 0 300 70 {}", hex("far")));
    v.push(format!("c20 set 0 1 1 {}", hex(&"ab,\"\r\n é😀".repeat(300))));
    v.push(format!("c20 csv utf_8 1 {} r", hex("")));
    v.push(format!("c20 csv utf_16_be 0 {} r", hex("'")));
    // str::trim against the model's White_Space table: every scalar value below U+3100, then samples
    let upper = if tier == Tier::Thorough { 0x110000u32 } else { 0x3100 };
    for cp in 0..upper {
        if let Some(ch) = char::from_u32(cp) {
            v.push(format!("c20 trim {}", hex(&format!("{}x {}", ch, ch))));
        }
    }
    for cp in [0xfeffu32, 0xfffe, 0xffff, 0x10000, 0x1f600, 0xe0020, 0x10ffff, 0x180e, 0x200b, 0x2060] {
        let ch = char::from_u32(cp).unwrap();
        v.push(format!("c20 trim {}", hex(&format!("{}x{}", ch, ch))));
    }
    for t in ["", " ", "  a  b  ", "\t\r\n", "\u{a0}\u{3000}", " \u{1}x\u{1} "] {
        v.push(format!("c20 trim {}", hex(t)));
    }
    // witnesses of C20_wrap_string_overlap_fails (self-overlapping wrap strings) and the demo grid of C20Wrap.lean
    for (val, wrap) in [("a", "aa"), ("ab", "aba"), ("aaa", "aa"), ("xaby", "ab")] {
        v.push("c20 reset".into());
        v.push(format!("c20 set 0 1 1 {}", hex(val)));
        v.push(format!("c20 csv utf_8 0 {} r", hex(wrap)));
    }
    let cases = if tier == Tier::Thorough { 200_000 } else { 5_000 };
    for i in 0..cases {
        gen_case(&mut rng, &mut v, i);
    }
    for i in 0..(if tier == Tier::Thorough { 60_000 } else { 3_000 }) {
        gen_wrap_case(&mut rng, &mut v, i);
    }
    gen_parsew(&mut rng, &mut v, if tier == Tier::Thorough { 300_000 } else { 20_000 });
    gen_parse(&mut rng, &mut v, if tier == Tier::Thorough { 1_000_000 } else { 60_000 });
    v
}

pub fn run(out: &mut Out, tier: Tier, seed: u64, replay: Option<Vec<String>>) {
    let ops = match replay {
        Some(r) => r,
        None => gen(tier, seed),
    };
    let mut st = St::new(&out.dir.clone());
    for op in ops {
        let a: Vec<&str> = op.split(' ').collect();
        let kind = a.get(1).copied().unwrap_or("?").to_string();
        out.begin(&op);
        let (reply, nt) = exec(out, &mut st, &op);
        out.count(&format!("op.{}", kind));
        if kind == "csv" || kind == "csvfile" {
            out.count(&format!("enc.{}", a[2]));
            out.count(&format!("trim.{}", a[3]));
            out.count(&format!("wrap.{}", a[4]));
            out.count(&format!("flag.{}", a[5]));
            if reply == "panic" {
                out.count("csv.panic");
            } else if let Some(sh) = st.shadow.get(st.active as usize) {
                let n = sh.len();
                out.count(&format!("cells.{}", if n == 0 { "0" } else if n <= 3 { "1-3" } else if n <= 10 { "4-10" } else { "11+" }));
                let maxr = sh.keys().map(|k| k.0).max().unwrap_or(0);
                out.count(&format!("rows.{}", if maxr == 0 { "0" } else if maxr == 1 { "1" } else if maxr <= 8 { "2-8" } else { "9+" }));
                let sp = |f: &dyn Fn(&str) -> bool| sh.values().any(|v| f(v));
                if sp(&|v| v.contains(',')) { out.count("values.with_delimiter"); }
                if sp(&|v| v.contains('"')) { out.count("values.with_dquote"); }
                if sp(&|v| v.contains('\'')) { out.count("values.with_squote"); }
                if sp(&|v| v.contains('\r') || v.contains('\n')) { out.count("values.with_linebreak"); }
                if sp(&|v| v != v.trim()) { out.count("values.with_outer_blanks"); }
                if sp(&|v| !v.is_ascii()) { out.count("values.non_ascii"); }
                if sp(&|v| v.chars().any(|c| c as u32 > 0xffff)) { out.count("values.non_bmp"); }
                if sp(&|v| v.is_empty()) { out.count("values.empty"); }
            }
        } else if reply == "panic" {
            out.count(&format!("panic.{}", kind));
        }
        out.end(&op, &reply, nt);
    }
}
