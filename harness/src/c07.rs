//! C07 — structural edits relocate content exactly like a reference grid.
use crate::c10;
use crate::common::*;
use std::collections::BTreeMap;
use umya_spreadsheet::helper::coordinate::coordinate_from_index;
use umya_spreadsheet::structs::{Comment, ConditionalFormatting, ConditionalFormattingRule, Spreadsheet, Worksheet};

const MAX_ROW: u32 = 1_048_576;
const MAX_COL: u32 = 16_384;
/// content tokens from here on are formula cells (`A1+<tok>`), below they are values (`v<tok>`)
const FORMULA_TOK: u32 = 100;
/// a cell's content token in the reference grid and in the model is `value token + LINK_BASE * hyperlink token`
/// (`Umya/Model/SheetA.lean` `pack`); hyperlink token h ≥ 1 is the url `h<h>`, 0 = no hyperlink
const LINK_BASE: u32 = 1000;
fn link_tok(c: &umya_spreadsheet::structs::Cell) -> u32 {
    match c.get_hyperlink() {
        None => 0,
        Some(h) => h.get_url().strip_prefix('h').and_then(|x| x.parse().ok()).unwrap_or(999),
    }
}
fn formula_text(tok: u32) -> String {
    format!("A1+{}", tok)
}

/// The reference grid: written from the property text, independent of the library.
#[derive(Clone, Default, Debug, PartialEq)]
pub struct RefSheet {
    pub cells: BTreeMap<(u32, u32), (u32, u32)>, // (row,col) -> (value token, style token)
    pub merges: Vec<(u32, u32, u32, u32)>,       // rs re cs ce
    pub comments: Vec<(u32, u32, u32)>,          // col row id
    pub cfs: Vec<(u32, Vec<(u32, u32, u32, u32)>)>,
    pub filter: Option<(u32, u32, u32, u32)>,
}

fn shift_ins(x: u32, p: u32, n: u32) -> u32 {
    if x >= p {
        x + n
    } else {
        x
    }
}
/// interval [a,b] after deleting the band [p,p+n): None when it lay entirely inside
fn interval_rem(a: u32, b: u32, p: u32, n: u32) -> Option<(u32, u32)> {
    let inside = |x: u32| x >= p && x < p + n;
    if inside(a) && inside(b) {
        return None;
    }
    let a2 = if a < p { a } else if inside(a) { p } else { a - n };
    let b2 = if b < p { b } else if inside(b) { p - 1 } else { b - n };
    Some((a2, b2))
}

impl RefSheet {
    fn insert(&mut self, rows: bool, p: u32, n: u32) {
        let sh = |r: u32, c: u32| if rows { (shift_ins(r, p, n), c) } else { (r, shift_ins(c, p, n)) };
        self.cells = self.cells.iter().map(|(&(r, c), &v)| (sh(r, c), v)).collect();
        let rect = |(rs, re, cs, ce): (u32, u32, u32, u32)| {
            if rows {
                (shift_ins(rs, p, n), shift_ins(re, p, n), cs, ce)
            } else {
                (rs, re, shift_ins(cs, p, n), shift_ins(ce, p, n))
            }
        };
        self.merges = self.merges.iter().map(|&x| rect(x)).collect();
        self.comments = self.comments.iter().map(|&(c, r, id)| { let (r2, c2) = sh(r, c); (c2, r2, id) }).collect();
        self.cfs = self.cfs.iter().map(|(id, v)| (*id, v.iter().map(|&x| rect(x)).collect())).collect();
        self.filter = self.filter.map(rect);
    }
    fn remove(&mut self, rows: bool, p: u32, n: u32) {
        let keep = |x: u32| !(x >= p && x < p + n);
        let sh = |x: u32| if x >= p + n { x - n } else { x };
        self.cells = self
            .cells
            .iter()
            .filter(|(&(r, c), _)| keep(if rows { r } else { c }))
            .map(|(&(r, c), &v)| (if rows { (sh(r), c) } else { (r, sh(c)) }, v))
            .collect();
        let rect = |(rs, re, cs, ce): (u32, u32, u32, u32)| -> Option<(u32, u32, u32, u32)> {
            if rows {
                interval_rem(rs, re, p, n).map(|(a, b)| (a, b, cs, ce))
            } else {
                interval_rem(cs, ce, p, n).map(|(a, b)| (rs, re, a, b))
            }
        };
        self.merges = self.merges.iter().filter_map(|&x| rect(x)).collect();
        self.comments = self
            .comments
            .iter()
            .filter(|&&(c, r, _)| keep(if rows { r } else { c }))
            .map(|&(c, r, id)| if rows { (c, sh(r), id) } else { (sh(c), r, id) })
            .collect();
        self.cfs = self
            .cfs
            .iter()
            .map(|(id, v)| (*id, v.iter().filter_map(|&x| rect(x)).collect::<Vec<_>>()))
            .filter(|(_, v)| !v.is_empty())
            .collect();
        self.filter = self.filter.and_then(rect);
    }
    fn in_grid(&self) -> bool {
        self.cells.keys().all(|&(r, c)| r >= 1 && r <= MAX_ROW && c >= 1 && c <= MAX_COL)
            && self.merges.iter().chain(self.filter.iter()).all(|&(rs, re, cs, ce)| rs >= 1 && re <= MAX_ROW && cs >= 1 && ce <= MAX_COL)
    }
}

pub struct State {
    pub book: Spreadsheet,
    pub k: usize,
    pub refs: Vec<RefSheet>,
    pub dead: bool,
}
impl State {
    pub fn new(k: usize) -> Self {
        let mut book = umya_spreadsheet::new_file_empty_worksheet();
        for i in 0..k {
            book.new_sheet(format!("S{}", i)).unwrap();
        }
        book.set_active_sheet(0);
        State { book, k, refs: vec![RefSheet::default(); k], dead: false }
    }
}

fn rect(rs: u32, re: u32, cs: u32, ce: u32) -> String {
    format!("{}:{}", coordinate_from_index(&cs, &rs), coordinate_from_index(&ce, &re))
}

pub fn dump_sheet(ws: &Worksheet) -> String {
    let m: Vec<String> = ws.get_merge_cells().iter().map(|r| r.get_range()).collect();
    let cm: Vec<String> = ws
        .get_comments()
        .iter()
        .map(|c| format!("{}.{}.{}", c.get_coordinate().get_col_num(), c.get_coordinate().get_row_num(), c.get_author()))
        .collect();
    let cf: Vec<String> = ws
        .get_conditional_formatting_collection()
        .iter()
        .map(|f| {
            let id = f.get_conditional_collection().first().map(|r| *r.get_priority()).unwrap_or(0);
            let rs: Vec<String> = f.get_sequence_of_references().get_range_collection().iter().map(|r| r.get_range()).collect();
            format!("{}:{}", id, rs.join("+"))
        })
        .collect();
    let af = ws.get_auto_filter().map(|a| a.get_range().get_range()).unwrap_or("-".to_string());
    // hyperlink of every cell that has one, in (row, col) order: row.col.token
    let mut hl: Vec<(u32, u32, u32)> =
        ws.get_collection_to_hashmap().iter().filter(|(_, c)| c.get_hyperlink().is_some()).map(|(k, c)| (k.0, k.1, link_tok(c))).collect();
    hl.sort();
    let hl: Vec<String> = hl.iter().map(|(r, c, h)| format!("{}.{}.{}", r, c, h)).collect();
    format!("{};m={};cm={};cf={};af={};hl={}", c10::dump(ws), m.join(","), cm.join(","), cf.join(","), af, hl.join(","))
}

pub fn dump_book(book: &Spreadsheet, k: usize) -> String {
    (0..k).map(|i| dump_sheet(book.get_sheet(&i).unwrap())).collect::<Vec<_>>().join(" | ")
}

/// what the reference grid says the public view of sheet `i` must be
fn view_of_impl(ws: &Worksheet) -> RefSheet {
    let mut r = RefSheet::default();
    for (k, c) in ws.get_collection_to_hashmap().iter() {
        r.cells.insert(*k, (c10::tok_of_cell(c) + LINK_BASE * link_tok(c), c10::tok_of_style(c.get_style())));
    }
    let corners = |rg: &umya_spreadsheet::structs::Range| {
        (
            rg.get_coordinate_start_row().map(|x| *x.get_num()).unwrap_or(0),
            rg.get_coordinate_end_row().map(|x| *x.get_num()).unwrap_or(0),
            rg.get_coordinate_start_col().map(|x| *x.get_num()).unwrap_or(0),
            rg.get_coordinate_end_col().map(|x| *x.get_num()).unwrap_or(0),
        )
    };
    r.merges = ws.get_merge_cells().iter().map(corners).collect();
    r.comments = ws
        .get_comments()
        .iter()
        .map(|c| (*c.get_coordinate().get_col_num(), *c.get_coordinate().get_row_num(), c.get_author().parse().unwrap_or(0)))
        .collect();
    r.cfs = ws
        .get_conditional_formatting_collection()
        .iter()
        .map(|f| {
            (
                f.get_conditional_collection().first().map(|r| *r.get_priority() as u32).unwrap_or(0),
                f.get_sequence_of_references().get_range_collection().iter().map(corners).collect(),
            )
        })
        .collect();
    r.filter = ws.get_auto_filter().map(|a| corners(a.get_range()));
    r
}

fn cells_only(r: &RefSheet) -> BTreeMap<(u32, u32), (u32, u32)> {
    // blank unstyled cells are not content
    r.cells.iter().filter(|(_, v)| v.0 != 0 || v.1 != 0).map(|(k, v)| (*k, *v)).collect()
}

pub fn exec(out: &mut Out, st: &mut State, line: &str) -> (String, bool) {
    let a: Vec<&str> = line.split(' ').collect();
    let n = |i: usize| -> u32 { a[i].parse().unwrap() };
    if a[1] == "reset" {
        *st = State::new(n(2) as usize);
        return ("ok".into(), false);
    }
    if st.dead {
        return ("dead".into(), false);
    }
    if a[1] == "dump" {
        return (dump_book(&st.book, st.k), true);
    }
    let i = n(2) as usize;
    let k = st.k;
    // the reference model's step
    let mut refs = st.refs.clone();
    let mut cause = "edit";
    let mut ref_defined = true;
    match a[1] {
        "cell" => match a[3] {
            "setval" => {
                let e = refs[i].cells.entry((n(5), n(4))).or_insert((0, u32::MAX));
                // set_value keeps the cell's hyperlink
                e.0 = n(6) + LINK_BASE * (e.0 / LINK_BASE);
            }
            "setcellh" => {
                // set_cell of a cell with a hyperlink: value, style and hyperlink are replaced together
                refs[i].cells.insert((n(5), n(4)), (n(6) + LINK_BASE * n(8), n(7)));
            }
            "setcell" => {
                refs[i].cells.insert((n(5), n(4)), (n(6), n(7)));
            }
            "remove" => {
                refs[i].cells.remove(&(n(5), n(4)));
            }
            "setstyle" => {
                let e = refs[i].cells.entry((n(5), n(4))).or_insert((0, 0));
                e.1 = n(6);
            }
            "move" | "copy"
                if {
                    let (rs, re, cs, ce) = (n(4) as i64, n(5) as i64, n(6) as i64, n(7) as i64);
                    let dr: i64 = a[8].parse().unwrap();
                    let dc: i64 = a[9].parse().unwrap();
                    !(1 <= rs && rs <= re && re <= MAX_ROW as i64 && 1 <= cs && cs <= ce && ce <= MAX_COL as i64
                        && 1 <= rs + dr && re + dr <= MAX_ROW as i64 && 1 <= cs + dc && ce + dc <= MAX_COL as i64)
                } =>
            {
                // arguments outside InRange (image off the grid, inverted or empty rectangle): no reference; the model says
                // exactly when the code panics (C07_move_copy_panic_iff) and what it returns otherwise; the case ends after it
                cause = "move-copy-out-of-range";
                ref_defined = false;
            }
            "move" | "copy" => {
                let (rs, re, cs, ce) = (n(4), n(5), n(6), n(7));
                let dr: i64 = a[8].parse().unwrap();
                let dc: i64 = a[9].parse().unwrap();
                // the situations the refinement theorems (C07_move_refines / C07_copy_refines) distinguish
                {
                    let w = a[3];
                    let pre = &refs[i].cells;
                    let in_src = |r: i64, c: i64| rs as i64 <= r && r <= re as i64 && cs as i64 <= c && c <= ce as i64;
                    let kind = if dr == 0 && dc == 0 {
                        "zero-offset"
                    } else if dr.abs() <= (re - rs) as i64 && dc.abs() <= (ce - cs) as i64 {
                        "overlap"
                    } else {
                        "disjoint"
                    };
                    out.count(&format!("mc.{}.{}", w, kind));
                    let mut blank_over_occupied = false;
                    let mut blank_over_occupied_inside = false;
                    let mut any_src = false;
                    let mut formula = false;
                    let mut hyperlink = false;
                    for r in rs..=re {
                        for c in cs..=ce {
                            let (r2, c2) = (r as i64 + dr, c as i64 + dc);
                            match pre.get(&(r, c)) {
                                Some(v) => {
                                    any_src = true;
                                    if v.0 % LINK_BASE >= FORMULA_TOK {
                                        formula = true;
                                    }
                                    if v.0 / LINK_BASE != 0 {
                                        hyperlink = true;
                                    }
                                }
                                None => {
                                    if pre.contains_key(&(r2 as u32, c2 as u32)) {
                                        if in_src(r2, c2) {
                                            blank_over_occupied_inside = true;
                                        } else {
                                            blank_over_occupied = true;
                                        }
                                    }
                                }
                            }
                        }
                    }
                    if blank_over_occupied {
                        // the situation of the seeded changes C07 / C07b (move: that destination cell must go; copy: it stays)
                        out.count(&format!("mc.{}.blank-source-over-occupied-destination", w));
                    }
                    if blank_over_occupied_inside {
                        out.count(&format!("mc.{}.blank-source-over-occupied-destination-inside-source", w));
                    }
                    out.count(&format!("mc.{}.{}", w, if any_src { "source-has-cells" } else { "source-all-blank" }));
                    if formula {
                        out.count(&format!("mc.{}.formula-in-rectangle", w));
                    }
                    if hyperlink {
                        out.count(&format!("mc.{}.hyperlink-in-rectangle", w));
                    }
                    if rs as i64 + dr == 1 || cs as i64 + dc == 1 {
                        out.count(&format!("mc.{}.destination-at-edge.row1-or-col1", w));
                    }
                    if re as i64 + dr == MAX_ROW as i64 || ce as i64 + dc == MAX_COL as i64 {
                        out.count(&format!("mc.{}.destination-at-edge.maxrow-or-maxcol", w));
                    }
                }
                let src: Vec<((u32, u32), (u32, u32))> = refs[i]
                    .cells
                    .iter()
                    .filter(|(&(r, c), _)| rs <= r && r <= re && cs <= c && c <= ce)
                    .map(|(k, v)| (*k, *v))
                    .collect();
                if a[3] == "move" {
                    for r in rs..=re {
                        for c in cs..=ce {
                            refs[i].cells.remove(&(r, c));
                            refs[i].cells.remove(&((r as i64 + dr) as u32, (c as i64 + dc) as u32));
                        }
                    }
                }
                for ((r, c), v) in src {
                    // "every non-blank source cell": a blank unstyled source cell carries nothing
                    refs[i].cells.insert(((r as i64 + dr) as u32, (c as i64 + dc) as u32), v);
                }
            }
            _ => ref_defined = false,
        },
        "rowdim" | "coldim" => {}
        "merge" => refs[i].merges.push((n(3), n(4), n(5), n(6))),
        "comment" => refs[i].comments.push((n(3), n(4), n(5))),
        "filter" => refs[i].filter = Some((n(3), n(4), n(5), n(6))),
        "cf" => {
            let mut v = vec![];
            let mut j = 4;
            while j + 3 < a.len() {
                v.push((n(j), n(j + 1), n(j + 2), n(j + 3)));
                j += 4;
            }
            refs[i].cfs.push((n(3), v));
        }
        "wins" | "sins" => {
            cause = "insert";
            if n(4) != 0 {
                refs[i].insert(false, n(3), n(4));
            }
            if n(6) != 0 {
                refs[i].insert(true, n(5), n(6));
            }
        }
        "wrem" | "srem" => {
            cause = "remove";
            if n(4) != 0 {
                refs[i].remove(false, n(3), n(4));
            }
            if n(6) != 0 {
                refs[i].remove(true, n(5), n(6));
            }
        }
        _ => ref_defined = false,
    }
    // move / copy: the formula texts inside the source rectangle before the step
    let mut formulas_before: Vec<((u32, u32), String)> = vec![];
    let mut mc_off: (i64, i64) = (0, 0);
    if a[1] == "cell" && (a[3] == "move" || a[3] == "copy") {
        let (rs, re, cs, ce) = (n(4), n(5), n(6), n(7));
        mc_off = (a[8].parse().unwrap(), a[9].parse().unwrap());
        for (k, c) in st.book.get_sheet(&i).unwrap().get_collection_to_hashmap().iter() {
            if c.is_formula() && rs <= k.0 && k.0 <= re && cs <= k.1 && k.1 <= ce {
                formulas_before.push((*k, c.get_formula().to_string()));
            }
        }
    }
    // the implementation's step
    let name = format!("S{}", i);
    let r = guard(|| {
        let book = &mut st.book;
        match a[1] {
            "cell" => {
                // re-use the C10 executor on sheet i
                let ws = book.get_sheet_mut(&i).unwrap();
                let rest: Vec<&str> = a[3..].to_vec();
                let nn = |j: usize| -> u32 { rest[j].parse().unwrap() };
                match rest[0] {
                    "setval" => {
                        ws.get_cell_mut((nn(1), nn(2))).set_value(format!("v{}", nn(3)));
                    }
                    "setcell" | "setcellh" => {
                        let mut c = umya_spreadsheet::structs::Cell::default();
                        c.get_coordinate_mut().set_col_num(nn(1)).set_row_num(nn(2));
                        if nn(3) >= FORMULA_TOK {
                            // a formula cell with a relative reference: the text must travel unchanged under move / copy
                            c.set_formula(formula_text(nn(3)));
                        } else if nn(3) != 0 {
                            c.set_value(format!("v{}", nn(3)));
                        }
                        if nn(4) != 0 {
                            c.set_style(c10::style_of(nn(4)));
                        }
                        if rest[0] == "setcellh" && nn(5) != 0 {
                            c.get_hyperlink_mut().set_url(format!("h{}", nn(5)));
                        }
                        ws.set_cell(c);
                    }
                    "remove" => {
                        ws.remove_cell((nn(1), nn(2)));
                    }
                    "setstyle" => {
                        ws.set_style((nn(1), nn(2)), c10::style_of(nn(3)));
                    }
                    "move" | "copy" => {
                        let dr: i32 = rest[5].parse().unwrap();
                        let dc: i32 = rest[6].parse().unwrap();
                        let rg = rect(nn(1), nn(2), nn(3), nn(4));
                        if rest[0] == "move" {
                            ws.move_range(&rg, &dr, &dc);
                        } else {
                            ws.copy_range(&rg, &dr, &dc);
                        }
                    }
                    _ => panic!("bad cell op"),
                }
            }
            "rowdim" => {
                book.get_sheet_mut(&i).unwrap().get_row_dimension_mut(&n(3)).set_style(c10::style_of(n(4)));
            }
            "coldim" => {
                book.get_sheet_mut(&i).unwrap().get_column_dimension_by_number_mut(&n(3)).set_style(c10::style_of(n(4)));
            }
            "merge" => {
                book.get_sheet_mut(&i).unwrap().add_merge_cells(rect(n(3), n(4), n(5), n(6)));
            }
            "comment" => {
                let mut c = Comment::default();
                c.new_comment((n(3), n(4)));
                c.set_author(n(5).to_string());
                c.set_text_string(format!("t{}", n(5)));
                book.get_sheet_mut(&i).unwrap().add_comments(c);
            }
            "filter" => {
                book.get_sheet_mut(&i).unwrap().set_auto_filter(rect(n(3), n(4), n(5), n(6)));
            }
            "cf" => {
                let mut f = ConditionalFormatting::default();
                let mut parts = vec![];
                let mut j = 4;
                while j + 3 < a.len() {
                    parts.push(rect(n(j), n(j + 1), n(j + 2), n(j + 3)));
                    j += 4;
                }
                f.get_sequence_of_references_mut().set_sqref(parts.join(" "));
                let mut rule = ConditionalFormattingRule::default();
                rule.set_priority(n(3) as i32);
                f.add_conditional_collection(rule);
                book.get_sheet_mut(&i).unwrap().add_conditional_formatting_collection(f);
            }
            "wins" => {
                if n(4) != 0 {
                    book.insert_new_column_by_index(&name, &n(3), &n(4));
                }
                if n(6) != 0 {
                    book.insert_new_row(&name, &n(5), &n(6));
                }
            }
            "wrem" => {
                if n(4) != 0 {
                    book.remove_column_by_index(&name, &n(3), &n(4));
                }
                if n(6) != 0 {
                    book.remove_row(&name, &n(5), &n(6));
                }
            }
            "sins" => {
                let ws = book.get_sheet_mut(&i).unwrap();
                if n(4) != 0 {
                    ws.insert_new_column_by_index(&n(3), &n(4));
                }
                if n(6) != 0 {
                    ws.insert_new_row(&n(5), &n(6));
                }
            }
            "srem" => {
                let ws = book.get_sheet_mut(&i).unwrap();
                if n(4) != 0 {
                    ws.remove_column_by_index(&n(3), &n(4));
                }
                if n(6) != 0 {
                    ws.remove_row(&n(5), &n(6));
                }
            }
            _ => panic!("bad op"),
        }
    });
    match r {
        Err(_) if cause == "move-copy-out-of-range" => {
            st.dead = true;
            out.count("move-copy-out-of-range.panic");
            ("panic".into(), false)
        }
        Err(_) => {
            st.dead = true;
            // in-range arguments must not panic
            out.oracle_fail(Fail::new("panic-in-range").with("op", line).with("cause", cause));
            ("panic".into(), false)
        }
        Ok(()) => {
            let d = match guard(|| dump_book(&st.book, k)) {
                Ok(d) => d,
                Err(_) => {
                    st.dead = true;
                    out.oracle_fail(Fail::new("observer-panic").with("op", line).with("cause", cause));
                    return ("panic".into(), false);
                }
            };
            if !formulas_before.is_empty() {
                // oracle: "formula text as they were" — the text at the translated position is the text before, character by character
                let ws = st.book.get_sheet(&i).unwrap();
                let mut bad: Option<String> = None;
                for ((r, c), text) in &formulas_before {
                    let (r2, c2) = ((*r as i64 + mc_off.0) as u32, (*c as i64 + mc_off.1) as u32);
                    let got = ws.get_cell((c2, r2)).map(|x| x.get_formula().to_string());
                    if got.as_deref() != Some(text.as_str()) {
                        bad = Some(format!("formula {:?} of row {} col {} is {:?} at row {} col {}", text, r, c, got, r2, c2));
                        break;
                    }
                }
                out.count("mc.formula-text-compared");
                match bad {
                    Some(e) => out.oracle_fail(Fail::new("formula-text-changed").with("op", line).with("cause", cause).with("detail", e)),
                    None => out.oracle_ok(),
                }
            }
            if cause == "move-copy-out-of-range" {
                out.count("move-copy-out-of-range.returned");
                st.dead = true;
            }
            if ref_defined {
                st.refs = refs;
                // oracle: every sheet equals its reference (cells as content; annotations exactly)
                let mut bad: Option<String> = None;
                for j in 0..k {
                    let v = view_of_impl(st.book.get_sheet(&j).unwrap());
                    let want = &st.refs[j];
                    let got_cells = cells_only(&v);
                    let mut want_cells = cells_only(want);
                    // a style the reference does not know (inherited from a row/column dimension): take the implementation's
                    for (kk, vv) in want_cells.iter_mut() {
                        if vv.1 == u32::MAX {
                            vv.1 = got_cells.get(kk).map(|x| x.1).unwrap_or(0);
                        }
                    }
                    if got_cells.values().any(|x| x.0 / LINK_BASE != 0) {
                        out.count("hl.sheet-with-hyperlinks-compared");
                    }
                    if got_cells != want_cells {
                        bad = Some(format!("sheet {} cells {:?} != reference {:?}", j, got_cells, want_cells));
                        break;
                    }
                    if v.merges != want.merges || v.comments != want.comments || v.cfs != want.cfs || v.filter != want.filter {
                        bad = Some(format!(
                            "sheet {} annotations m={:?} cm={:?} cf={:?} af={:?} != reference m={:?} cm={:?} cf={:?} af={:?}",
                            j, v.merges, v.comments, v.cfs, v.filter, want.merges, want.comments, want.cfs, want.filter
                        ));
                        break;
                    }
                    if let Err(e) = c10::coherence_oracle(st.book.get_sheet(&j).unwrap()) {
                        bad = Some(format!("sheet {} incoherent: {}", j, e));
                        break;
                    }
                }
                match bad {
                    Some(e) => out.oracle_fail(Fail::new("reference-grid").with("op", line).with("cause", cause).with("detail", e)),
                    None => out.oracle_ok(),
                }
                // grid bounds
                if st.refs.iter().all(|r| r.in_grid()) {
                    out.oracle_ok();
                } else {
                    out.oracle_fail(Fail::new("out-of-grid").with("op", line).with("cause", cause));
                    // beyond the grid the reference is no longer meaningful: end the case
                    st.dead = true;
                }
            }
            (format!("ok {}", d), true)
        }
    }
}

/// content token of a generated `setcell`: mostly a value, one time in four a formula cell
fn content_tok(rng: &mut Rng) -> u32 {
    if rng.chance(1, 4) {
        FORMULA_TOK + rng.below(5) as u32
    } else {
        rng.range(1, 5) as u32
    }
}

fn gen_case(rng: &mut Rng, v: &mut Vec<String>, near_limit: bool) {
    let k = rng.range(1, 3);
    v.push(format!("c07 reset {}", k));
    // near the grid limit every generated coordinate (small ≤ 8, spans ≤ 4) still lies inside the grid
    let base_r: u32 = if near_limit { MAX_ROW - 12 } else { 0 };
    let base_c: u32 = if near_limit { MAX_COL - 12 } else { 0 };
    let small = |rng: &mut Rng| rng.range(1, 8) as u32;
    let len = rng.range(1, 40);
    // where cells were placed (relative coordinates, per sheet; stale after structural edits): half of the
    // move / copy rectangles start at such a place so that the source is not blank most of the time
    let mut placed: Vec<Vec<(u32, u32)>> = vec![vec![]; k as usize];
    // seed content on every sheet so that "other sheets untouched" is meaningful
    for i in 0..k {
        for _ in 0..rng.range(2, 6) {
            let (c, r) = (small(rng), small(rng));
            placed[i as usize].push((r, c));
            if rng.chance(1, 3) {
                // a cell with a hyperlink (token 1..3): it must travel with the cell
                v.push(format!("c07 cell {} setcellh {} {} {} {} {}", i, base_c + c, base_r + r, content_tok(rng), rng.below(3), rng.range(1, 3)));
                continue;
            }
            v.push(format!("c07 cell {} setcell {} {} {} {}", i, base_c + c, base_r + r, content_tok(rng), rng.below(3)));
        }
        if rng.chance(2, 3) {
            let (r, c) = (small(rng), small(rng));
            v.push(format!("c07 merge {} {} {} {} {}", i, base_r + r, base_r + r + rng.below(3) as u32, base_c + c, base_c + c + rng.range(0, 2) as u32));
        }
        if rng.chance(1, 2) {
            v.push(format!("c07 comment {} {} {} {}", i, base_c + small(rng), base_r + small(rng), rng.range(1, 99)));
        }
        if rng.chance(1, 2) {
            let (r, c) = (small(rng), small(rng));
            let mut s = format!("c07 cf {} {} {} {} {} {}", i, rng.range(1, 9), base_r + r, base_r + r + rng.below(3) as u32, base_c + c, base_c + c + rng.below(3) as u32);
            if rng.chance(1, 2) {
                let (r, c) = (small(rng), small(rng));
                s += &format!(" {} {} {} {}", base_r + r, base_r + r + rng.below(2) as u32, base_c + c, base_c + c + rng.below(2) as u32);
            }
            v.push(s);
        }
        if rng.chance(1, 3) {
            let (r, c) = (small(rng), small(rng));
            v.push(format!("c07 filter {} {} {} {} {}", i, base_r + r, base_r + r + rng.range(1, 4) as u32, base_c + c, base_c + c + rng.range(0, 3) as u32));
        }
        if rng.chance(1, 3) {
            v.push(format!("c07 rowdim {} {} {}", i, base_r + small(rng), rng.range(1, 4)));
        }
        if rng.chance(1, 3) {
            v.push(format!("c07 coldim {} {} {}", i, base_c + small(rng), rng.range(1, 4)));
        }
    }
    for _ in 0..len {
        let i = rng.below(k);
        let x = rng.below(100);
        let line = match x {
            0..=11 => format!("c07 cell {} setval {} {} {}", i, base_c + small(rng), base_r + small(rng), rng.range(1, 5)),
            12..=17 => {
                let (c, r) = (small(rng), small(rng));
                placed[i as usize].push((r, c));
                if rng.chance(1, 3) {
                    // hyperlink token 0 = a set_cell whose hyperlink is None over whatever was there
                    format!("c07 cell {} setcellh {} {} {} {} {}", i, base_c + c, base_r + r, content_tok(rng), rng.below(3), rng.below(4))
                } else {
                    format!("c07 cell {} setcell {} {} {} {}", i, base_c + c, base_r + r, content_tok(rng), rng.below(3))
                }
            }
            18..=23 => format!("c07 cell {} remove {} {}", i, base_c + small(rng), base_r + small(rng)),
            24..=27 => format!("c07 cell {} setstyle {} {} {}", i, base_c + small(rng), base_r + small(rng), rng.range(1, 4)),
            28..=37 => {
                let (mut r, mut c) = (small(rng), small(rng));
                if rng.chance(1, 2) && !placed[i as usize].is_empty() {
                    let (pr, pc) = placed[i as usize][rng.below(placed[i as usize].len() as u64) as usize];
                    // the placed cell is the rectangle's first, or lies one row / column inside it
                    r = if pr > 1 && rng.chance(1, 3) { pr - 1 } else { pr };
                    c = if pc > 1 && rng.chance(1, 3) { pc - 1 } else { pc };
                }
                let (re, ce) = (r + rng.below(3) as u32, c + rng.below(3) as u32);
                let mut dr = rng.range(0, 6) as i64 - 3;
                let mut dc = rng.range(0, 6) as i64 - 3;
                // one time in five the destination is pushed against an edge of the grid (row 1 / column 1,
                // or, in the histories next to the limit, row 1048576 / column 16384)
                if rng.chance(1, 5) {
                    if near_limit {
                        if rng.chance(1, 2) {
                            dr = MAX_ROW as i64 - (base_r + re) as i64;
                        } else {
                            dc = MAX_COL as i64 - (base_c + ce) as i64;
                        }
                    } else if rng.chance(1, 2) {
                        dr = 1 - r as i64;
                    } else {
                        dc = 1 - c as i64;
                    }
                }
                let dr = if (base_r + r) as i64 + dr < 1 || (base_r + re) as i64 + dr > MAX_ROW as i64 { 0 } else { dr };
                let dc = if (base_c + c) as i64 + dc < 1 || (base_c + ce) as i64 + dc > MAX_COL as i64 { 0 } else { dc };
                format!("c07 cell {} {} {} {} {} {} {} {}", i, if rng.chance(1, 2) { "move" } else { "copy" }, base_r + r, base_r + re, base_c + c, base_c + ce, dr, dc)
            }
            38..=52 => {
                let w = if rng.chance(1, 2) { "wins" } else { "sins" };
                if rng.chance(1, 2) {
                    format!("c07 {} {} 0 0 {} {}", w, i, base_r + small(rng), rng.range(1, 3))
                } else {
                    format!("c07 {} {} {} {} 0 0", w, i, base_c + small(rng), rng.range(1, 3))
                }
            }
            53..=72 => {
                let w = if rng.chance(1, 2) { "wrem" } else { "srem" };
                if rng.chance(1, 2) {
                    format!("c07 {} {} 0 0 {} {}", w, i, base_r + small(rng), rng.range(1, 3))
                } else {
                    format!("c07 {} {} {} {} 0 0", w, i, base_c + small(rng), rng.range(1, 3))
                }
            }
            73..=80 => {
                // insert immediately followed by the inverse remove: remove undoes insert
                let (p, nn) = (small(rng), rng.range(1, 3));
                let rows = rng.chance(1, 2);
                let w = if rng.chance(1, 2) { ("wins", "wrem") } else { ("sins", "srem") };
                if rows {
                    v.push(format!("c07 {} {} 0 0 {} {}", w.0, i, base_r + p, nn));
                    format!("c07 {} {} 0 0 {} {}", w.1, i, base_r + p, nn)
                } else {
                    v.push(format!("c07 {} {} {} {} 0 0", w.0, i, base_c + p, nn));
                    format!("c07 {} {} {} {} 0 0", w.1, i, base_c + p, nn)
                }
            }
            81 => {
                // out-of-range move / copy: image off the grid, inverted rectangle (either axis), empty column span
                let (r, c) = (small(rng), small(rng));
                let (re, ce) = (r + rng.below(3) as u32, c + rng.below(3) as u32);
                let w = if rng.chance(1, 2) { "move" } else { "copy" };
                match rng.below(5) {
                    0 => format!("c07 cell {} {} {} {} {} {} {} 0", i, w, base_r + r, base_r + re, base_c + c, base_c + ce, if near_limit { 13 + (re - r) as i64 } else { -(r as i64) - rng.below(2) as i64 }),
                    1 => format!("c07 cell {} {} {} {} {} {} 0 {}", i, w, base_r + r, base_r + re, base_c + c, base_c + ce, if near_limit { 13 + (ce - c) as i64 } else { -(c as i64) - rng.below(2) as i64 }),
                    2 => format!("c07 cell {} {} {} {} {} {} 1 1", i, w, base_r + r + 1, base_r + r, base_c + c, base_c + ce),
                    3 => format!("c07 cell {} {} {} {} {} {} 1 1", i, w, base_r + r, base_r + r, base_c + c + 1, base_c + c),
                    _ => format!("c07 cell {} {} {} {} {} {} 1 1", i, w, base_r + r, base_r + r + 1, base_c + c + 1, base_c + c),
                }
            }
            82..=85 => {
                let (r, c) = (small(rng), small(rng));
                format!("c07 merge {} {} {} {} {}", i, base_r + r, base_r + r + rng.below(3) as u32, base_c + c, base_c + c + rng.range(0, 2) as u32)
            }
            86..=90 => format!("c07 comment {} {} {} {}", i, base_c + small(rng), base_r + small(rng), rng.range(1, 99)),
            91..=94 => {
                let (r, c) = (small(rng), small(rng));
                format!("c07 cf {} {} {} {} {} {}", i, rng.range(1, 9), base_r + r, base_r + r + rng.below(3) as u32, base_c + c, base_c + c + rng.below(3) as u32)
            }
            _ => {
                let (r, c) = (small(rng), small(rng));
                format!("c07 filter {} {} {} {} {}", i, base_r + r, base_r + r + rng.range(1, 4) as u32, base_c + c, base_c + c + rng.range(0, 3) as u32)
            }
        };
        v.push(line);
    }
}

pub fn gen(tier: Tier, seed: u64) -> Vec<String> {
    let mut rng = Rng::new(seed ^ 0xC07);
    let mut v = vec![];
    let histories = if tier == Tier::Thorough { 20_000 } else { 1_500 };
    for h in 0..histories {
        gen_case(&mut rng, &mut v, h % 10 == 9);
    }
    v
}

pub fn run(out: &mut Out, tier: Tier, seed: u64, replay: Option<Vec<String>>) {
    let ops = match replay {
        Some(r) => r,
        None => gen(tier, seed),
    };
    let mut st = State::new(1);
    for op in ops {
        let a: Vec<&str> = op.split(' ').collect();
        let kind = if a.get(1) == Some(&"cell") { format!("cell.{}", a.get(3).unwrap_or(&"?")) } else { a.get(1).unwrap_or(&"?").to_string() };
        out.begin(&op);
        let (reply, nt) = exec(out, &mut st, &op);
        out.count(&format!("op.{}", kind));
        if reply == "panic" {
            out.count(&format!("panic.{}", kind));
        }
        if reply == "dead" {
            out.count("skipped-after-end-of-case");
        }
        out.end(&op, &reply, nt);
    }
}
