//! Independent reference code used by the C14 / C15 oracles, written from the standards
//! (ECMA-376 Part 1 §18.2.29 / §18.3.1.85, MS-OFFCRYPTO §2.3.4.10–15) on top of the RustCrypto
//! crates — never by calling umya-spreadsheet's own crypt module.  Also: a tiny XML start-tag
//! scanner and zip part extraction.
#![allow(dead_code)]
use aes::cipher::{block_padding::NoPadding, BlockDecryptMut, KeyIvInit};
use base64::{engine::general_purpose::STANDARD, Engine as _};
use hmac::{Hmac, Mac};
use sha2::{Digest, Sha512};
use std::io::{Cursor, Read};

pub fn sha512(parts: &[&[u8]]) -> Vec<u8> {
    let mut d = Sha512::new();
    for p in parts {
        d.update(p);
    }
    d.finalize().to_vec()
}

pub fn utf16le(s: &str) -> Vec<u8> {
    let mut o = Vec::new();
    for u in s.encode_utf16() {
        o.push((u & 0xff) as u8);
        o.push((u >> 8) as u8);
    }
    o
}

pub fn b64(b: &[u8]) -> String {
    STANDARD.encode(b)
}
pub fn unb64(s: &str) -> Option<Vec<u8>> {
    STANDARD.decode(s).ok()
}

/// ECMA-376 Part 1 password hash: H0 = H(salt ‖ pw), Hn = H(Hn-1 ‖ LE32(n-1)), n = 1..=spin.
pub fn ecma_pw_hash(pw: &str, salt: &[u8], spin: u32) -> Vec<u8> {
    let mut h = sha512(&[salt, &utf16le(pw)]);
    for i in 0..spin {
        h = sha512(&[&h, &i.to_le_bytes()]);
    }
    h
}

// ------------------------------------------------------------------ tiny XML scanner

/// Attributes (document order, raw values) of the first start tag named `tag` in `xml`.
pub fn start_tag_attrs(xml: &str, tag: &str) -> Option<Vec<(String, String)>> {
    let bytes = xml.as_bytes();
    let pat = format!("<{}", tag);
    let mut from = 0;
    loop {
        let i = xml[from..].find(&pat)? + from;
        let after = i + pat.len();
        let c = *bytes.get(after)?;
        if c == b' ' || c == b'/' || c == b'>' || c == b'\r' || c == b'\n' || c == b'\t' {
            return Some(scan_attrs(&xml[after..]));
        }
        from = after;
    }
}

fn scan_attrs(s: &str) -> Vec<(String, String)> {
    let b = s.as_bytes();
    let mut i = 0;
    let mut out = vec![];
    loop {
        while i < b.len() && (b[i] as char).is_ascii_whitespace() {
            i += 1;
        }
        if i >= b.len() || b[i] == b'>' || b[i] == b'/' {
            return out;
        }
        let ns = i;
        while i < b.len() && b[i] != b'=' && !(b[i] as char).is_ascii_whitespace() {
            i += 1;
        }
        let name = s[ns..i].to_string();
        while i < b.len() && b[i] != b'=' {
            i += 1;
        }
        i += 1;
        while i < b.len() && (b[i] as char).is_ascii_whitespace() {
            i += 1;
        }
        if i >= b.len() {
            return out;
        }
        let q = b[i];
        i += 1;
        let vs = i;
        while i < b.len() && b[i] != q {
            i += 1;
        }
        out.push((name, s[vs..i.min(b.len())].to_string()));
        i += 1;
    }
}

pub fn attr<'a>(attrs: &'a [(String, String)], name: &str) -> Option<&'a str> {
    attrs.iter().find(|a| a.0 == name).map(|a| a.1.as_str())
}

/// All parts of a zip held in memory: (name, bytes).
pub fn zip_parts(data: &[u8]) -> Result<Vec<(String, Vec<u8>)>, String> {
    let mut z = zip::ZipArchive::new(Cursor::new(data)).map_err(|e| e.to_string())?;
    let mut out = vec![];
    for i in 0..z.len() {
        let mut f = z.by_index(i).map_err(|e| e.to_string())?;
        let mut v = vec![];
        f.read_to_end(&mut v).map_err(|e| e.to_string())?;
        out.push((f.name().to_string(), v));
    }
    Ok(out)
}

pub fn contains(hay: &[u8], needle: &[u8]) -> bool {
    !needle.is_empty() && hay.windows(needle.len()).any(|w| w == needle)
}

// ------------------------------------------------------------------ MS-OFFCRYPTO agile decryptor

type Aes256CbcDec = cbc::Decryptor<aes::Aes256>;

pub const BLK_VERIFIER_INPUT: [u8; 8] = [0xfe, 0xa7, 0xd2, 0x76, 0x3b, 0x4b, 0x9e, 0x79];
pub const BLK_VERIFIER_VALUE: [u8; 8] = [0xd7, 0xaa, 0x0f, 0x6d, 0x30, 0x61, 0x34, 0x4e];
pub const BLK_KEY_VALUE: [u8; 8] = [0x14, 0x6e, 0x0b, 0xe7, 0xab, 0xac, 0xd0, 0xd6];
pub const BLK_HMAC_KEY: [u8; 8] = [0x5f, 0xb2, 0xad, 0x01, 0x0c, 0xb9, 0xe1, 0xf6];
pub const BLK_HMAC_VALUE: [u8; 8] = [0xa0, 0x67, 0x7f, 0x02, 0xb2, 0x2c, 0x84, 0x33];

#[derive(Clone, Debug, Default)]
pub struct AgileInfo {
    pub kd_salt_size: usize,
    pub kd_block_size: usize,
    pub kd_key_bits: usize,
    pub kd_hash_size: usize,
    pub kd_cipher: String,
    pub kd_chaining: String,
    pub kd_hash: String,
    pub kd_salt: Vec<u8>,
    pub enc_hmac_key: Vec<u8>,
    pub enc_hmac_value: Vec<u8>,
    pub spin: u32,
    pub ke_salt_size: usize,
    pub ke_block_size: usize,
    pub ke_key_bits: usize,
    pub ke_hash_size: usize,
    pub ke_cipher: String,
    pub ke_chaining: String,
    pub ke_hash: String,
    pub ke_salt: Vec<u8>,
    pub enc_verifier_input: Vec<u8>,
    pub enc_verifier_value: Vec<u8>,
    pub enc_key_value: Vec<u8>,
    /// canonical "element:attr=value,…" text of everything scanned (for the correspondence line)
    pub canon: String,
}

/// §2.3.4.10: EncryptionInfo stream = version 4.4, flags 0x40, then the XML descriptor.
pub fn parse_encryption_info(stream: &[u8]) -> Result<AgileInfo, String> {
    if stream.len() < 8 {
        return Err("info-short".into());
    }
    if stream[0..4] != [4, 0, 4, 0] {
        return Err("info-version".into());
    }
    if stream[4..8] != [0x40, 0, 0, 0] {
        return Err("info-flags".into());
    }
    let xml = std::str::from_utf8(&stream[8..]).map_err(|_| "info-utf8".to_string())?;
    let enc = start_tag_attrs(xml, "encryption").ok_or("no-encryption")?;
    let kd = start_tag_attrs(xml, "keyData").ok_or("no-keyData")?;
    let di = start_tag_attrs(xml, "dataIntegrity").ok_or("no-dataIntegrity")?;
    let ke = start_tag_attrs(xml, "keyEncryptor").ok_or("no-keyEncryptor")?;
    let ek = start_tag_attrs(xml, "p:encryptedKey").ok_or("no-encryptedKey")?;
    let num = |a: &[(String, String)], n: &str| -> Result<usize, String> {
        attr(a, n).ok_or(format!("missing-{}", n))?.parse::<usize>().map_err(|_| format!("bad-{}", n))
    };
    let txt = |a: &[(String, String)], n: &str| -> Result<String, String> {
        Ok(attr(a, n).ok_or(format!("missing-{}", n))?.to_string())
    };
    let bin = |a: &[(String, String)], n: &str| -> Result<Vec<u8>, String> {
        unb64(attr(a, n).ok_or(format!("missing-{}", n))?).ok_or(format!("bad-b64-{}", n))
    };
    let mut canon = String::new();
    for (el, at) in [("encryption", &enc), ("keyData", &kd), ("dataIntegrity", &di), ("keyEncryptor", &ke), ("p:encryptedKey", &ek)] {
        if !canon.is_empty() {
            canon.push('|');
        }
        canon.push_str(el);
        canon.push(':');
        let parts: Vec<String> = at.iter().map(|(k, v)| format!("{}={}", k, v)).collect();
        canon.push_str(&parts.join(","));
    }
    Ok(AgileInfo {
        kd_salt_size: num(&kd, "saltSize")?,
        kd_block_size: num(&kd, "blockSize")?,
        kd_key_bits: num(&kd, "keyBits")?,
        kd_hash_size: num(&kd, "hashSize")?,
        kd_cipher: txt(&kd, "cipherAlgorithm")?,
        kd_chaining: txt(&kd, "cipherChaining")?,
        kd_hash: txt(&kd, "hashAlgorithm")?,
        kd_salt: bin(&kd, "saltValue")?,
        enc_hmac_key: bin(&di, "encryptedHmacKey")?,
        enc_hmac_value: bin(&di, "encryptedHmacValue")?,
        spin: num(&ek, "spinCount")? as u32,
        ke_salt_size: num(&ek, "saltSize")?,
        ke_block_size: num(&ek, "blockSize")?,
        ke_key_bits: num(&ek, "keyBits")?,
        ke_hash_size: num(&ek, "hashSize")?,
        ke_cipher: txt(&ek, "cipherAlgorithm")?,
        ke_chaining: txt(&ek, "cipherChaining")?,
        ke_hash: txt(&ek, "hashAlgorithm")?,
        ke_salt: bin(&ek, "saltValue")?,
        enc_verifier_input: bin(&ek, "encryptedVerifierHashInput")?,
        enc_verifier_value: bin(&ek, "encryptedVerifierHashValue")?,
        enc_key_value: bin(&ek, "encryptedKeyValue")?,
        canon,
    })
}

fn fit(mut v: Vec<u8>, n: usize) -> Vec<u8> {
    // "If the hash is larger … truncate; if smaller, pad by appending bytes with a value of 0x36"
    v.resize(n, 0x36);
    v
}

/// §2.3.4.11 hash of the password after `spin` iterations: H0 = H(salt ‖ pw), Hn = H(LE32(n-1) ‖ Hn-1)
pub fn agile_spin(pw: &str, salt: &[u8], spin: u32) -> Vec<u8> {
    let mut h = sha512(&[salt, &utf16le(pw)]);
    for i in 0..spin {
        h = sha512(&[&i.to_le_bytes(), &h]);
    }
    h
}
/// §2.3.4.11 final step: Hfinal = H(Hn ‖ blockKey), cut / padded to keyBits
pub fn agile_key(hn: &[u8], block_key: &[u8], key_bits: usize) -> Vec<u8> {
    fit(sha512(&[hn, block_key]), key_bits / 8)
}
/// §2.3.4.12 IV = H(salt ‖ blockKey) cut / padded to blockSize
pub fn agile_iv(salt: &[u8], block_key: &[u8], block_size: usize) -> Vec<u8> {
    fit(sha512(&[salt, block_key]), block_size)
}

pub fn aes_cbc_dec(key: &[u8], iv: &[u8], ct: &[u8]) -> Result<Vec<u8>, String> {
    if ct.len() % 16 != 0 {
        return Err("ct-unaligned".into());
    }
    let mut buf = ct.to_vec();
    let d = Aes256CbcDec::new_from_slices(key, iv).map_err(|_| "key-iv-length".to_string())?;
    d.decrypt_padded_mut::<NoPadding>(&mut buf).map_err(|_| "unpad".to_string())?;
    Ok(buf)
}

pub struct Decrypted {
    pub plain: Vec<u8>,
    pub package_key: Vec<u8>,
    pub verifier_input: Vec<u8>,
    pub hmac_key: Vec<u8>,
}

fn check_params(info: &AgileInfo) -> Result<(), String> {
    if info.kd_cipher != "AES" || info.ke_cipher != "AES" {
        return Err("cipher".into());
    }
    if info.kd_chaining != "ChainingModeCBC" || info.ke_chaining != "ChainingModeCBC" {
        return Err("chaining".into());
    }
    if info.kd_hash != "SHA512" || info.ke_hash != "SHA512" {
        return Err("hash".into());
    }
    if info.kd_key_bits != 256 || info.ke_key_bits != 256 || info.kd_block_size != 16 || info.ke_block_size != 16 {
        return Err("sizes".into());
    }
    if info.kd_hash_size != 64 || info.ke_hash_size != 64 {
        return Err("hashSize".into());
    }
    if info.kd_salt.len() != info.kd_salt_size || info.ke_salt.len() != info.ke_salt_size {
        return Err("saltSize".into());
    }
    Ok(())
}

/// §2.3.4.13: password verifier.
pub fn agile_verify(info: &AgileInfo, pw: &str) -> Result<(Vec<u8>, Vec<u8>), String> {
    check_params(info)?;
    let hn = agile_spin(pw, &info.ke_salt, info.spin);
    let k_in = agile_key(&hn, &BLK_VERIFIER_INPUT, info.ke_key_bits);
    let vin = aes_cbc_dec(&k_in, &info.ke_salt, &info.enc_verifier_input)?;
    let k_val = agile_key(&hn, &BLK_VERIFIER_VALUE, info.ke_key_bits);
    let vval = aes_cbc_dec(&k_val, &info.ke_salt, &info.enc_verifier_value)?;
    if vin.len() < info.ke_salt_size || vval.len() < info.ke_hash_size {
        return Err("verifier-short".into());
    }
    let vin = vin[..info.ke_salt_size].to_vec();
    if sha512(&[&vin])[..] != vval[..info.ke_hash_size] {
        return Err("verifier-mismatch".into());
    }
    Ok((hn, vin))
}

/// §2.3.4.13–15: verify the password, unwrap the package key, check the HMAC over the whole
/// EncryptedPackage stream, decrypt the 4096-byte segments, truncate to StreamSize.
pub fn agile_decrypt(info: &AgileInfo, package_stream: &[u8], pw: &str) -> Result<Decrypted, String> {
    let (hn, vin) = agile_verify(info, pw)?;
    let k_key = agile_key(&hn, &BLK_KEY_VALUE, info.ke_key_bits);
    let mut package_key = aes_cbc_dec(&k_key, &info.ke_salt, &info.enc_key_value)?;
    package_key.truncate(info.kd_key_bits / 8);
    // data integrity
    let iv1 = agile_iv(&info.kd_salt, &BLK_HMAC_KEY, info.kd_block_size);
    let mut hmac_key = aes_cbc_dec(&package_key, &iv1, &info.enc_hmac_key)?;
    hmac_key.truncate(info.kd_hash_size);
    let iv2 = agile_iv(&info.kd_salt, &BLK_HMAC_VALUE, info.kd_block_size);
    let mut hmac_value = aes_cbc_dec(&package_key, &iv2, &info.enc_hmac_value)?;
    hmac_value.truncate(info.kd_hash_size);
    let mut mac = Hmac::<Sha512>::new_from_slice(&hmac_key).map_err(|_| "hmac-key".to_string())?;
    mac.update(package_stream);
    if mac.finalize().into_bytes()[..] != hmac_value[..] {
        return Err("hmac-mismatch".into());
    }
    // segments
    if package_stream.len() < 8 {
        return Err("package-short".into());
    }
    let size = u64::from_le_bytes(package_stream[0..8].try_into().unwrap());
    let body = &package_stream[8..];
    let mut plain = Vec::with_capacity(body.len());
    for (i, seg) in body.chunks(4096).enumerate() {
        let iv = agile_iv(&info.kd_salt, &(i as u32).to_le_bytes(), info.kd_block_size);
        plain.extend(aes_cbc_dec(&package_key, &iv, seg)?);
    }
    if (plain.len() as u64) < size {
        return Err("size-exceeds-data".into());
    }
    plain.truncate(size as usize);
    Ok(Decrypted { plain, package_key, verifier_input: vin, hmac_key })
}
