//! C14 — agile encryption: files written with a password decrypt (by an independent decryptor
//! written from MS-OFFCRYPTO, here in Rust and in Lean) to exactly the plain package.
//!
//! Request lines (model side: lean/Umya/Driver/C14.lean):
//!   c14 selftest
//!   c14 kdf|iv|crypt|pkg …        private building blocks through cfg(umya_verif) hooks (deterministic)
//!   c14 save <method> <pw> <size> <seed>    method ∈ wp (write_with_password) | wpl (…_light) | sp (set_password);
//!                                           real save to a file, streams extracted with the cfb crate,
//!                                           oracle = independent Rust decryptor (ind.rs); emits derived lines:
//!   c14 decrypt <pw> <info> <pkg> <expect>  Lean Agile.decrypt on the real streams (also wrong password / tampered)
//!   c14 encrypt <pw> <data> <5 randoms>     Lean model of encrypt with the recovered randoms vs the real streams
use crate::common::*;
use crate::ind;
use std::io::{Cursor, Read};
use std::path::PathBuf;
use umya_spreadsheet::helper::crypt as uc;

fn sha_hex(b: &[u8]) -> String {
    hexb(&ind::sha512(&[b]))
}

fn pw_of(h: &str) -> String {
    String::from_utf8(unhex(h)).unwrap_or_default()
}

fn bytes_from(seed: u64, n: usize) -> Vec<u8> {
    let mut r = Rng::new(seed ^ 0xC14);
    let mut v = Vec::with_capacity(n);
    while v.len() < n {
        let x = r.next();
        for k in 0..8 {
            if v.len() < n {
                v.push((x >> (8 * k)) as u8);
            }
        }
    }
    v
}

fn read_streams(path: &PathBuf) -> Result<(Vec<u8>, Vec<u8>), String> {
    let mut comp = cfb::open(path).map_err(|e| format!("cfb-open: {}", e))?;
    let mut info = vec![];
    comp.open_stream("EncryptionInfo").map_err(|e| format!("no EncryptionInfo: {}", e))?.read_to_end(&mut info).map_err(|e| e.to_string())?;
    let mut pkg = vec![];
    comp.open_stream("EncryptedPackage").map_err(|e| format!("no EncryptedPackage: {}", e))?.read_to_end(&mut pkg).map_err(|e| e.to_string())?;
    Ok((info, pkg))
}

fn stage_of(e: &str) -> &'static str {
    if e.starts_with("info-") || e.starts_with("no-") || e.starts_with("missing-") || e.starts_with("bad-") {
        "parse"
    } else if e == "verifier-mismatch" || e == "verifier-short" || e == "cipher" || e == "chaining" || e == "hash" || e == "sizes" || e == "hashSize" || e == "saltSize" {
        "verifier"
    } else if e == "hmac-mismatch" {
        "hmac"
    } else {
        "data"
    }
}

/// independent decryption of the two streams: "ok <len> <sha512>" | "fail <stage>"
fn ind_decrypt(info: &[u8], pkg: &[u8], pw: &str) -> (String, Option<ind::Decrypted>, Option<ind::AgileInfo>) {
    match ind::parse_encryption_info(info) {
        Err(_) => ("fail parse".into(), None, None),
        Ok(ai) => match ind::agile_decrypt(&ai, pkg, pw) {
            Ok(d) => (format!("ok {} {}", d.plain.len(), sha_hex(&d.plain)), Some(d), Some(ai)),
            Err(e) => (format!("fail {}", stage_of(&e)), None, Some(ai)),
        },
    }
}

/// what the Lean driver must find on the real EncryptionInfo stream of a `decrypt` line (it computes these itself):
/// the stream equals the prefix + `renderDoc` of the writer-call tree of the descriptor read from it, the descriptor
/// satisfies the hypothesis of `C14_info_parses`, and the text scanner agrees with the XML reader
fn with_info_checks(rep: &str) -> String {
    if rep == "fail parse" {
        rep.to_string()
    } else {
        format!("{} text=same wf=ok scan=same", rep)
    }
}

fn canon_fields(ai: &ind::AgileInfo, info_xml: &str) -> String {
    let kd = ind::start_tag_attrs(info_xml, "keyData").unwrap_or_default();
    let di = ind::start_tag_attrs(info_xml, "dataIntegrity").unwrap_or_default();
    let ek = ind::start_tag_attrs(info_xml, "p:encryptedKey").unwrap_or_default();
    let g = |a: &[(String, String)], n: &str| ind::attr(a, n).unwrap_or("?").to_string();
    let kdt = |a: &[(String, String)]| {
        format!(
            "saltSize={},blockSize={},keyBits={},hashSize={},cipherAlgorithm={},cipherChaining={},hashAlgorithm={},saltValue={}",
            g(a, "saltSize"), g(a, "blockSize"), g(a, "keyBits"), g(a, "hashSize"), g(a, "cipherAlgorithm"), g(a, "cipherChaining"), g(a, "hashAlgorithm"), g(a, "saltValue")
        )
    };
    let _ = ai;
    format!(
        "keyData:{}|dataIntegrity:encryptedHmacKey={},encryptedHmacValue={}|encryptedKey:spinCount={},{},encryptedVerifierHashInput={},encryptedVerifierHashValue={},encryptedKeyValue={}",
        kdt(&kd), g(&di, "encryptedHmacKey"), g(&di, "encryptedHmacValue"), g(&ek, "spinCount"), kdt(&ek),
        g(&ek, "encryptedVerifierHashInput"), g(&ek, "encryptedVerifierHashValue"), g(&ek, "encryptedKeyValue")
    )
}

fn encrypt_reply(info: &[u8], pkg: &[u8], ai: &ind::AgileInfo) -> String {
    let xml = String::from_utf8_lossy(&info[8.min(info.len())..]).to_string();
    format!("ok pkg={} fields={} rt=ok ## info={}", sha_hex(pkg), canon_fields(ai, &xml), sha_hex(info))
}

/// a fresh (never saved) workbook whose plain package has `target'` bytes, where `target'` is the
/// smallest size ≥ max(target, empty-book size + 32) congruent to `target` modulo 4096 (search over
/// the length of one random text cell).  The returned book is rebuilt and NOT saved before
/// (saving mutates the shared string table, so a book saved twice gives two different packages).
fn fit_book(target: usize, seed: u64, light: bool) -> Option<(umya_spreadsheet::Spreadsheet, Vec<u8>, usize)> {
    let alphabet: Vec<char> = "ABCDEFGHIJKLMNOPQRSTUVWXYZabcdefghijklmnopqrstuvwxyz0123456789".chars().collect();
    let mut rng = Rng::new(seed ^ 0xB00C);
    let text: Vec<char> = (0..(target * 2 + 3 * 4096 + 4096)).map(|_| *rng.pick(&alphabet)).collect();
    let build = |len: usize| -> umya_spreadsheet::Spreadsheet {
        let mut book = umya_spreadsheet::new_file();
        let s: String = text[..len.min(text.len())].iter().collect();
        book.get_sheet_mut(&0).unwrap().get_cell_mut("A1").set_value_string(s);
        book
    };
    let make = |len: usize| -> Vec<u8> {
        let book = build(len);
        let mut cur = Cursor::new(Vec::new());
        if light {
            umya_spreadsheet::writer::xlsx::write_writer_light(&book, &mut cur).unwrap();
        } else {
            umya_spreadsheet::writer::xlsx::write_writer(&book, &mut cur).unwrap();
        }
        cur.into_inner()
    };
    let p0 = make(1);
    let floor = target.max(p0.len() + 32);
    let target = floor + (target % 4096 + 4096 - floor % 4096) % 4096;
    let mut len = if light { target - p0.len() } else { (target - p0.len()) * 4 / 3 }.max(1);
    let mut tries = 0;
    let mut seen = std::collections::HashSet::new();
    while tries < 300 {
        tries += 1;
        let p = make(len);
        if p.len() == target {
            return Some((build(len), p, tries));
        }
        seen.insert(len);
        let diff = target as i64 - p.len() as i64;
        let mut step = if light { diff } else { diff * 4 / 3 };
        if step == 0 {
            step = diff.signum();
        }
        let mut nl = (len as i64 + step).max(1) as usize;
        while seen.contains(&nl) && nl > 1 {
            nl = if diff > 0 { nl + 1 } else { nl - 1 };
        }
        len = nl;
    }
    None
}

struct Saved {
    plain: Vec<u8>,
    info: Vec<u8>,
    pkg: Vec<u8>,
    exact_plain_known: bool,
}

fn do_save(out: &mut Out, method: &str, pw: &str, size: usize, seed: u64) -> Result<Saved, String> {
    let dir = out.dir.join("tmp");
    std::fs::create_dir_all(&dir).map_err(|e| e.to_string())?;
    let dest = dir.join(format!("enc_{}.xlsx", out.cur_line));
    let _ = std::fs::remove_file(&dest);
    let plain;
    let mut exact = true;
    match method {
        "sp" => {
            let src = dir.join(format!("plain_{}.bin", out.cur_line));
            plain = bytes_from(seed, size);
            std::fs::write(&src, &plain).map_err(|e| e.to_string())?;
            umya_spreadsheet::writer::xlsx::set_password(&src, &dest, pw).map_err(|e| format!("{:?}", e))?;
            let _ = std::fs::remove_file(&src);
        }
        "wp" | "wpl" => {
            let light = method == "wpl";
            match fit_book(size, seed, light) {
                Some((book, p, tries)) => {
                    out.count("save.fit.exact");
                    out.count_n("save.fit.tries", tries as u64);
                    plain = p;
                    if light {
                        umya_spreadsheet::writer::xlsx::write_with_password_light(&book, &dest, pw).map_err(|e| format!("{:?}", e))?;
                    } else {
                        umya_spreadsheet::writer::xlsx::write_with_password(&book, &dest, pw).map_err(|e| format!("{:?}", e))?;
                    }
                }
                None => {
                    out.count("save.fit.unreachable");
                    return Err("size-unreachable".into());
                }
            }
            exact = true;
        }
        _ => return Err("bad-method".into()),
    }
    let (info, pkg) = read_streams(&dest)?;
    let _ = std::fs::remove_file(&dest);
    Ok(Saved { plain, info, pkg, exact_plain_known: exact })
}

/// Returns (reply, nontrivial, derived lines with implementation replies)
pub fn exec(out: &mut Out, line: &str, emit: (bool, bool)) -> (String, bool, Vec<(String, String)>) {
    let a: Vec<&str> = line.split(' ').collect();
    let none = vec![];
    match a.get(1).copied().unwrap_or("") {
        "selftest" => ("ok 18".into(), true, none),
        "kdf" if a.len() == 7 => {
            let pw = pw_of(a[2]);
            let (salt, spin, bits, bk) = (unhex(a[3]), a[4].parse::<usize>().unwrap_or(0), a[5].parse::<usize>().unwrap_or(0), unhex(a[6]));
            match guard(|| uc::verif_convert_password_to_key(&pw, &salt, spin, bits, &bk)) {
                Ok(k) => {
                    // oracle: MS-OFFCRYPTO §2.3.4.11 from ind.rs
                    let want = ind::agile_key(&ind::agile_spin(&pw, &salt, spin as u32), &bk, bits);
                    if want == k {
                        out.oracle_ok();
                    } else {
                        out.oracle_fail(Fail::new("kdf-not-offcrypto").with("op", line).with("got", hexb(&k)).with("want", hexb(&want)));
                    }
                    out.count(&format!("kdf.bits.{}", bits));
                    (hexb(&k), true, none)
                }
                Err(_) => ("panic".into(), false, none),
            }
        }
        "iv" if a.len() == 5 => {
            let (salt, bs, bk) = (unhex(a[2]), a[3].parse::<usize>().unwrap_or(0), unhex(a[4]));
            match guard(|| uc::verif_create_iv(&salt, bs, &bk)) {
                Ok(iv) => {
                    let want = ind::agile_iv(&salt, &bk, bs);
                    if want == iv {
                        out.oracle_ok();
                    } else {
                        out.oracle_fail(Fail::new("iv-not-offcrypto").with("op", line).with("got", hexb(&iv)).with("want", hexb(&want)));
                    }
                    out.count(&format!("iv.bs.{}", bs));
                    (hexb(&iv), true, none)
                }
                Err(_) => ("panic".into(), false, none),
            }
        }
        "crypt" if a.len() == 5 => {
            let (key, iv, inp) = (unhex(a[2]), unhex(a[3]), unhex(a[4]));
            match guard(|| uc::verif_crypt(&key, &iv, &inp)) {
                Ok(Ok(ct)) => {
                    // oracle: the independent AES-CBC decryption gives the input back
                    match ind::aes_cbc_dec(&key, &iv, &ct) {
                        Ok(p) if p == inp => out.oracle_ok(),
                        _ => out.oracle_fail(Fail::new("crypt-not-invertible").with("op", line)),
                    }
                    out.count("crypt.ok");
                    (hexb(&ct), true, none)
                }
                _ => {
                    out.count("crypt.panic");
                    ("panic".into(), false, none)
                }
            }
        }
        "pkg" if a.len() == 5 => {
            let (salt, key, data) = (unhex(a[2]), unhex(a[3]), unhex(a[4]));
            match guard(|| uc::verif_crypt_package(&salt, &key, &data)) {
                Ok(o) => {
                    // oracle: §2.3.4.15 decryption of the stream gives the data back; size formula
                    let mut ok = o.len() == 8 + (data.len() + 15) / 16 * 16 && o.len() >= 8 && u64::from_le_bytes(o[0..8].try_into().unwrap()) == data.len() as u64;
                    let mut plain = vec![];
                    if ok {
                        for (i, seg) in o[8..].chunks(4096).enumerate() {
                            match ind::aes_cbc_dec(&key, &ind::agile_iv(&salt, &(i as u32).to_le_bytes(), 16), seg) {
                                Ok(p) => plain.extend(p),
                                Err(_) => ok = false,
                            }
                        }
                        plain.truncate(data.len());
                        ok = ok && plain == data;
                    }
                    if ok {
                        out.oracle_ok();
                    } else {
                        out.oracle_fail(Fail::new("pkg-not-offcrypto").with("op", &line[..line.len().min(200)]).with("size", data.len().to_string()));
                    }
                    out.count(&format!("pkg.size.mod16.{}", data.len() % 16));
                    out.count(&format!("pkg.size.segments.{}", (data.len() + 4095) / 4096));
                    (format!("{} {}", o.len(), sha_hex(&o)), true, none)
                }
                Err(_) => ("panic".into(), false, none),
            }
        }
        "save" if a.len() == 6 => {
            let method = a[2];
            let pw = pw_of(a[3]);
            let size: usize = a[4].parse().unwrap_or(0);
            let seed: u64 = a[5].parse().unwrap_or(0);
            out.count(&format!("save.method.{}", method));
            out.count(&format!("save.pw.{}", if pw.is_empty() { "empty" } else if pw.is_ascii() { "ascii" } else if pw.chars().any(|c| c as u32 > 0xffff) { "non-bmp" } else { "bmp" }));
            let r = guard(|| do_save(out, method, &pw, size, seed));
            let saved = match r {
                Ok(Ok(s)) => s,
                Ok(Err(e)) if e == "size-unreachable" => return ("ok ## size-unreachable".into(), false, none),
                Ok(Err(e)) => {
                    out.oracle_fail(Fail::new("save-failed").with("op", line).with("detail", &e));
                    return (format!("err {}", e.replace(' ', "_")), false, none);
                }
                Err(_) => {
                    out.oracle_fail(Fail::new("save-panicked").with("op", line));
                    return ("panic".into(), false, none);
                }
            };
            out.count(&format!("save.size.mod16.{}", saved.plain.len() % 16));
            out.count(&format!("save.size.mod4096.{}", match saved.plain.len() % 4096 { 0 => "0", 1 => "1", 4095 => "4095", _ => "other" }));
            out.count(&format!("save.size.segments.{}", (saved.plain.len() + 4095) / 4096));
            let mut derived = vec![];
            // ---- oracle: independent decryption with the right password gives exactly the plain package
            let (rep, dec, ai) = ind_decrypt(&saved.info, &saved.pkg, &pw);
            let expect = format!("ok {} {}", saved.plain.len(), sha_hex(&saved.plain));
            let mut ok = true;
            if rep != expect || !saved.exact_plain_known {
                ok = false;
                out.oracle_fail(Fail::new("decrypt-differs").with("op", line).with("method", method).with("size", saved.plain.len().to_string()).with("got", &rep).with("want", &expect));
            }
            // declared length and stream length
            if saved.pkg.len() < 8 || u64::from_le_bytes(saved.pkg[0..8].try_into().unwrap()) != saved.plain.len() as u64 || saved.pkg.len() != 8 + (saved.plain.len() + 15) / 16 * 16 {
                ok = false;
                out.oracle_fail(Fail::new("stream-length").with("op", line).with("size", saved.plain.len().to_string()).with("stream", saved.pkg.len().to_string()));
            }
            // wrong password must fail at the verifier; a flipped byte must fail the HMAC
            let wrong = format!("{}\u{1}", pw);
            let (wrep, _, _) = ind_decrypt(&saved.info, &saved.pkg, &wrong);
            if wrep != "fail verifier" {
                ok = false;
                out.oracle_fail(Fail::new("wrong-password-accepted").with("op", line).with("got", &wrep));
            }
            let mut tampered = saved.pkg.clone();
            let pos = (seed as usize).wrapping_mul(2654435761) % tampered.len().max(1);
            if !tampered.is_empty() {
                tampered[pos] ^= 0x20;
            }
            let (trep, _, _) = ind_decrypt(&saved.info, &tampered, &pw);
            if trep != "fail hmac" {
                ok = false;
                out.oracle_fail(Fail::new("tampering-accepted").with("op", line).with("pos", pos.to_string()).with("got", &trep));
            }
            if ok {
                out.oracle_ok();
            }
            derived.push((format!("c14 decrypt {} {} {} {}", a[3], hexb(&saved.info), hexb(&saved.pkg), expect.replace(' ', ":")), with_info_checks(&rep)));
            out.count("info.stream-vs-writer-calls.lines");
            if emit.0 {
                derived.push((format!("c14 decrypt {} {} {} fail:verifier", hex(&wrong), hexb(&saved.info), hexb(&saved.pkg)), with_info_checks(&wrep)));
                derived.push((format!("c14 decrypt {} {} {} fail:hmac", a[3], hexb(&saved.info), hexb(&tampered)), with_info_checks(&trep)));
                out.count_n("info.stream-vs-writer-calls.lines", 2);
            }
            if emit.1 {
                if let (Some(d), Some(ai)) = (dec, ai) {
                    derived.push((
                        format!("c14 encrypt {} {} {} {} {} {} {}", a[3], hexb(&saved.plain), hexb(&d.package_key), hexb(&ai.kd_salt), hexb(&ai.ke_salt), hexb(&d.hmac_key), hexb(&d.verifier_input)),
                        encrypt_reply(&saved.info, &saved.pkg, &ai),
                    ));
                }
            }
            (format!("ok ## size={} stream={}", saved.plain.len(), saved.pkg.len()), true, derived)
        }
        "decrypt" if a.len() == 6 => {
            // replay of a derived line: the independent Rust decryptor on the given streams
            let pw = pw_of(a[2]);
            let (info, pkg) = (unhex(a[3]), unhex(a[4]));
            let (rep, _, _) = ind_decrypt(&info, &pkg, &pw);
            let expect = a[5].replace(':', " ");
            if rep == expect {
                out.oracle_ok();
            } else {
                out.oracle_fail(Fail::new("decrypt-differs").with("op", &line[..line.len().min(300)]).with("got", &rep).with("want", &expect));
            }
            (with_info_checks(&rep), true, none)
        }
        "encrypt" if a.len() == 9 => {
            // replay of a derived line: the randoms cannot be forced into `encrypt`, so the streams are
            // re-assembled from the hooked building blocks in the order `encrypt` uses them
            let pw = pw_of(a[2]);
            let data = unhex(a[3]);
            let (pk, ps, ks, hk, vi) = (unhex(a[4]), unhex(a[5]), unhex(a[6]), unhex(a[7]), unhex(a[8]));
            let r = guard(|| -> Result<String, String> {
                let pkg = uc::verif_crypt_package(&ps, &pk, &data);
                let ehk = uc::verif_crypt(&pk, &uc::verif_create_iv(&ps, 16, &ind::BLK_HMAC_KEY), &hk)?;
                let mut mac = <hmac::Hmac<sha2::Sha512> as hmac::Mac>::new_from_slice(&hk).map_err(|_| "hmac")?;
                hmac::Mac::update(&mut mac, &pkg);
                let hv = hmac::Mac::finalize(mac).into_bytes().to_vec();
                let ehv = uc::verif_crypt(&pk, &uc::verif_create_iv(&ps, 16, &ind::BLK_HMAC_VALUE), &hv)?;
                let ekv = uc::verif_crypt(&uc::verif_convert_password_to_key(&pw, &ks, 100000, 256, &ind::BLK_KEY_VALUE), &ks, &pk)?;
                let evi = uc::verif_crypt(&uc::verif_convert_password_to_key(&pw, &ks, 100000, 256, &ind::BLK_VERIFIER_INPUT), &ks, &vi)?;
                let evv = uc::verif_crypt(&uc::verif_convert_password_to_key(&pw, &ks, 100000, 256, &ind::BLK_VERIFIER_VALUE), &ks, &ind::sha512(&[&vi]))?;
                let kdt = |salt: &[u8], bits: usize| {
                    format!("saltSize={},blockSize=16,keyBits={},hashSize=64,cipherAlgorithm=AES,cipherChaining=ChainingModeCBC,hashAlgorithm=SHA512,saltValue={}", salt.len(), bits, ind::b64(salt))
                };
                Ok(format!(
                    "ok pkg={} fields=keyData:{}|dataIntegrity:encryptedHmacKey={},encryptedHmacValue={}|encryptedKey:spinCount=100000,{},encryptedVerifierHashInput={},encryptedVerifierHashValue={},encryptedKeyValue={} rt=ok ## info=replay",
                    sha_hex(&pkg), kdt(&ps, pk.len() * 8), ind::b64(&ehk), ind::b64(&ehv), kdt(&ks, 256), ind::b64(&evi), ind::b64(&evv), ind::b64(&ekv)
                ))
            });
            match r {
                Ok(Ok(s)) => (s, true, none),
                _ => ("panic".into(), false, none),
            }
        }
        _ => ("bad-op".into(), false, none),
    }
}

pub fn passwords(tier: Tier, rng: &mut Rng) -> Vec<String> {
    let mut v: Vec<String> = vec![
        "".into(),
        "password".into(),
        "P@ss w0rd<&>\"'\\".into(),
        "пароль-密码".into(),
        "\u{1F600}\u{1F511} non-BMP \u{1D4B3}\u{10FFFF}".into(),
        (0..255).map(|i| ['\u{1F600}', 'é', 'Z', '\u{4E2D}', 'q'][i % 5]).collect(),
    ];
    if tier == Tier::Thorough {
        let alpha: Vec<char> = "abcXYZ019 &<>\"'\\/+=\u{e9}\u{4e2d}\u{1F600}\u{10000}\u{FFFE}\u{A0}\t".chars().collect();
        while v.len() < 40 {
            let n = match rng.below(3) {
                0 => rng.range(1, 8),
                1 => rng.range(9, 60),
                _ => rng.range(200, 255),
            };
            v.push((0..n).map(|_| *rng.pick(&alpha)).collect());
        }
    }
    v
}

pub fn gen(tier: Tier, seed: u64) -> Vec<String> {
    let mut rng = Rng::new(seed);
    let pws = passwords(tier, &mut rng);
    let mut ops = vec!["c14 selftest".to_string()];
    let rb = |rng: &mut Rng, n: usize| -> Vec<u8> { (0..n).map(|_| rng.below(256) as u8).collect() };
    let blks: [&[u8]; 5] = [&ind::BLK_KEY_VALUE, &ind::BLK_VERIFIER_INPUT, &ind::BLK_VERIFIER_VALUE, &ind::BLK_HMAC_KEY, &ind::BLK_HMAC_VALUE];
    // --- deterministic building blocks through the hooks
    for (i, pw) in pws.iter().enumerate() {
        for (j, spin) in [0usize, 1, 2, 3, 50].iter().enumerate() {
            let bits = [256usize, 256, 128, 512, 520, 8, 0][(i + j) % 7];
            let salt = if (i + j) % 5 == 0 { vec![] } else { rb(&mut rng, 16) };
            ops.push(format!("c14 kdf {} {} {} {} {}", hex(pw), hexb(&salt), spin, bits, hexb(blks[(i + j) % 5])));
        }
    }
    ops.push(format!("c14 kdf {} {} 100000 256 {}", hex("password"), "3aa973eec73c98c4710021730ef5b513", hexb(&ind::BLK_KEY_VALUE)));
    for i in 0..24u32 {
        let bs = [16usize, 16, 16, 8, 64, 65, 100, 0][(i % 8) as usize];
        let bk = if i % 3 == 0 { i.to_le_bytes().to_vec() } else { blks[(i % 5) as usize].to_vec() };
        let sl = if i == 5 { 0 } else { 16 };
        ops.push(format!("c14 iv {} {} {}", hexb(&rb(&mut rng, sl)), bs, hexb(&bk)));
    }
    for (kl, il, n) in [(32usize, 16usize, 16usize), (32, 16, 64), (32, 16, 0), (32, 16, 4096), (32, 16, 15), (32, 16, 4112), (16, 16, 16), (24, 16, 16), (32, 8, 16), (32, 32, 16), (0, 16, 16), (32, 16, 4097)] {
        ops.push(format!("c14 crypt {} {} {}", hexb(&rb(&mut rng, kl)), hexb(&rb(&mut rng, il)), hexb(&rb(&mut rng, n))));
    }
    let mut sizes: Vec<usize> = vec![0, 1, 15, 16, 17, 31, 32, 33, 4080, 4081, 4095, 4096, 4097, 4111, 4112, 4113, 8191, 8192, 8193, 12287, 12288, 12289];
    if tier == Tier::Thorough {
        for k in [4usize, 5, 8, 16] {
            sizes.extend([k * 4096 - 1, k * 4096, k * 4096 + 1]);
        }
        for _ in 0..40 {
            sizes.push(rng.range(0, 70000) as usize);
        }
    }
    // more than 256 segments (> 1 MiB): the segment counter leaves the range of one byte / one drained batch
    sizes.extend([255 * 4096 + 4095, 256 * 4096, 256 * 4096 + 1, 257 * 4096 + 17]);
    if tier == Tier::Thorough {
        sizes.extend([511 * 4096 + 1, 513 * 4096, 600 * 4096 + 5, 1025 * 4096 + 3]);
    }
    for n in &sizes {
        ops.push(format!("c14 pkg {} {} {}", hexb(&rb(&mut rng, 16)), hexb(&rb(&mut rng, 32)), hexb(&rb(&mut rng, *n))));
    }
    // --- end to end: method × password × size
    let sp_sizes: Vec<usize> = if tier == Tier::Quick {
        vec![0, 1, 15, 16, 17, 4095, 4096, 4097, 8191, 8192, 8193, 12289]
    } else {
        let mut v = vec![0, 1, 15, 16, 17, 31, 32, 4095, 4096, 4097, 8191, 8192, 8193, 12287, 12288, 12289, 16383, 16384, 16385, 40959, 40960, 40961, 65535, 65536, 65537];
        for _ in 0..15 {
            v.push(rng.range(0, 100000) as usize);
        }
        v
    };
    // workbook packages: new_file() is ~5.0 KiB (full) / ~5.9 KiB (light), so the reachable boundaries start at 2·4096
    let wb_sizes: Vec<usize> = if tier == Tier::Quick { vec![8191, 8192, 8193, 12288] } else { vec![8191, 8192, 8193, 8207, 8208, 8209, 12287, 12288, 12289, 16383, 16384, 16385, 20480] };
    let mut k = 0u64;
    // end to end above 256 segments: one save per method family (set_password on a file of that size)
    for n in if tier == Tier::Quick { vec![256 * 4096 + 1] } else { vec![256 * 4096, 256 * 4096 + 1, 300 * 4096 + 77, 520 * 4096 + 1] } {
        k += 1;
        ops.push(format!("c14 save sp {} {} {}", hex(&pws[(k as usize) % pws.len()]), n, seed.wrapping_mul(1000) + 900 + k));
    }
    if tier == Tier::Quick {
        // 6 passwords × 10 cases: every password sees sp sizes and one workbook size per method
        for (i, pw) in pws.iter().enumerate() {
            for j in 0..6 {
                let n = sp_sizes[(i * 6 + j) % sp_sizes.len()];
                k += 1;
                ops.push(format!("c14 save sp {} {} {}", hex(pw), n, seed.wrapping_mul(1000) + k));
            }
            for (j, m) in ["wp", "wpl", "wp", "wpl"].iter().enumerate() {
                let n = wb_sizes[(i + j) % wb_sizes.len()];
                k += 1;
                ops.push(format!("c14 save {} {} {} {}", m, hex(pw), n, seed.wrapping_mul(1000) + k));
            }
        }
    } else {
        // 40 passwords × 16 cases (12 set_password payload sizes + 4 workbook saves)
        for (i, pw) in pws.iter().enumerate() {
            for j in 0..12 {
                let n = sp_sizes[(i * 7 + j) % sp_sizes.len()];
                k += 1;
                ops.push(format!("c14 save sp {} {} {}", hex(pw), n, seed.wrapping_mul(1000) + k));
            }
            for j in 0..4 {
                let n = wb_sizes[(i + j) % wb_sizes.len()];
                k += 1;
                ops.push(format!("c14 save {} {} {} {}", if (i + j) % 2 == 0 { "wp" } else { "wpl" }, hex(pw), n, seed.wrapping_mul(1000) + k));
            }
        }
    }
    ops
}

pub fn run(out: &mut Out, tier: Tier, seed: u64, replay: Option<Vec<String>>) {
    let is_replay = replay.is_some();
    let ops = match replay {
        Some(r) => r,
        None => gen(tier, seed),
    };
    out.flush_each = true;
    let mut nsave = 0u64;
    // freshness exploration (partial clause): randoms of consecutive saves
    let mut seen_salts: std::collections::HashSet<Vec<u8>> = std::collections::HashSet::new();
    for op in ops {
        let kind = op.split(' ').nth(1).unwrap_or("?").to_string();
        out.begin(&op);
        if kind == "save" {
            nsave += 1;
        }
        // negative derived lines every 4th save, the (expensive) model-of-encrypt line every 2nd save
        let emit = (is_replay || nsave % 4 == 1, is_replay || nsave % 2 == 1);
        let (reply, nt, derived) = exec(out, &op, emit);
        out.count(&format!("op.{}", kind));
        if reply == "panic" {
            out.count(&format!("panic.{}", kind));
        }
        out.end(&op, &reply, nt);
        for (dop, dreply) in derived {
            let dk = dop.split(' ').nth(1).unwrap_or("?").to_string();
            out.count(&format!("op.{}(derived)", dk));
            if dk == "encrypt" {
                // freshness: every random of this save differs from every earlier one
                let f: Vec<&str> = dop.split(' ').collect();
                let mut fresh = true;
                for x in &f[4..9] {
                    if !seen_salts.insert(unhex(x)) {
                        fresh = false;
                    }
                }
                if fresh {
                    out.count("freshness.all-five-randoms-new");
                } else {
                    out.oracle_fail(Fail::new("random-repeated").with("op", &op));
                }
            }
            out.case(&dop, &dreply, true);
        }
    }
}
