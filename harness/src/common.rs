//! Shared plumbing of the correspondence harness: PRNG, hex transport, output streams,
//! panic capture, coverage counters.
use std::collections::{BTreeMap, HashSet};
use std::fs::File;
use std::io::{BufWriter, Write};
use std::panic::{catch_unwind, AssertUnwindSafe};
use std::path::{Path, PathBuf};

pub struct Rng(pub u64);
impl Rng {
    pub fn new(seed: u64) -> Self {
        Rng(seed ^ 0x9E37_79B9_7F4A_7C15)
    }
    pub fn next(&mut self) -> u64 {
        self.0 = self.0.wrapping_add(0x9E37_79B9_7F4A_7C15);
        let mut z = self.0;
        z = (z ^ (z >> 30)).wrapping_mul(0xBF58_476D_1CE4_E5B9);
        z = (z ^ (z >> 27)).wrapping_mul(0x94D0_49BB_1331_11EB);
        z ^ (z >> 31)
    }
    pub fn below(&mut self, n: u64) -> u64 {
        if n == 0 {
            0
        } else {
            self.next() % n
        }
    }
    pub fn range(&mut self, lo: u64, hi: u64) -> u64 {
        lo + self.below(hi - lo + 1)
    }
    pub fn chance(&mut self, num: u64, den: u64) -> bool {
        self.below(den) < num
    }
    pub fn pick<'a, T>(&mut self, xs: &'a [T]) -> &'a T {
        &xs[self.below(xs.len() as u64) as usize]
    }
    pub fn f64_unit(&mut self) -> f64 {
        (self.next() >> 11) as f64 / (1u64 << 53) as f64
    }
}

pub fn hex(s: &str) -> String {
    hexb(s.as_bytes())
}
pub fn hexb(b: &[u8]) -> String {
    if b.is_empty() {
        return "-".to_string();
    }
    let mut o = String::with_capacity(b.len() * 2);
    for x in b {
        o.push_str(&format!("{:02x}", x));
    }
    o
}
pub fn unhex(s: &str) -> Vec<u8> {
    if s == "-" {
        return vec![];
    }
    (0..s.len() / 2)
        .map(|i| u8::from_str_radix(&s[2 * i..2 * i + 2], 16).unwrap())
        .collect()
}

pub fn opt_u32(v: Option<u32>) -> String {
    match v {
        Some(n) => n.to_string(),
        None => "-".into(),
    }
}
pub fn opt_bool(v: Option<bool>) -> String {
    match v {
        Some(true) => "1".into(),
        Some(false) => "0".into(),
        None => "-".into(),
    }
}

/// Run `f`, mapping a panic to `Err(())`.
pub fn guard<T>(f: impl FnOnce() -> T) -> Result<T, ()> {
    catch_unwind(AssertUnwindSafe(f)).map_err(|_| ())
}
pub fn guard_str(f: impl FnOnce() -> String) -> String {
    guard(f).unwrap_or_else(|_| "panic".to_string())
}

pub fn json_escape(s: &str) -> String {
    let mut o = String::new();
    for c in s.chars() {
        match c {
            '"' => o.push_str("\\\""),
            '\\' => o.push_str("\\\\"),
            '\n' => o.push_str("\\n"),
            '\r' => o.push_str("\\r"),
            '\t' => o.push_str("\\t"),
            c if (c as u32) < 0x20 => o.push_str(&format!("\\u{:04x}", c as u32)),
            c => o.push(c),
        }
    }
    o
}

/// Key/value description of a failing case; values are strings (JSON-escaped on output).
#[derive(Clone, Default)]
pub struct Fail {
    pub fields: Vec<(String, String)>,
}
impl Fail {
    pub fn new(class: &str) -> Self {
        Fail { fields: vec![("class".into(), class.into())] }
    }
    pub fn with(mut self, k: &str, v: impl AsRef<str>) -> Self {
        self.fields.push((k.into(), v.as_ref().to_string()));
        self
    }
    pub fn to_json(&self) -> String {
        let parts: Vec<String> = self
            .fields
            .iter()
            .map(|(k, v)| format!("\"{}\":\"{}\"", json_escape(k), json_escape(v)))
            .collect();
        format!("{{{}}}", parts.join(","))
    }
}

pub struct Out {
    pub dir: PathBuf,
    ops: BufWriter<File>,
    imp: BufWriter<File>,
    oracle: BufWriter<File>,
    pub evaluations: u64,
    pub oracle_checks: u64,
    pub oracle_failures: u64,
    nontrivial: HashSet<u64>,
    pub dist: BTreeMap<String, u64>,
    pub samples: Vec<String>,
    pub notes: Vec<String>,
    pub flush_each: bool,
    pub cur_line: u64,
}

fn fnv(s: &str) -> u64 {
    let mut h: u64 = 0xcbf29ce484222325;
    for b in s.bytes() {
        h ^= b as u64;
        h = h.wrapping_mul(0x100000001b3);
    }
    h
}

impl Out {
    pub fn new(dir: &Path) -> Self {
        std::fs::create_dir_all(dir).unwrap();
        let f = |n: &str| BufWriter::with_capacity(1 << 16, File::create(dir.join(n)).unwrap());
        Out {
            dir: dir.to_path_buf(),
            ops: f("ops.txt"),
            imp: f("impl.txt"),
            oracle: f("oracle.txt"),
            evaluations: 0,
            oracle_checks: 0,
            oracle_failures: 0,
            nontrivial: HashSet::new(),
            dist: BTreeMap::new(),
            samples: vec![],
            notes: vec![],
            flush_each: false,
            cur_line: 0,
        }
    }
    /// Announce a request before running the implementation (so that a hang leaves a trace).
    pub fn begin(&mut self, op: &str) {
        debug_assert!(!op.contains('\n'));
        self.cur_line += 1;
        writeln!(self.ops, "{}", op).unwrap();
        if self.flush_each {
            self.ops.flush().unwrap();
        }
    }
    /// Record the implementation's reply to the request announced by `begin`.
    pub fn end(&mut self, op: &str, reply: &str, nontrivial: bool) {
        debug_assert!(!reply.contains('\n'));
        writeln!(self.imp, "{}", reply).unwrap();
        if self.flush_each {
            self.imp.flush().unwrap();
        }
        self.evaluations += 1;
        if nontrivial {
            self.nontrivial.insert(fnv(op));
        }
        if self.samples.len() < 6 && (self.evaluations % 97 == 1) {
            self.samples.push(format!("{} -> {}", op, reply));
        }
    }
    pub fn case(&mut self, op: &str, reply: &str, nontrivial: bool) {
        self.begin(op);
        self.end(op, reply, nontrivial);
    }
    pub fn count(&mut self, key: &str) {
        *self.dist.entry(key.to_string()).or_insert(0) += 1;
    }
    pub fn count_n(&mut self, key: &str, n: u64) {
        *self.dist.entry(key.to_string()).or_insert(0) += n;
    }
    pub fn oracle_ok(&mut self) {
        self.oracle_checks += 1;
    }
    pub fn oracle_fail(&mut self, f: Fail) {
        let f = f.with("line", (self.cur_line.saturating_sub(1)).to_string());
        self.oracle_checks += 1;
        self.oracle_failures += 1;
        writeln!(self.oracle, "{}", f.to_json()).unwrap();
    }
    pub fn finish(mut self) {
        self.ops.flush().unwrap();
        self.imp.flush().unwrap();
        self.oracle.flush().unwrap();
        let dist: Vec<String> =
            self.dist.iter().map(|(k, v)| format!("\"{}\":{}", json_escape(k), v)).collect();
        let samples: Vec<String> =
            self.samples.iter().map(|s| format!("\"{}\"", json_escape(s))).collect();
        let notes: Vec<String> =
            self.notes.iter().map(|s| format!("\"{}\"", json_escape(s))).collect();
        let s = format!(
            "{{\"evaluations\":{},\"distinct_nontrivial\":{},\"oracle_checks\":{},\"oracle_failures\":{},\"distribution\":{{{}}},\"samples\":[{}],\"notes\":[{}]}}\n",
            self.evaluations,
            self.nontrivial.len(),
            self.oracle_checks,
            self.oracle_failures,
            dist.join(","),
            samples.join(","),
            notes.join(",")
        );
        std::fs::write(self.dir.join("stats.json"), s).unwrap();
    }
}

#[derive(Clone, Copy, PartialEq, Eq)]
pub enum Tier {
    Quick,
    Thorough,
}

/// all parts of a zip package as (name, bytes)
pub fn unzip_all(buf: &[u8]) -> Result<Vec<(String, Vec<u8>)>, String> {
    use std::io::Read;
    let mut zip = zip::ZipArchive::new(std::io::Cursor::new(buf)).map_err(|e| e.to_string())?;
    let mut out = vec![];
    for i in 0..zip.len() {
        let mut f = zip.by_index(i).map_err(|e| e.to_string())?;
        let mut b = vec![];
        f.read_to_end(&mut b).map_err(|e| e.to_string())?;
        out.push((f.name().to_string(), b));
    }
    Ok(out)
}

/// text between the first `open` and the following `close`, repeatedly
pub fn scan_between<'a>(s: &'a str, open: &str, close: &str) -> Vec<&'a str> {
    let mut out = vec![];
    let mut rest = s;
    while let Some(i) = rest.find(open) {
        rest = &rest[i + open.len()..];
        match rest.find(close) {
            Some(j) => {
                out.push(&rest[..j]);
                rest = &rest[j + close.len()..];
            }
            None => break,
        }
    }
    out
}

/// value of attribute `name` in the text of a start tag
pub fn attr_of<'a>(tag: &'a str, name: &str) -> Option<&'a str> {
    let pat = format!(" {}=\"", name);
    let i = tag.find(&pat)?;
    let r = &tag[i + pat.len()..];
    let j = r.find('"')?;
    Some(&r[..j])
}
