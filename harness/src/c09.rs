//! C09 — formula text survives the tokenizer; translation shifts only relative refs.
//!
//! Request lines (strings hex-encoded, `-` = empty):
//!   c09 ident    <src> <expected> <alt> <tags>            parse_to_tokens + render (hook), tokens dumped
//!   c09 setcoord <src> <c0> <r0> <c1> <r1> <expected> <alt> <tags>   Cell::set_formula / set_coordinate / get_formula
//!   c09 adj      <src> <dc> <dr> <expected> <alt> <tags>  parse + adjustment_formula_coordinate + render
//!   c09 insfar   <src> <row> <expected> <alt> <tags>      Worksheet::insert_new_row far below every reference
//!   c09 clean    <src> <1|0> <tags>                         generator's well-formedness claim vs the model's Spec.Clean
//! `expected` = the text the property demands (printed from the generator's AST, blanks that are not
//! intersections erased); `alt` = what the listed known defects would produce (`-` when there is none);
//! `expected` = `-` marks the malformed stream (no oracle besides "returns").
//! The model ignores expected/alt/tags.
use crate::common::*;
use crate::fx::*;
use umya_spreadsheet::helper::formula::*;

fn s(h: &str) -> String {
    String::from_utf8(unhex(h)).unwrap()
}

pub fn dump_tokens(t: &[FormulaToken]) -> String {
    if t.is_empty() {
        return "-".into();
    }
    t.iter()
        .map(|x| format!("{:?}.{:?}:{}{}", x.get_token_type(), x.get_token_sub_type(), hex(x.get_value()), array_mark(x)))
        .collect::<Vec<_>>()
        .join(",")
}

/// the crate-private array-constant mark of a token (`~Array` / `~Row`, nothing for ordinary tokens)
fn array_mark(x: &FormulaToken) -> String {
    match verif_array_part(x) {
        "-" => String::new(),
        m => format!("~{}", m),
    }
}

/// token dump for the "same lexical tokens" comparison: the value carried by an intersection
/// token is a stale accumulator (never rendered), so it is not part of the lexical token
pub fn dump_lexical(t: &[FormulaToken]) -> String {
    t.iter()
        .map(|x| {
            let v = if x.get_token_sub_type() == &FormulaTokenSubTypes::Intersection { " " } else { x.get_value() };
            format!("{:?}.{:?}:{}{}", x.get_token_type(), x.get_token_sub_type(), hex(v), array_mark(x))
        })
        .collect::<Vec<_>>()
        .join(",")
}

/// classify an observed result against the expectation carried by the request
pub fn judge(out: &mut Out, line: &str, kind: &str, src: &str, got: Result<String, ()>, expected: &str, alt: &str, tags: &str) {
    if expected == "-" {
        return; // malformed stream: correspondence only
    }
    let exp = s(expected);
    match got {
        Ok(g) if g == exp => out.oracle_ok(),
        Ok(g) => {
            let class = if alt != "-" && g == s(alt) { format!("{}-known-rewrite", kind) } else { format!("{}-mismatch", kind) };
            out.oracle_fail(
                Fail::new(&class).with("src", src).with("got", &g).with("expected", &exp).with("tags", tags).with("op", line),
            );
        }
        Err(()) => {
            out.oracle_fail(Fail::new(&format!("{}-panic", kind)).with("src", src).with("expected", &exp).with("tags", tags).with("op", line));
        }
    }
}

pub fn exec(out: &mut Out, line: &str) -> (String, bool) {
    let a: Vec<&str> = line.split(' ').collect();
    if a.len() < 3 {
        return ("bad-op".into(), false);
    }
    let src = s(a[2]);
    match a[1] {
        "ident" => {
            let r = guard(|| {
                let t = verif_parse_to_tokens(&format!("={}", src));
                let text = verif_render(&t);
                (text, dump_tokens(&t), dump_lexical(&t))
            });
            match r {
                Ok((text, dump, lexical)) => {
                    judge(out, line, "identity", &src, Ok(text.clone()), a[3], a[4], a[5]);
                    if a[3] != "-" && text == s(a[3]) {
                        // same token sequence when the result is processed again
                        let again = guard(|| dump_lexical(&verif_parse_to_tokens(&format!("={}", text))));
                        if again == Ok(lexical) {
                            out.oracle_ok();
                        } else {
                            out.oracle_fail(Fail::new("retokenize-differs").with("src", &src).with("tags", a[5]).with("op", line));
                        }
                    }
                    out.count(&format!("ntok.{}", (dump.matches(',').count() + 1).min(40) / 5 * 5));
                    (format!("{} {}", hex(&text), dump), dump != "-")
                }
                Err(_) => {
                    judge(out, line, "identity", &src, Err(()), a[3], a[4], a[5]);
                    ("panic".into(), false)
                }
            }
        }
        "setcoord" => {
            let (c0, r0, c1, r1): (u32, u32, u32, u32) =
                (a[3].parse().unwrap(), a[4].parse().unwrap(), a[5].parse().unwrap(), a[6].parse().unwrap());
            let r = guard(|| {
                let mut book = umya_spreadsheet::new_file();
                let ws = book.get_sheet_mut(&0).unwrap();
                let cell = ws.get_cell_mut((c0, r0));
                cell.set_formula(src.clone());
                cell.set_coordinate((c1, r1));
                cell.get_formula().to_string()
            });
            let kind = if (c0, r0) == (c1, r1) { "identity" } else { "translate" };
            judge(out, line, kind, &src, r.clone(), a[7], a[8], a[9]);
            match r {
                Ok(t) => (hex(&t), true),
                Err(_) => ("panic".into(), false),
            }
        }
        "setcoordsh" => {
            // the same through a cell that was LOADED as a member of a shared formula: the master at (c0, r0) carries the
            // text, the member one row below carries `<f t="shared" si="0"/>`; the member is moved by (c1 - c0, r1 - r0)
            let (c0, r0, c1, r1): (u32, u32, u32, u32) =
                (a[3].parse().unwrap(), a[4].parse().unwrap(), a[5].parse().unwrap(), a[6].parse().unwrap());
            let r = guard(|| -> Result<String, String> {
                let col = umya_spreadsheet::helper::coordinate::string_from_column_index(&c0);
                let esc = src.replace('&', "&amp;").replace('<', "&lt;").replace('>', "&gt;");
                let data = format!(
                    "<sheetData><row r=\"{r0}\"><c r=\"{col}{r0}\"><f t=\"shared\" ref=\"{col}{r0}:{col}{r1_}\" si=\"0\">{esc}</f><v>1</v></c></row><row r=\"{r1_}\"><c r=\"{col}{r1_}\"><f t=\"shared\" si=\"0\"/><v>2</v></c></row></sheetData>",
                    r0 = r0, r1_ = r0 + 1, col = col, esc = esc
                );
                let base = crate::wb::save_bytes(&umya_spreadsheet::new_file(), false)?;
                let parts: Vec<(String, Vec<u8>)> = unzip_all(&base)?
                    .into_iter()
                    .map(|(name, bytes)| {
                        if name == "xl/worksheets/sheet1.xml" {
                            let x = String::from_utf8_lossy(&bytes).to_string();
                            let x = match (x.find("<sheetData"), x.find("</sheetData>")) {
                                (Some(i), Some(j)) => format!("{}{}{}", &x[..i], data, &x[j + "</sheetData>".len()..]),
                                (Some(i), None) => {
                                    let j = x[i..].find("/>").map(|k| i + k + 2).unwrap_or(i);
                                    format!("{}{}{}", &x[..i], data, &x[j..])
                                }
                                _ => x,
                            };
                            (name, x.into_bytes())
                        } else {
                            (name, bytes)
                        }
                    })
                    .collect();
                let book = umya_spreadsheet::reader::xlsx::read_reader(std::io::Cursor::new(crate::c03::zip_parts(&parts, false)), true).map_err(|e| format!("{:?}", e))?;
                let mut cell = book.get_sheet(&0).unwrap().get_cell((c0, r0 + 1)).ok_or("member cell missing")?.clone();
                let (nc, nr) = (c0 as i64 + (c1 as i64 - c0 as i64), r0 as i64 + 1 + (r1 as i64 - r0 as i64));
                cell.set_coordinate((nc as u32, nr as u32));
                Ok(cell.get_formula().to_string())
            });
            let r2: Result<String, ()> = match r {
                Ok(Ok(t)) => Ok(t),
                _ => Err(()),
            };
            judge(out, line, "translate", &src, r2.clone(), a[7], a[8], a[9]);
            match r2 {
                Ok(t) => (hex(&t), true),
                Err(_) => ("panic".into(), false),
            }
        }
        "adj" => {
            let dc: i32 = a[3].parse().unwrap();
            let dr: i32 = a[4].parse().unwrap();
            let r = guard(|| {
                let mut t = verif_parse_to_tokens(&format!("={}", src));
                adjustment_formula_coordinate(&mut t, &dc, &dr);
                verif_render(&t)
            });
            judge(out, line, "translate", &src, r.clone(), a[5], a[6], a[7]);
            match r {
                Ok(t) => (hex(&t), true),
                Err(_) => ("panic".into(), false),
            }
        }
        "clean" => {
            // the generator's claim "this text is a well-formed formula of the grammar" against the
            // model's independent scanner Spec.Clean (nothing of the implementation is involved)
            (a[3].to_string(), true)
        }
        "insfar" => {
            let row: u32 = a[3].parse().unwrap();
            let r = guard(|| {
                let mut book = umya_spreadsheet::new_file();
                let ws = book.get_sheet_mut(&0).unwrap();
                ws.get_cell_mut((2u32, 3u32)).set_formula(src.clone());
                ws.insert_new_row(&row, &1);
                // the cell itself moves when the insertion point is above it
                let mut f: Vec<String> =
                    ws.get_cell_collection().iter().filter(|c| c.is_formula()).map(|c| c.get_formula().to_string()).collect();
                if f.len() == 1 {
                    f.pop().unwrap()
                } else {
                    format!("<{} formula cells>", f.len())
                }
            });
            judge(out, line, "identity", &src, r.clone(), a[4], a[5], a[6]);
            match r {
                Ok(t) => (hex(&t), true),
                Err(_) => ("panic".into(), false),
            }
        }
        _ => ("bad-op".into(), false),
    }
}

fn tags_of(e: &E) -> (Feat, String) {
    let mut f = Feat::default();
    features(e, &mut f, 1);
    let t: Vec<&str> = f.tags.iter().cloned().collect();
    let s = if t.is_empty() { "-".to_string() } else { t.join("+") };
    (f, s)
}

fn alt_of(e: &E, exp: &str) -> String {
    let a = print(e, true);
    if a == exp {
        "-".into()
    } else {
        hex(&a)
    }
}

pub const MALFORMED: [&str; 64] = [
    "", " ", "  ", "A1 ", "A1  ", " A1", "(", ")", "((A1)", "(A1))", "SUM(", "SUM(A1", "SUM(A1,", "A1,B1", ",", ";", "{", "}", "{1,2", "1,2}",
    "{1;2}", "{}", "\"", "\"abc", "\"a\"\"", "'", "'abc", "'a'b'!A1", "'a''", "[", "]", "[abc", "Table1[Col]", "Table1[[#This Row],[Col]]", "[1]Sheet1!A1",
    "A1[", "#", "#REF", "#REF!#REF!", "#N/A!", "A1#REF!", "x\"y\"", "x'y'", "x#N/A", "x{1}", "1 2", "A1  B1   C1", "SUM (A1)", "< =", "<>", ">=<",
    "A1<>=B1", "+", "-", "+-+", "%", "%%", "1%%", "@A1", "@SUM(A1)", "=A1", "A1:B2:C3", "$", "A1!B1!C1",
];

/// `LexOk` of Umya/Lemmas/FormulaLexExpr.lean mirrored on the generator's AST: the hypothesis of
/// `C09_lex_print` (an ordinary character is one that the tokenizer appends to its accumulator)
fn is_ord(c: char) -> bool {
    !"\"'[#{;} <>+-*/^&=%(),".contains(c)
}
fn ord_text(t: &str) -> bool {
    !t.is_empty() && t.chars().all(is_ord)
}
fn is_range_text(t: &str) -> bool {
    t.parse::<f64>().is_err() && t.to_ascii_uppercase() != "TRUE" && t.to_ascii_uppercase() != "FALSE"
}
pub fn lex_ok(e: &E) -> bool {
    match e {
        E::Num(t) => ord_text(t) && t.parse::<f64>().is_ok(),
        E::Str(_) | E::Bool(_) | E::Err(_) => true,
        E::Name(n) => ord_text(n) && is_range_text(n),
        E::Ref(r) => {
            r.sheet.as_ref().map_or(true, |q| !q.name.is_empty() && (q.quoted || q.name.chars().all(is_ord)))
                && is_range_text(&ref_txt(r))
        }
        E::Struct(_) | E::Array(_) | E::Isect(_, _) => false,
        E::Pre(_, a) | E::Post(a) | E::Paren(a) => lex_ok(a),
        E::Bin(_, a, b) => lex_ok(a) && lex_ok(b),
        E::Union(v) => v.iter().all(lex_ok),
        E::Call(f, args) => ord_text(f) && !f.starts_with('@') && args.iter().all(|x| x.as_ref().map_or(true, lex_ok)),
    }
}

pub fn gen(tier: Tier, seed: u64) -> Vec<String> {
    let mut rng = Rng::new(seed);
    let mut v: Vec<String> = vec![];
    let thorough = tier == Tier::Thorough;
    let n_formulas = if thorough { 200_000 } else { 5_000 };
    let cfg = GenCfg { sheets: c09_sheets(), arrays: true, structured: true, max_depth: 6 };
    let mut made = 0;
    while made < n_formulas {
        let small = rng.chance(1, 3);
        let e = gen_expr(&mut rng, &cfg, 1, small);
        let exp = print(&e, false);
        if exp.chars().count() > 110 {
            continue;
        }
        made += 1;
        let (feat, tags) = tags_of(&e);
        // the hypothesis of C09_lex_print / C09_translate_text, evaluated on the AST (informational tag), and for the
        // expressions inside the fragment the exact printed text (no optional blanks) through both tokenizers
        let lexok = lex_ok(&e);
        let tags = format!("{}+{}", tags, if lexok { "lexok" } else { "lexok-not" });
        if lexok {
            v.push(format!("c09 ident {} {} - {}+lexprint", hex(&exp), hex(&exp), tags));
        }
        let pm = if rng.chance(1, 2) { 0 } else { 250 };
        let mut src = print_src(&e, &mut rng, pm);
        if rng.chance(1, 20) {
            src = format!(" {}", src);
        }
        if rng.chance(1, 15) {
            src.push(' ');
            if rng.chance(1, 3) {
                src.push(' ');
            }
        }
        let alt = alt_of(&e, &exp);
        // identity paths
        v.push(format!("c09 ident {} {} {} {}", hex(&src), hex(&exp), alt, tags));
        v.push(format!("c09 clean {} 1 {}", hex(&src), tags));
        let (c0, r0) = (rng.range(1, 30) as u32, rng.range(1, 50) as u32);
        if rng.chance(1, 2) {
            v.push(format!("c09 setcoord {} {} {} {} {} {} {} {}", hex(&src), c0, r0, c0, r0, hex(&exp), alt, tags));
        }
        if feat.max_row < 1_000_000 && rng.chance(1, 3) {
            v.push(format!("c09 insfar {} {} {} {} {}", hex(&src), 1_000_000 + rng.below(48_000), hex(&exp), alt, tags));
        }
        // translation
        for _ in 0..2 {
            let (c1, r1) = match rng.below(6) {
                0 => (1, 1),
                1 => (16384, 1048576),
                2 => (c0, rng.range(1, 1048576) as u32),
                3 => (rng.range(1, 16384) as u32, r0),
                _ => ((c0 as i64 + rng.range(0, 12) as i64 - 6).max(1) as u32, (r0 as i64 + rng.range(0, 12) as i64 - 6).max(1) as u32),
            };
            let (dc, dr) = (c1 as i64 - c0 as i64, r1 as i64 - r0 as i64);
            let t = translate(&e, dc, dr);
            let texp = print(&t, false);
            let talt = alt_of(&t, &texp);
            if rng.chance(1, 4) && r0 + 1 + (dr.max(0) as u32) <= 1_048_576 && (r0 as i64 + 1 + dr) >= 1 {
                // a member of a shared formula one row below the master, moved by the same (dc, dr)
                let t1 = translate(&e, 0, 1);
                let t2 = translate(&t1, dc, dr);
                let t2exp = print(&t2, false);
                let t2alt = alt_of(&t2, &t2exp);
                v.push(format!("c09 setcoordsh {} {} {} {} {} {} {} {}", hex(&src), c0, r0, c1, r1, hex(&t2exp), t2alt, tags));
            }
            if rng.chance(2, 3) {
                v.push(format!("c09 setcoord {} {} {} {} {} {} {} {}", hex(&src), c0, r0, c1, r1, hex(&texp), talt, tags));
            } else {
                v.push(format!("c09 adj {} {} {} {} {} {}", hex(&src), dc, dr, hex(&texp), talt, tags));
            }
        }
    }
    // boundary offsets straight into the adjust function
    for f in ["A1", "$A$1", "XFD1048576", "A1:XFD1048576", "A:A", "1:1", "Sheet1!B2", "'My Sheet'!$B2:C$3", "MyName", "A4294967295", "A2147483648"] {
        for (dc, dr) in [(0i64, 0i64), (1, 1), (-1, -1), (16383, 1048575), (-16383, -1048575), (16384, 0), (0, 1048576), (2147483647, 0), (0, 2147483647), (-2147483648, -2147483648)] {
            v.push(format!("c09 adj {} {} {} - - boundary", hex(f), dc, dr));
        }
    }
    // texts the scanner must reject (unbalanced, unterminated, top-level comma, semicolon outside braces,
    // parentheses and braces that cross)
    for m in ["A1,B1", "{1", "1}", "(1}", "{1)", "{(1;2)}", "SUM(1;2)", "(", ")", "SUM(A1", "A1)", "\"abc", "'abc", "[abc", "#REF", "1;2", "SUM(A1))", "\"a\"\"", "x'y"] {
        v.push(format!("c09 clean {} 0 malformed", hex(m)));
    }
    // array constants the scanner must accept (hand-written: blanks, negative numbers, strings with the
    // separator characters, errors, nesting in calls, a user function called ARRAY) — with the full oracle
    for m in ["{1}", "{}", "{1,2;3,4}", "SUM({1,2;3,4}*A1:B2)", "{\"a;b\",\"}\",\"{\"}", "{-1,+2;#N/A,TRUE}", "ARRAY(ARRAYROW(1,2),ARRAYROW(3,4))",
              "ARRAY({1,2})", "INDEX({1,2;3,4},2,1)+{5}", "{1,2}&{\"x\"}", "IF(A1,{1;2},{3;4})"] {
        v.push(format!("c09 clean {} 1 array-const", hex(m)));
        v.push(format!("c09 ident {} {} - array-const", hex(m), hex(m)));
        v.push(format!("c09 setcoord {} 2 2 2 2 {} - array-const", hex(m), hex(m)));
    }
    v.push(format!("c09 ident {} {} - array-const", hex("{ 1 , 2 ; 3 }"), hex("{1,2;3}")));
    v.push(format!("c09 adj {} 1 1 {} - array-const", hex("SUM({1,2;3,4}*A1:B2)"), hex("SUM({1,2;3,4}*B2:C3)")));
    // malformed / boundary stream: correspondence only
    for m in MALFORMED {
        v.push(format!("c09 ident {} - - malformed", hex(m)));
        v.push(format!("c09 setcoord {} 2 2 3 3 - - malformed", hex(m)));
    }
    let alpha: Vec<char> = "=\"\"''[]{}();,, #!$:A1B2Zz09+-*/<>=%&x.@E é日".chars().collect();
    let n_mal = if thorough { 100_000 } else { 4_000 };
    for _ in 0..n_mal {
        let n = rng.range(1, 14);
        let m: String = (0..n).map(|_| *rng.pick(&alpha)).collect();
        match rng.below(3) {
            0 => v.push(format!("c09 ident {} - - malformed", hex(&m))),
            1 => v.push(format!("c09 adj {} {} {} - - malformed", hex(&m), rng.range(0, 6) as i64 - 3, rng.range(0, 6) as i64 - 3)),
            _ => v.push(format!("c09 insfar {} {} - - malformed", hex(&m), rng.range(1, 5))),
        }
    }
    v
}

pub fn run(out: &mut Out, tier: Tier, seed: u64, replay: Option<Vec<String>>) {
    out.flush_each = true; // the unchanged tokenizer never returns on '[': leave a trace
    let ops = match replay {
        Some(r) => r,
        None => gen(tier, seed),
    };
    for op in ops {
        let a: Vec<&str> = op.split(' ').collect();
        let kind = a.get(1).cloned().unwrap_or("?").to_string();
        out.begin(&op);
        let (reply, nt) = exec(out, &op);
        out.count(&format!("op.{}", kind));
        if reply == "panic" {
            out.count(&format!("panic.{}", kind));
        }
        if let Some(tags) = a.last() {
            if a.len() > 3 && !tags.chars().all(|c| c.is_ascii_hexdigit()) {
                for t in tags.split('+') {
                    out.count(&format!("tag.{}", t));
                }
            }
        }
        if a.len() > 2 {
            out.count(&format!("len.{:03}", (a[2].len() / 2).min(140) / 20 * 20));
        }
        out.end(&op, &reply, nt);
    }
}
