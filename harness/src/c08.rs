//! C08 — references keep their target cells across row/column insert and remove.
//!
//! Request lines (strings hex-encoded):
//!   c08 hist <wb|ws> <fsheet> <formula> <edits> <expected,..> <alt,..> <tags>
//!       a fresh workbook with the sheets SHEETS; the formula is put on sheet <fsheet>; the edits
//!       `kind:at:n:sheet;..` (kind = insrow|inscol|remrow|remcol) are applied one after the other at
//!       workbook level (`Spreadsheet::insert_new_row(name, ..)` ..) or sheet level
//!       (`Worksheet::insert_new_row` on the edited sheet, `.._from_other_sheet` on the others);
//!       level `lz` = workbook level on the same workbook saved and opened lazily (no sheet deserialized yet);
//!       reply = the formula text after each edit.
//!   c08 dn <wb|ws> <nsheet> <address> <edits> <expected,..> - <tags>
//!       the same for a defined name stored on sheet <nsheet> (`DefinedName::get_address`).
//! `expected` is computed by the independent shifter of `fx.rs` on the generator's AST; the `alt` column
//! (what a listed known defect would produce) is no longer used: it is always `-` (corpus lines written
//! before fix C08-insert-grid-overflow may still carry one; it is ignored).  The model ignores both.
use crate::common::*;
use crate::fx::*;

pub const SHEETS: [&str; 3] = ["Sheet1", "My Sheet", "It's"];

fn s(h: &str) -> String {
    String::from_utf8(unhex(h)).unwrap()
}

#[derive(Clone, Debug)]
pub struct EditOp {
    pub insert: bool,
    pub axis: Axis,
    pub at: u32,
    pub n: u32,
    pub sheet: usize,
}

pub fn parse_edits(t: &str) -> Vec<EditOp> {
    t.split(';')
        .filter(|x| !x.is_empty())
        .map(|e| {
            let p: Vec<&str> = e.split(':').collect();
            EditOp {
                insert: p[0].starts_with("ins"),
                axis: if p[0].ends_with("row") { Axis::Row } else { Axis::Col },
                at: p[1].parse().unwrap(),
                n: p[2].parse().unwrap(),
                sheet: p[3].parse().unwrap(),
            }
        })
        .collect()
}
fn edit_txt(e: &EditOp) -> String {
    format!(
        "{}{}:{}:{}:{}",
        if e.insert { "ins" } else { "rem" },
        if e.axis == Axis::Row { "row" } else { "col" },
        e.at,
        e.n,
        e.sheet
    )
}

fn new_book() -> umya_spreadsheet::Spreadsheet {
    let mut book = umya_spreadsheet::new_file();
    for name in &SHEETS[1..] {
        book.new_sheet(*name).unwrap();
    }
    book
}

fn apply(book: &mut umya_spreadsheet::Spreadsheet, level: &str, e: &EditOp) {
    let name = SHEETS[e.sheet];
    if level == "wb" || level == "lz" {
        match (e.insert, e.axis) {
            (true, Axis::Row) => book.insert_new_row(name, &e.at, &e.n),
            (true, Axis::Col) => book.insert_new_column_by_index(name, &e.at, &e.n),
            (false, Axis::Row) => book.remove_row(name, &e.at, &e.n),
            (false, Axis::Col) => book.remove_column_by_index(name, &e.at, &e.n),
        }
    } else {
        for i in 0..SHEETS.len() {
            let ws = book.get_sheet_mut(&i).unwrap();
            if i == e.sheet {
                match (e.insert, e.axis) {
                    (true, Axis::Row) => ws.insert_new_row(&e.at, &e.n),
                    (true, Axis::Col) => ws.insert_new_column_by_index(&e.at, &e.n),
                    (false, Axis::Row) => ws.remove_row(&e.at, &e.n),
                    (false, Axis::Col) => ws.remove_column_by_index(&e.at, &e.n),
                }
            } else {
                match (e.insert, e.axis) {
                    (true, Axis::Row) => ws.insert_new_row_from_other_sheet(name, &e.at, &e.n),
                    (true, Axis::Col) => ws.insert_new_column_by_index_from_other_sheet(name, &e.at, &e.n),
                    (false, Axis::Row) => ws.remove_row_from_other_sheet(name, &e.at, &e.n),
                    (false, Axis::Col) => ws.remove_column_by_index_from_other_sheet(name, &e.at, &e.n),
                }
            }
        }
    }
}

/// the one formula on sheet `i`, wherever its cell is now
fn formula_of(book: &umya_spreadsheet::Spreadsheet, i: usize) -> String {
    let ws = book.get_sheet(&i).unwrap();
    let mut f: Vec<String> =
        ws.get_cell_collection().iter().filter(|c| c.is_formula()).map(|c| c.get_formula().to_string()).collect();
    if f.len() == 1 {
        f.pop().unwrap()
    } else {
        format!("<{} formula cells>", f.len())
    }
}

const FCOL: u32 = 16000;
const FROW: u32 = 1_000_000;

fn situation(edits: &[EditOp], k: usize, fsheet: usize) -> String {
    let e = &edits[k];
    format!(
        "{}-{}-{}",
        if e.insert { "insert" } else { "remove" },
        if e.axis == Axis::Row { "row" } else { "col" },
        if e.sheet == fsheet { "own-sheet" } else { "other-sheet" }
    )
}

pub fn exec(out: &mut Out, line: &str) -> (String, bool) {
    let a: Vec<&str> = line.split(' ').collect();
    if a.len() < 9 {
        return ("bad-op".into(), false);
    }
    let level = a[2];
    let fsheet: usize = a[3].parse().unwrap();
    let src = s(a[4]);
    let edits = parse_edits(a[5]);
    let expected: Vec<String> = if a[6] == "-" { vec![] } else { a[6].split(',').map(s).collect() };
    let tags = a[8];
    match a[1] {
        "hist" => {
            let mut got: Vec<Result<String, ()>> = vec![];
            let mut book = new_book();
            book.get_sheet_mut(&fsheet).unwrap().get_cell_mut((FCOL, FROW)).set_formula(src.clone());
            if level == "lz" {
                // the same workbook opened lazily: no sheet is deserialized when the first edit arrives
                let bytes = crate::wb::save_bytes(&book, false).expect("save");
                book = umya_spreadsheet::reader::xlsx::read_reader(std::io::Cursor::new(bytes), false).expect("lazy read");
            }
            let mut dead = false;
            for e in &edits {
                if dead {
                    got.push(Err(()));
                    continue;
                }
                let r = guard(|| {
                    apply(&mut book, level, e);
                    if level == "lz" {
                        book.read_sheet(fsheet);
                    }
                    formula_of(&book, fsheet)
                });
                if r.is_err() {
                    dead = true; // the workbook may be half-edited: stop the history here
                }
                got.push(r);
            }
            // oracle: the first step that differs decides the class
            if !expected.is_empty() {
                let mut verdict: Option<Fail> = None;
                for k in 0..edits.len() {
                    let sit = situation(&edits, k, fsheet);
                    match &got[k] {
                        Ok(g) if *g == expected[k] => {}
                        Ok(g) => {
                            verdict = Some(
                                Fail::new("shift-mismatch")
                                    .with("situation", &sit)
                                    .with("step", k.to_string())
                                    .with("edit", edit_txt(&edits[k]))
                                    .with("before", if k == 0 { src.clone() } else { expected[k - 1].clone() })
                                    .with("got", g)
                                    .with("expected", &expected[k])
                                    .with("tags", tags)
                                    .with("op", line),
                            );
                        }
                        Err(()) => {
                            verdict = Some(
                                Fail::new("shift-panic")
                                    .with("situation", &sit)
                                    .with("step", k.to_string())
                                    .with("edit", edit_txt(&edits[k]))
                                    .with("src", &src)
                                    .with("tags", tags)
                                    .with("op", line),
                            );
                        }
                    }
                    if verdict.is_some() {
                        break;
                    }
                    out.count(&format!("step.{}", sit));
                }
                match verdict {
                    Some(f) => out.oracle_fail(f),
                    None => out.oracle_ok(),
                }
            }
            let reply: Vec<String> = got.iter().map(|g| match g { Ok(t) => hex(t), Err(()) => "panic".into() }).collect();
            let changed = got.iter().any(|g| g.as_ref().map(|t| *t != print_noop(&src, &expected)).unwrap_or(false));
            (reply.join(","), changed || !got.is_empty())
        }
        "dn" => {
            let mut got: Vec<Result<String, ()>> = vec![];
            let mut book = new_book();
            let added = guard(|| {
                book.get_sheet_mut(&fsheet).unwrap().add_defined_name("TheName", src.as_str()).is_ok()
            });
            let mut dead = added != Ok(true);
            for e in &edits {
                if dead {
                    got.push(Err(()));
                    continue;
                }
                let r = guard(|| {
                    apply(&mut book, level, e);
                    let names = book.get_sheet(&fsheet).unwrap().get_defined_names();
                    if names.len() == 1 {
                        names[0].get_address()
                    } else {
                        format!("<{} names>", names.len())
                    }
                });
                if r.is_err() {
                    dead = true;
                }
                got.push(r);
            }
            if !expected.is_empty() {
                let mut verdict: Option<Fail> = None;
                for k in 0..edits.len() {
                    let sit = format!("{}-{}", level, situation(&edits, k, fsheet));
                    let ok = match &got[k] {
                        Ok(g) => canon_addr(g) == canon_addr(&expected[k]),
                        Err(()) => false,
                    };
                    if !ok {
                        verdict = Some(
                            Fail::new(if got[k].is_err() { "defined-name-panic" } else { "defined-name-mismatch" })
                                .with("situation", &sit)
                                .with("refsheet", tags)
                                .with("step", k.to_string())
                                .with("edit", edit_txt(&edits[k]))
                                .with("before", if k == 0 { src.clone() } else { expected[k - 1].clone() })
                                .with("got", got[k].clone().unwrap_or_else(|_| "panic".into()))
                                .with("expected", &expected[k])
                                .with("op", line),
                        );
                        break;
                    }
                }
                match verdict {
                    Some(f) => out.oracle_fail(f),
                    None => out.oracle_ok(),
                }
            }
            let reply: Vec<String> = got.iter().map(|g| match g { Ok(t) => hex(t), Err(()) => "panic".into() }).collect();
            (reply.join(","), !got.is_empty())
        }
        _ => ("bad-op".into(), false),
    }
}

fn print_noop(src: &str, _e: &[String]) -> String {
    src.to_string()
}

fn c08_quals() -> Vec<Qual> {
    let q = |n: &str, quoted: bool| Qual { name: n.to_string(), quoted };
    vec![
        q("Sheet1", false),
        q("Sheet1", true),
        q("My Sheet", true),
        q("It's", true),
        q("My Sheet", true),
        q("It's", true),
        q("Other", false),
        q("[1]Sheet1", false),
        q("[Book 1.xlsx]My Sheet", true),
    ]
}

fn gen_edit(rng: &mut Rng, boundary: bool) -> EditOp {
    let insert = rng.chance(1, 2);
    let axis = if rng.chance(1, 2) { Axis::Row } else { Axis::Col };
    let at = if boundary && rng.chance(1, 3) {
        match axis {
            Axis::Row => *rng.pick(&[1u32, 2, 1048570, 1048575, 1048576]),
            Axis::Col => *rng.pick(&[1u32, 2, 16380, 16383, 16384]),
        }
    } else {
        rng.range(1, 14) as u32
    };
    EditOp { insert, axis, at, n: rng.range(1, 4) as u32, sheet: rng.below(3) as usize }
}

/// independent shifter for one edit
fn shift(e: &E, fsheet: usize, ed: &EditOp) -> E {
    if ed.insert {
        shift_insert(e, SHEETS[fsheet], SHEETS[ed.sheet], ed.axis, ed.at, ed.n)
    } else {
        shift_remove(e, SHEETS[fsheet], SHEETS[ed.sheet], ed.axis, ed.at, ed.n)
    }
}

/// `Sheet1!A1` and `'Sheet1'!A1` are the same address: compare with the qualifier unquoted
fn canon_addr(a: &str) -> String {
    // a list of areas (no sheet name of this harness contains a comma)
    if a.contains(',') {
        return a.split(',').map(canon_addr).collect::<Vec<_>>().join(",");
    }
    match a.rfind('!') {
        Some(p) => {
            let (q, r) = (&a[..p], &a[p + 1..]);
            let q = if q.len() >= 2 && q.starts_with('\'') && q.ends_with('\'') { q[1..q.len() - 1].replace("''", "'") } else { q.to_string() };
            format!("{}!{}", q, r)
        }
        None => a.to_string(),
    }
}

pub fn gen(tier: Tier, seed: u64) -> Vec<String> {
    let mut rng = Rng::new(seed);
    let mut v: Vec<String> = vec![];
    let thorough = tier == Tier::Thorough;
    let n_formulas = if thorough { 100_000 } else { 3_000 };
    let cfg = GenCfg { sheets: c08_quals(), arrays: true, structured: true, max_depth: 6 };
    let mut made = 0;
    while made < n_formulas {
        let small = !rng.chance(1, 4);
        let e0 = gen_expr(&mut rng, &cfg, 1, small);
        if print(&e0, false).chars().count() > 110 {
            continue;
        }
        let mut f = Feat::default();
        features(&e0, &mut f, 1);
        if f.refs == 0 && rng.chance(3, 4) {
            continue;
        }
        made += 1;
        let tags: Vec<&str> = f.tags.iter().cloned().collect();
        let tags = if tags.is_empty() { "-".to_string() } else { tags.join("+") };
        // informational: does the generated expression satisfy LexOk, the hypothesis of C08_insert_text / C08_remove_text?
        let lk = if crate::c09::lex_ok(&e0) { "lexok" } else { "lexok-not" };
        let tags = if tags == "-" { lk.to_string() } else { format!("{}+{}", tags, lk) };
        let src = print_src(&e0, &mut rng, 120);
        let fsheet = rng.below(3) as usize;
        let boundary = !small;
        let edits: Vec<EditOp> = (0..4).map(|_| gen_edit(&mut rng, boundary)).collect();
        let mut e = e0.clone(); // the property's semantics
        let mut exp = vec![];
        let mut pushed_off = false;
        for ed in &edits {
            // an insert at or in front of the highest referenced line that pushes it beyond the grid
            let mut f = Feat::default();
            features(&e, &mut f, 1);
            let (hi, max) = if ed.axis == Axis::Row { (f.max_row, 1_048_576u32) } else { (f.max_col, 16_384u32) };
            pushed_off |= ed.insert && f.refs > 0 && hi >= ed.at && hi as u64 + ed.n as u64 > max as u64;
            e = shift(&e, fsheet, ed);
            exp.push(hex(&print(&e, false)));
        }
        // (no `alt` column any more: no known defect rewrites a formula; a recurrence of the
        // out-of-grid shift is a plain shift-mismatch)
        let tags = if pushed_off { format!("{}+grid-limit", tags) } else { tags };
        let level = if rng.chance(1, 6) { "lz" } else if rng.chance(1, 2) { "wb" } else { "ws" };
        v.push(format!(
            "c08 hist {} {} {} {} {} {} {}",
            level,
            fsheet,
            hex(&src),
            edits.iter().map(edit_txt).collect::<Vec<_>>().join(";"),
            exp.join(","),
            "-",
            tags
        ));
    }
    // defined names: an address on one of the sheets, stored on any sheet
    let n_dn = if thorough { 20_000 } else { 800 };
    let plain = GenCfg { sheets: vec![], arrays: false, structured: false, max_depth: 1 };
    for _ in 0..n_dn {
        let mut r = gen_ref(&mut rng, &plain, true);
        // defined names hold cells and cell ranges with a sheet qualifier
        r.area = match r.area {
            Area::Cols(a, b) => Area::Range(a.clone(), Part { n: 2, abs: true }, b, Part { n: 9, abs: true }),
            Area::Rows(a, b) => Area::Range(Part { n: 2, abs: true }, a, Part { n: 5, abs: true }, b),
            x => x,
        };
        let refsheet = rng.below(3) as usize;
        r.sheet = Some(Qual { name: SHEETS[refsheet].to_string(), quoted: refsheet != 0 });
        let nsheet = if rng.chance(2, 3) { refsheet } else { rng.below(3) as usize };
        let edits: Vec<EditOp> = (0..3).map(|_| gen_edit(&mut rng, false)).collect();
        let mut e = E::Ref(r.clone());
        let mut exp = vec![];
        for ed in &edits {
            // a defined name is not "on" a sheet for the purpose of unqualified references: always qualified
            e = shift(&e, nsheet, ed);
            exp.push(hex(&print(&e, false)));
        }
        let level = if rng.chance(1, 2) { "wb" } else { "ws" };
        v.push(format!(
            "c08 dn {} {} {} {} {} - {}",
            level,
            nsheet,
            hex(&ref_txt(&r)),
            edits.iter().map(edit_txt).collect::<Vec<_>>().join(";"),
            exp.join(","),
            if refsheet == nsheet { "refs-own-sheet" } else { "refs-other-sheet" }
        ));
    }
    // defined names with TWO areas on DIFFERENT sheets (each area follows edits of the sheet it refers to, wherever it
    // stands in the list); inserts only: what a name does when one of several areas is deleted is not generated
    for _ in 0..(if thorough { 4_000 } else { 200 }) {
        let mut refs = vec![];
        let first = rng.below(3) as usize;
        for k in 0..2usize {
            let mut r = gen_ref(&mut rng, &plain, true);
            r.area = match r.area {
                Area::Cols(a, b) => Area::Range(a.clone(), Part { n: 2, abs: true }, b, Part { n: 9, abs: true }),
                Area::Rows(a, b) => Area::Range(Part { n: 2, abs: true }, a, Part { n: 5, abs: true }, b),
                x => x,
            };
            let sh = (first + k * (1 + rng.below(2) as usize)) % 3;
            r.sheet = Some(Qual { name: SHEETS[sh].to_string(), quoted: sh != 0 });
            refs.push(r);
        }
        let nsheet = rng.below(3) as usize;
        let edits: Vec<EditOp> = (0..3).map(|_| EditOp { insert: true, ..gen_edit(&mut rng, false) }).collect();
        let mut es: Vec<E> = refs.iter().map(|r| E::Ref(r.clone())).collect();
        let mut exp = vec![];
        for ed in &edits {
            es = es.iter().map(|e| shift(e, nsheet, ed)).collect();
            exp.push(hex(&es.iter().map(|e| print(e, false)).collect::<Vec<_>>().join(",")));
        }
        let level = if rng.chance(1, 2) { "wb" } else { "ws" };
        v.push(format!(
            "c08 dn {} {} {} {} {} - refs-two-sheets",
            level,
            nsheet,
            hex(&refs.iter().map(ref_txt).collect::<Vec<_>>().join(",")),
            edits.iter().map(edit_txt).collect::<Vec<_>>().join(";"),
            exp.join(",")
        ));
    }
    // malformed formulas through the edit path: correspondence only
    for m in crate::c09::MALFORMED {
        let edits: Vec<EditOp> = (0..2).map(|_| gen_edit(&mut rng, false)).collect();
        v.push(format!(
            "c08 hist ws 0 {} {} - - malformed",
            hex(m),
            edits.iter().map(|e| edit_txt(&EditOp { sheet: 0, ..e.clone() })).collect::<Vec<_>>().join(";")
        ));
    }
    v
}

pub fn run(out: &mut Out, tier: Tier, seed: u64, replay: Option<Vec<String>>) {
    out.flush_each = true;
    let ops = match replay {
        Some(r) => r,
        None => gen(tier, seed),
    };
    for op in ops {
        let a: Vec<&str> = op.split(' ').collect();
        let kind = a.get(1).cloned().unwrap_or("?").to_string();
        out.begin(&op);
        let (reply, nt) = exec(out, &op);
        out.count(&format!("op.{}", kind));
        if a.len() > 5 {
            out.count(&format!("level.{}", a[2]));
            for e in parse_edits(a[5]) {
                out.count(&format!(
                    "edit.{}{}",
                    if e.insert { "ins" } else { "rem" },
                    if e.axis == Axis::Row { "row" } else { "col" }
                ));
            }
        }
        if reply.contains("panic") {
            out.count(&format!("panic.{}", kind));
        }
        if let Some(tags) = a.last() {
            for t in tags.split('+') {
                out.count(&format!("tag.{}", t));
            }
        }
        out.end(&op, &reply, nt);
    }
}
