//! Formula AST of the C08/C09 quantifier, its printer, and the reference semantics
//! (translate / shift on insert / shift on remove) — written from the property text,
//! independent of umya-spreadsheet.  Shared by `c09.rs` and `c08.rs`.
use crate::common::*;

pub const MAX_COL: i64 = 16384;
pub const MAX_ROW: i64 = 1048576;

#[derive(Clone, Debug, PartialEq)]
pub struct Part {
    pub n: u32,
    pub abs: bool,
}
#[derive(Clone, Debug, PartialEq)]
pub enum Area {
    Cell(Part, Part),               // col,row
    Range(Part, Part, Part, Part),  // c1 r1 c2 r2
    Cols(Part, Part),
    Rows(Part, Part),
}
#[derive(Clone, Debug, PartialEq)]
pub struct Qual {
    pub name: String, // the sheet name itself (un-doubled); external prefixes like "[1]Sheet1" allowed
    pub quoted: bool,
}
#[derive(Clone, Debug, PartialEq)]
pub struct Rf {
    pub sheet: Option<Qual>,
    pub area: Area,
}
#[derive(Clone, Debug, PartialEq)]
pub enum E {
    Num(String),
    Str(String),
    Bool(bool),
    Err(&'static str),
    Name(String),
    Ref(Rf),
    Struct(String),        // structured reference, opaque
    Array(Vec<Vec<E>>),    // array constant (rows of constants)
    Pre(char, Box<E>),
    Post(Box<E>),
    Bin(&'static str, Box<E>, Box<E>),
    Isect(Box<E>, Box<E>),
    Union(Vec<E>), // printed "(a,b,..)"
    Paren(Box<E>),
    Call(String, Vec<Option<E>>), // None = empty argument
}

pub const ERRORS: [&str; 7] = ["#NULL!", "#DIV/0!", "#VALUE!", "#REF!", "#NAME?", "#NUM!", "#N/A"];

// ------------------------------------------------------------------ printing

pub fn col_name(mut n: u32) -> String {
    let mut v = vec![];
    while n > 0 {
        let d = (n - 1) % 26;
        v.push(b'A' + d as u8);
        n = (n - 1) / 26;
    }
    v.reverse();
    String::from_utf8(v).unwrap()
}
fn col_txt(p: &Part) -> String {
    format!("{}{}", if p.abs { "$" } else { "" }, col_name(p.n))
}
fn row_txt(p: &Part) -> String {
    format!("{}{}", if p.abs { "$" } else { "" }, p.n)
}
pub fn qual_txt(q: &Qual) -> String {
    if q.quoted {
        format!("'{}'!", q.name.replace('\'', "''"))
    } else {
        format!("{}!", q.name)
    }
}
pub fn area_txt(a: &Area) -> String {
    match a {
        Area::Cell(c, r) => format!("{}{}", col_txt(c), row_txt(r)),
        Area::Range(c1, r1, c2, r2) => format!("{}{}:{}{}", col_txt(c1), row_txt(r1), col_txt(c2), row_txt(r2)),
        Area::Cols(c1, c2) => format!("{}:{}", col_txt(c1), col_txt(c2)),
        Area::Rows(r1, r2) => format!("{}:{}", row_txt(r1), row_txt(r2)),
    }
}
pub fn ref_txt(r: &Rf) -> String {
    match &r.sheet {
        Some(q) => format!("{}{}", qual_txt(q), area_txt(&r.area)),
        None => area_txt(&r.area),
    }
}

/// Printed formula as pieces: text, an optional-blank position, a mandatory blank (intersection).
#[derive(Clone, Debug)]
pub enum Piece {
    T(String),
    Opt,
    Isect,
}

/// `alt` is unused since fix f50ad32 (it printed array constants the way the defect C09-array-const re-rendered
/// them: ARRAY(ARRAYROW(..))); kept so that callers need not change.
pub fn pieces(e: &E, out: &mut Vec<Piece>, alt: bool) {
    let t = |s: &str| Piece::T(s.to_string());
    match e {
        E::Num(s) | E::Name(s) | E::Struct(s) => out.push(t(s)),
        E::Str(s) => out.push(Piece::T(format!("\"{}\"", s.replace('"', "\"\"")))),
        E::Bool(b) => out.push(t(if *b { "TRUE" } else { "FALSE" })),
        E::Err(s) => out.push(t(s)),
        E::Ref(r) => out.push(Piece::T(ref_txt(r))),
        E::Array(rows) => {
            out.push(t("{"));
            out.push(Piece::Opt);
            for (i, r) in rows.iter().enumerate() {
                if i > 0 {
                    out.push(Piece::Opt);
                    out.push(t(";"));
                    out.push(Piece::Opt);
                }
                for (j, x) in r.iter().enumerate() {
                    if j > 0 {
                        out.push(Piece::Opt);
                        out.push(t(","));
                        out.push(Piece::Opt);
                    }
                    pieces(x, out, alt);
                }
            }
            out.push(Piece::Opt);
            out.push(t("}"));
        }
        E::Pre(c, x) => {
            out.push(Piece::T(c.to_string()));
            out.push(Piece::Opt);
            pieces(x, out, alt);
        }
        E::Post(x) => {
            pieces(x, out, alt);
            out.push(Piece::Opt);
            out.push(t("%"));
        }
        E::Bin(op, a, b) => {
            pieces(a, out, alt);
            out.push(Piece::Opt);
            out.push(t(op));
            out.push(Piece::Opt);
            pieces(b, out, alt);
        }
        E::Isect(a, b) => {
            pieces(a, out, alt);
            out.push(Piece::Isect);
            pieces(b, out, alt);
        }
        E::Union(xs) => {
            out.push(t("("));
            for (i, x) in xs.iter().enumerate() {
                if i > 0 {
                    out.push(Piece::Opt);
                    out.push(t(","));
                    out.push(Piece::Opt);
                }
                pieces(x, out, alt);
            }
            out.push(t(")"));
        }
        E::Paren(x) => {
            out.push(t("("));
            out.push(Piece::Opt);
            pieces(x, out, alt);
            out.push(Piece::Opt);
            out.push(t(")"));
        }
        E::Call(f, args) => {
            out.push(Piece::T(format!("{}(", f)));
            for (i, x) in args.iter().enumerate() {
                if i > 0 {
                    out.push(t(","));
                }
                if let Some(x) = x {
                    out.push(Piece::Opt);
                    pieces(x, out, alt);
                    out.push(Piece::Opt);
                }
            }
            out.push(t(")"));
        }
    }
}

/// canonical text: no optional blanks, one blank per intersection
pub fn print(e: &E, alt: bool) -> String {
    let mut p = vec![];
    pieces(e, &mut p, alt);
    let mut s = String::new();
    for x in p {
        match x {
            Piece::T(t) => s.push_str(&t),
            Piece::Opt => {}
            Piece::Isect => s.push(' '),
        }
    }
    s
}

/// source text with some optional blanks materialised (`blank_pm` per mille each) and
/// intersections written with one or two blanks
pub fn print_src(e: &E, rng: &mut Rng, blank_pm: u64) -> String {
    let mut p = vec![];
    pieces(e, &mut p, false);
    let mut s = String::new();
    for x in p {
        match x {
            Piece::T(t) => s.push_str(&t),
            Piece::Opt => {
                if rng.below(1000) < blank_pm {
                    s.push(' ');
                    if rng.chance(1, 4) {
                        s.push(' ');
                    }
                }
            }
            Piece::Isect => {
                s.push(' ');
                if rng.chance(1, 5) {
                    s.push(' ');
                }
            }
        }
    }
    s
}

// ------------------------------------------------------------------ reference semantics

fn map_refs(e: &E, f: &dyn Fn(&Rf) -> E) -> E {
    let b = |x: &E| Box::new(map_refs(x, f));
    match e {
        E::Ref(r) => f(r),
        E::Pre(c, x) => E::Pre(*c, b(x)),
        E::Post(x) => E::Post(b(x)),
        E::Bin(op, x, y) => E::Bin(op, b(x), b(y)),
        E::Isect(x, y) => E::Isect(b(x), b(y)),
        E::Union(xs) => E::Union(xs.iter().map(|x| map_refs(x, f)).collect()),
        E::Paren(x) => E::Paren(b(x)),
        E::Call(n, a) => E::Call(n.clone(), a.iter().map(|x| x.as_ref().map(|x| map_refs(x, f))).collect()),
        other => other.clone(),
    }
}

fn tr_part(p: &Part, d: i64, max: i64) -> Option<Part> {
    if p.abs {
        return Some(p.clone());
    }
    let v = p.n as i64 + d;
    if v < 1 || v > max {
        None
    } else {
        Some(Part { n: v as u32, abs: false })
    }
}

/// C09: add dc/dr to the non-$ parts; a reference leaving the grid becomes #REF!
pub fn translate(e: &E, dc: i64, dr: i64) -> E {
    map_refs(e, &|r: &Rf| {
        let c = |p: &Part| tr_part(p, dc, MAX_COL);
        let w = |p: &Part| tr_part(p, dr, MAX_ROW);
        let area = match &r.area {
            Area::Cell(a, b) => c(a).zip(w(b)).map(|(a, b)| Area::Cell(a, b)),
            Area::Range(a, b, x, y) => {
                c(a).zip(w(b)).zip(c(x).zip(w(y))).map(|((a, b), (x, y))| Area::Range(a, b, x, y))
            }
            Area::Cols(a, b) => c(a).zip(c(b)).map(|(a, b)| Area::Cols(a, b)),
            Area::Rows(a, b) => w(a).zip(w(b)).map(|(a, b)| Area::Rows(a, b)),
        };
        match area {
            Some(area) => E::Ref(Rf { sheet: r.sheet.clone(), area }),
            None => E::Err("#REF!"),
        }
    })
}

#[derive(Clone, Copy, Debug, PartialEq)]
pub enum Axis {
    Row,
    Col,
}

fn concerns(r: &Rf, self_sheet: &str, edited: &str) -> bool {
    match &r.sheet {
        Some(q) => q.name == edited,
        None => self_sheet == edited,
    }
}

fn ins_num(p: &Part, at: u32, n: u32) -> i64 {
    if p.n >= at {
        p.n as i64 + n as i64
    } else {
        p.n as i64
    }
}
/// a single coordinate after the insert: None = pushed off the grid (the cell no longer exists)
fn ins_point(p: &Part, at: u32, n: u32, max: i64) -> Option<Part> {
    let v = ins_num(p, at, n);
    if v > max {
        None
    } else {
        Some(Part { n: v as u32, abs: p.abs })
    }
}
/// an interval after the insert: the part pushed off the grid is cut off; None = nothing left
fn ins_interval(a: &Part, b: &Part, at: u32, n: u32, max: i64) -> Option<(Part, Part)> {
    let x = ins_num(a, at, n);
    let y = ins_num(b, at, n);
    if x > max {
        None
    } else {
        Some((Part { n: x as u32, abs: a.abs }, Part { n: y.min(max) as u32, abs: b.abs }))
    }
}

/// a single coordinate on the edited axis after removing `[at, at+n)`: None = deleted
fn rem_point(p: &Part, at: u32, n: u32) -> Option<Part> {
    if p.n >= at && (p.n as u64) < at as u64 + n as u64 {
        None
    } else if p.n as u64 >= at as u64 + n as u64 {
        Some(Part { n: p.n - n, abs: p.abs })
    } else {
        Some(p.clone())
    }
}

/// an interval (a ≤ b) on the edited axis after removing `[at, at+n)`: None = wholly deleted
fn rem_interval(a: &Part, b: &Part, at: u32, n: u32) -> Option<(Part, Part)> {
    match (rem_point(a, at, n), rem_point(b, at, n)) {
        (None, None) => None,
        (Some(x), Some(y)) => Some((x, y)),
        (None, Some(y)) => Some((Part { n: at, abs: a.abs }, y)),
        (Some(x), None) => Some((x, Part { n: at - 1, abs: b.abs })),
    }
}

/// C08: references concerning `edited` follow their cells when `n` rows/columns are inserted at `at`.
/// A cell (or the start of a range) pushed beyond XFD / 1048576 no longer exists: `#REF!`; a range that
/// still starts on the grid is cut off at the edge.
pub fn shift_insert(e: &E, self_sheet: &str, edited: &str, axis: Axis, at: u32, n: u32) -> E {
    map_refs(e, &|r: &Rf| {
        if !concerns(r, self_sheet, edited) || n == 0 {
            return E::Ref(r.clone());
        }
        let (mc, mr) = (MAX_COL, MAX_ROW);
        let area = match (&r.area, axis) {
            (Area::Cell(a, b), Axis::Col) => ins_point(a, at, n, mc).map(|a| Area::Cell(a, b.clone())),
            (Area::Cell(a, b), Axis::Row) => ins_point(b, at, n, mr).map(|b| Area::Cell(a.clone(), b)),
            (Area::Range(a, b, x, y), Axis::Col) => {
                ins_interval(a, x, at, n, mc).map(|(a, x)| Area::Range(a, b.clone(), x, y.clone()))
            }
            (Area::Range(a, b, x, y), Axis::Row) => {
                ins_interval(b, y, at, n, mr).map(|(b, y)| Area::Range(a.clone(), b, x.clone(), y))
            }
            (Area::Cols(a, b), Axis::Col) => ins_interval(a, b, at, n, mc).map(|(a, b)| Area::Cols(a, b)),
            (Area::Rows(a, b), Axis::Row) => ins_interval(a, b, at, n, mr).map(|(a, b)| Area::Rows(a, b)),
            (other, _) => Some(other.clone()),
        };
        match area {
            Some(area) => E::Ref(Rf { sheet: r.sheet.clone(), area }),
            None => E::Err("#REF!"),
        }
    })
}

/// C08: after removing `[at, at+n)`: surviving targets keep their cells, partly deleted ranges are
/// clamped, a wholly deleted target becomes #REF!
pub fn shift_remove(e: &E, self_sheet: &str, edited: &str, axis: Axis, at: u32, n: u32) -> E {
    map_refs(e, &|r: &Rf| {
        if !concerns(r, self_sheet, edited) || n == 0 {
            return E::Ref(r.clone());
        }
        let area = match (&r.area, axis) {
            (Area::Cell(a, b), Axis::Col) => rem_point(a, at, n).map(|a| Area::Cell(a, b.clone())),
            (Area::Cell(a, b), Axis::Row) => rem_point(b, at, n).map(|b| Area::Cell(a.clone(), b)),
            (Area::Range(a, b, x, y), Axis::Col) => {
                rem_interval(a, x, at, n).map(|(a, x)| Area::Range(a, b.clone(), x, y.clone()))
            }
            (Area::Range(a, b, x, y), Axis::Row) => {
                rem_interval(b, y, at, n).map(|(b, y)| Area::Range(a.clone(), b, x.clone(), y))
            }
            (Area::Cols(a, b), Axis::Col) => rem_interval(a, b, at, n).map(|(a, b)| Area::Cols(a, b)),
            (Area::Rows(a, b), Axis::Row) => rem_interval(a, b, at, n).map(|(a, b)| Area::Rows(a, b)),
            (other, _) => Some(other.clone()),
        };
        match area {
            Some(area) => E::Ref(Rf { sheet: r.sheet.clone(), area }),
            None => E::Err("#REF!"),
        }
    })
}

// ------------------------------------------------------------------ features (for distribution / diagnosis)

#[derive(Default, Clone, Debug)]
pub struct Feat {
    pub depth: u32,
    pub nodes: u32,
    pub refs: u32,
    pub abs_parts: u32,
    pub rel_parts: u32,
    pub max_row: u32,
    pub max_col: u32,
    pub tags: std::collections::BTreeSet<&'static str>,
}

pub fn features(e: &E, f: &mut Feat, d: u32) {
    f.depth = f.depth.max(d);
    f.nodes += 1;
    match e {
        E::Num(s) => {
            f.tags.insert("num");
            if s.contains('E') {
                f.tags.insert("sci");
            }
        }
        E::Str(s) => {
            f.tags.insert("str");
            if s.contains('"') {
                f.tags.insert("str-quote");
            }
        }
        E::Bool(_) => {
            f.tags.insert("bool");
        }
        E::Err(_) => {
            f.tags.insert("err");
        }
        E::Name(_) => {
            f.tags.insert("name");
        }
        E::Struct(_) => {
            f.tags.insert("structured");
        }
        E::Array(_) => {
            f.tags.insert("array-const");
        }
        E::Ref(r) => {
            f.refs += 1;
            if let Some(q) = &r.sheet {
                f.tags.insert(if q.quoted { "sheet-quoted" } else { "sheet" });
                if q.name.contains('[') {
                    f.tags.insert("external");
                }
                if q.name.contains('\'') {
                    f.tags.insert("sheet-apos");
                }
            }
            let mut cols: Vec<&Part> = vec![];
            let mut rows: Vec<&Part> = vec![];
            match &r.area {
                Area::Cell(c, w) => {
                    f.tags.insert("cell");
                    cols.push(c);
                    rows.push(w);
                }
                Area::Range(a, b, c, d) => {
                    f.tags.insert("range");
                    cols.push(a);
                    cols.push(c);
                    rows.push(b);
                    rows.push(d);
                }
                Area::Cols(a, b) => {
                    f.tags.insert("whole-col");
                    cols.push(a);
                    cols.push(b);
                }
                Area::Rows(a, b) => {
                    f.tags.insert("whole-row");
                    rows.push(a);
                    rows.push(b);
                }
            }
            for p in cols.iter().chain(rows.iter()) {
                if p.abs {
                    f.abs_parts += 1;
                } else {
                    f.rel_parts += 1;
                }
            }
            for p in cols {
                f.max_col = f.max_col.max(p.n);
            }
            for p in rows {
                f.max_row = f.max_row.max(p.n);
            }
        }
        E::Pre(c, x) => {
            f.tags.insert(if *c == '+' { "unary-plus" } else { "unary-minus" });
            features(x, f, d + 1);
        }
        E::Post(x) => {
            f.tags.insert("percent");
            features(x, f, d + 1);
        }
        E::Bin(op, a, b) => {
            f.tags.insert(if op.len() == 2 { "cmp2" } else { "binop" });
            features(a, f, d + 1);
            features(b, f, d + 1);
        }
        E::Isect(a, b) => {
            f.tags.insert("intersection");
            features(a, f, d + 1);
            features(b, f, d + 1);
        }
        E::Union(xs) => {
            f.tags.insert("union");
            for x in xs {
                features(x, f, d + 1);
            }
        }
        E::Paren(x) => {
            f.tags.insert("paren");
            features(x, f, d + 1);
        }
        E::Call(_, a) => {
            f.tags.insert("call");
            for x in a {
                match x {
                    Some(x) => features(x, f, d + 1),
                    None => {
                        f.tags.insert("empty-arg");
                    }
                }
            }
        }
    }
}

// ------------------------------------------------------------------ generation

pub struct GenCfg {
    pub sheets: Vec<Qual>, // qualifiers to choose from (besides none)
    pub arrays: bool,
    pub structured: bool,
    pub max_depth: u32,
}

const BCOLS: [u32; 10] = [1, 2, 3, 26, 27, 702, 703, 16383, 16384, 5];
const BROWS: [u32; 10] = [1, 2, 3, 9, 10, 99, 100, 1048575, 1048576, 7];

pub fn gen_part(rng: &mut Rng, is_col: bool, small: bool) -> Part {
    let n = if small {
        rng.range(1, 12) as u32
    } else if rng.chance(1, 6) {
        if is_col { *rng.pick(&BCOLS) } else { *rng.pick(&BROWS) }
    } else if is_col {
        rng.range(1, 40) as u32
    } else {
        rng.range(1, 60) as u32
    };
    Part { n, abs: rng.chance(1, 3) }
}

pub fn gen_ref(rng: &mut Rng, cfg: &GenCfg, small: bool) -> Rf {
    let sheet = if !cfg.sheets.is_empty() && rng.chance(2, 5) { Some(rng.pick(&cfg.sheets).clone()) } else { None };
    let ord = |a: Part, b: Part| if a.n <= b.n { (a, b) } else { (b, a) };
    let area = match rng.below(10) {
        0..=4 => Area::Cell(gen_part(rng, true, small), gen_part(rng, false, small)),
        5..=7 => {
            let (c1, c2) = ord(gen_part(rng, true, small), gen_part(rng, true, small));
            let (r1, r2) = ord(gen_part(rng, false, small), gen_part(rng, false, small));
            Area::Range(c1, r1, c2, r2)
        }
        8 => {
            let (c1, c2) = ord(gen_part(rng, true, small), gen_part(rng, true, small));
            Area::Cols(c1, c2)
        }
        _ => {
            let (r1, r2) = ord(gen_part(rng, false, small), gen_part(rng, false, small));
            Area::Rows(r1, r2)
        }
    };
    Rf { sheet, area }
}

const STR_ALPHA: [&str; 26] = [
    "a", "B", "z", "0", " ", "  ", "\"", "\"\"", "'", ",", "(", ")", "{", "}", "[", "]", "#", "!", "$A$1", "é", "日", "😀", "&", "<",
    "=", ";",
];
const NAMES: [&str; 14] = [
    "MyName", "Tax_Rate", "x", "Q1Sales", "FY2020Total", "_a1", "A1B", "LOG10x", "rate.2", "Größe", "数量", "TRUEx", "ABCD1", "R1C1x",
];
const FUNCS: [&str; 10] = ["SUM", "IF", "MAX", "INDEX", "_xlfn.XLOOKUP", "ROUND", "NOW", "AVERAGE", "Sum", "VLOOKUP"];
const NUMS: [&str; 14] = ["1", "0", "10", "3.14", "0.5", "42", "1E5", "1E+5", "2.5E-3", "100", "007", "1.", ".5", "123456789"];
const STRUCTS: [&str; 6] = ["Table1[Col]", "Table1[#All]", "Table1[@Col]", "Table1[My Col]", "Tbl[[#This Row]]", "T[a'b\"c]"];
const BINOPS: [&str; 12] = ["+", "-", "*", "/", "^", "&", "=", "<", ">", "<=", ">=", "<>"];

fn gen_const(rng: &mut Rng) -> E {
    match rng.below(6) {
        0 | 1 => E::Num(rng.pick(&NUMS[..6]).to_string()),
        5 => E::Pre('-', Box::new(E::Num(rng.pick(&NUMS[..6]).to_string()))),
        2 => E::Str(gen_str(rng)),
        3 => E::Bool(rng.chance(1, 2)),
        _ => E::Err(*rng.pick(&ERRORS)),
    }
}
fn gen_str(rng: &mut Rng) -> String {
    let n = rng.below(5);
    (0..n).map(|_| *rng.pick(&STR_ALPHA)).collect()
}

pub fn gen_leaf(rng: &mut Rng, cfg: &GenCfg, small: bool) -> E {
    match rng.below(20) {
        0..=9 => E::Ref(gen_ref(rng, cfg, small)),
        10 | 11 => E::Num(rng.pick(&NUMS).to_string()),
        12 | 13 => E::Str(gen_str(rng)),
        14 => E::Bool(rng.chance(1, 2)),
        15 => E::Err(*rng.pick(&ERRORS)),
        16 | 17 => E::Name(rng.pick(&NAMES).to_string()),
        18 if cfg.structured => E::Struct(rng.pick(&STRUCTS).to_string()),
        19 if cfg.arrays => {
            let rows = rng.range(1, 3);
            let cols = rng.range(1, 3);
            E::Array((0..rows).map(|_| (0..cols).map(|_| gen_const(rng)).collect()).collect())
        }
        _ => E::Ref(gen_ref(rng, cfg, small)),
    }
}

/// range-valued expression (operand of union / intersection)
fn gen_rangeish(rng: &mut Rng, cfg: &GenCfg, small: bool) -> E {
    if rng.chance(1, 6) {
        E::Name(rng.pick(&NAMES).to_string())
    } else {
        E::Ref(gen_ref(rng, cfg, small))
    }
}

pub fn gen_expr(rng: &mut Rng, cfg: &GenCfg, depth: u32, small: bool) -> E {
    if depth >= cfg.max_depth || rng.chance(1, 4) {
        return gen_leaf(rng, cfg, small);
    }
    let sub = |rng: &mut Rng| Box::new(gen_expr(rng, cfg, depth + 1, small));
    match rng.below(16) {
        0..=4 => {
            let op = *rng.pick(&BINOPS);
            let a = sub(rng);
            let b = sub(rng);
            E::Bin(op, a, b)
        }
        5 => E::Pre('-', sub(rng)),
        6 => E::Pre('+', sub(rng)),
        7 => {
            // postfix % on something that ends like an operand
            let x = gen_expr(rng, cfg, depth + 1, small);
            match x {
                E::Pre(..) | E::Bin(..) | E::Isect(..) => E::Post(Box::new(E::Paren(Box::new(x)))),
                x => E::Post(Box::new(x)),
            }
        }
        8 => E::Paren(sub(rng)),
        9 => {
            let n = rng.range(2, 3);
            E::Union((0..n).map(|_| gen_rangeish(rng, cfg, small)).collect())
        }
        10 => E::Isect(Box::new(gen_rangeish(rng, cfg, small)), Box::new(gen_rangeish(rng, cfg, small))),
        _ => {
            let f = rng.pick(&FUNCS).to_string();
            let n = if f == "NOW" { 0 } else { rng.range(1, 3) };
            let args = (0..n)
                .map(|_| if rng.chance(1, 12) { None } else { Some(gen_expr(rng, cfg, depth + 1, small)) })
                .collect();
            E::Call(f, args)
        }
    }
}

pub fn c09_sheets() -> Vec<Qual> {
    let q = |n: &str, quoted: bool| Qual { name: n.to_string(), quoted };
    vec![
        q("Sheet1", false),
        q("Sheet2", false),
        q("Data_1", false),
        q("My Sheet", true),
        q("It's", true),
        q("a!b", true),
        q("2024", true),
        q("A1", true),
        q("x'", true),
        q("Sheet1", true),
        q("日本 語", true),
        q("[1]Sheet1", false),
        q("[Book 1.xlsx]Sheet1", true),
        q("a\"b", true),
        q("(x),y", true),
    ]
}
