//! C05 — styles and dimensions survive save/reload; interning never merges styles.
//!
//! A case is one workbook: `c05 reset`, then `cell` / `row` / `col` assignments carrying a style
//! in the wire encoding below, then `c05 save`.  `save` writes the workbook to memory, reads
//! `xl/styles.xml` and `xl/worksheets/sheet1.xml` back out of the zip with an independent
//! quick-xml scan (xf index of every cell / row / column run, component ids of every xf, table
//! sizes, custom number formats) and answers with that dump — the Lean model predicts the same
//! dump from the assignments alone.  Independently of the model the property's own oracle runs on
//! the implementation: reload with `read_reader` and compare every cell's / row's / column's
//! effective formatting with what was set, check that two different formattings never come back
//! equal, that heights / widths / hidden flags survive, and that saving again (same book, and
//! save -> reload -> save) does not grow any style table.
//!
//! Style wire encoding (no blanks; strings hex):
//!   sty  := "-" | comp ("/" comp)*
//!   comp := "F" flds   font: n=<hex name> z=<size> y=<family> b i s=<0|1> u=<underline> c=<color>
//!                            h=<charset> m=<scheme> v=<vertAlign>      (only listed fields are set)
//!         | "P" flds   pattern fill: t=<pattern> f=<color> b=<color>
//!         | "G" <deg> ("," <pos>~<color>)*     gradient fill (opaque token in the model)
//!         | "E"        Fill::default() (neither pattern nor gradient)
//!         | "B" flds   borders: l r t b d v h=<style|->~<color>, dd du=<0|1>
//!         | "A" flds   alignment: h v=<enum> w=<0|1> r=<rotation>
//!         | "Ni"<id> | "Nc"<hex code>          number format by built-in id / by code
//!         | "L" flds   protection: k=<locked 0|1> h=<hidden 0|1>
//!         | "X"<n>     format id (xfId)
//!   color := <kind>~<value>~<tint>   kind: a (argb, hex) | i (indexed) | t (theme) | - ; tint number | -
use crate::common::*;
use std::collections::{BTreeMap, BTreeSet};
use std::io::{Cursor, Read};
use std::str::FromStr;
use umya_spreadsheet::structs::*;

// ------------------------------------------------------------------------------------------------
// building real styles from the wire encoding

fn hs(s: &str) -> String {
    String::from_utf8(unhex(s)).unwrap()
}

fn parse_color(parts: &[&str]) -> Color {
    // parts = [kind, value, tint]
    let mut c = Color::default();
    match parts[0] {
        "a" => {
            c.set_argb(hs(parts[1]));
        }
        "i" => {
            c.set_indexed(parts[1].parse().unwrap());
        }
        "t" => {
            c.set_theme_index(parts[1].parse().unwrap());
        }
        _ => {}
    }
    if parts[2] != "-" {
        c.set_tint(parts[2].parse().unwrap());
    }
    c
}

fn flds(s: &str) -> Vec<(&str, &str)> {
    if s.is_empty() {
        return vec![];
    }
    s.split(',')
        .map(|kv| {
            let i = kv.find('=').unwrap();
            (&kv[..i], &kv[i + 1..])
        })
        .collect()
}

fn b01(v: &str) -> bool {
    v == "1"
}

/// Some styles get their number format not as a fresh object but as one READ FROM ANOTHER WORKBOOK (a scratch workbook
/// with k other custom formats before it, saved and reloaded), so that it carries a real numFmt id (176 + k) that may
/// already belong to a different code in the workbook it is then given to.  Which styles: decided by a hash of the
/// format code, so that every use of one code yields the same object (the whole-style look-up of set_style compares
/// objects).  The model is oblivious: it is the same style.
pub fn build_style(enc: &str) -> Style {
    let mut s = build_style_fresh(enc);
    let nf = match s.get_numbering_format() {
        Some(nf) if *nf.get_number_format_id() >= 164 => nf.clone(),
        _ => return s,
    };
    // keyed on the format CODE (two encodings of one style must yield equal objects)
    let h = nf.get_format_code().bytes().fold(0xcbf29ce484222325u64, |h, b| (h ^ b as u64).wrapping_mul(0x100000001b3));
    if h % 3 != 0 {
        return s;
    }
    thread_local! {
        static VIA: std::cell::RefCell<BTreeMap<String, NumberingFormat>> = std::cell::RefCell::new(BTreeMap::new());
    }
    let key = format!("{}|{}", (h / 3) % 4, nf.get_format_code());
    let cached = VIA.with(|m| m.borrow().get(&key).cloned());
    let nf2 = match cached {
        Some(x) => x,
        None => {
            let mut scratch = umya_spreadsheet::new_file();
            for i in 0..((h / 3) % 4) as u32 {
                let mut d = Style::default();
                d.get_numbering_format_mut().set_format_code(format!("0.0\"v{}\"", i));
                scratch.get_sheet_mut(&0).unwrap().set_style((1u32, 1 + i), d);
            }
            let mut t = Style::default();
            t.set_numbering_format(nf.clone());
            scratch.get_sheet_mut(&0).unwrap().set_style((2u32, 1u32), t);
            let bytes = save(&scratch).expect("scratch save");
            let back = umya_spreadsheet::reader::xlsx::read_reader(Cursor::new(bytes), true).expect("scratch reload");
            let x = back.get_sheet(&0).unwrap().get_style((2u32, 1u32)).get_numbering_format().cloned().unwrap_or(nf);
            VIA.with(|m| m.borrow_mut().insert(key, x.clone()));
            x
        }
    };
    VIA_COUNT.with(|c| c.set(c.get() + 1));
    s.set_numbering_format(nf2);
    s
}

thread_local! {
    pub static VIA_COUNT: std::cell::Cell<u64> = std::cell::Cell::new(0);
}

fn build_style_fresh(enc: &str) -> Style {
    let mut st = Style::default();
    if enc == "-" {
        return st;
    }
    for comp in enc.split('/') {
        let (tag, rest) = comp.split_at(1);
        match tag {
            "F" => {
                let mut f = Font::default();
                for (k, v) in flds(rest) {
                    match k {
                        "n" => {
                            f.get_font_name_mut().set_val(hs(v));
                        }
                        "z" => {
                            f.get_font_size_mut().set_val(v.parse::<f64>().unwrap());
                        }
                        "y" => {
                            f.get_font_family_numbering_mut().set_val(v.parse::<i32>().unwrap());
                        }
                        "b" => {
                            f.get_font_bold_mut().set_val(b01(v));
                        }
                        "i" => {
                            f.get_font_italic_mut().set_val(b01(v));
                        }
                        "u" => {
                            f.get_font_underline_mut().set_val(UnderlineValues::from_str(v).unwrap());
                        }
                        "s" => {
                            f.get_font_strike_mut().set_val(b01(v));
                        }
                        "c" => {
                            let p: Vec<&str> = v.split('~').collect();
                            f.set_color(parse_color(&p));
                        }
                        "h" => {
                            f.get_font_char_set_mut().set_val(v.parse::<i32>().unwrap());
                        }
                        "m" => {
                            f.get_font_scheme_mut().set_val(FontSchemeValues::from_str(v).unwrap());
                        }
                        "v" => {
                            f.get_vertical_text_alignment_mut().set_val(VerticalAlignmentRunValues::from_str(v).unwrap());
                        }
                        _ => panic!("bad font field"),
                    }
                }
                st.set_font(f);
            }
            "P" => {
                let mut p = PatternFill::default();
                for (k, v) in flds(rest) {
                    let c: Vec<&str> = v.split('~').collect();
                    match k {
                        "t" => {
                            p.set_pattern_type(PatternValues::from_str(v).unwrap());
                        }
                        "f" => {
                            *p.get_foreground_color_mut() = parse_color(&c);
                        }
                        "b" => {
                            *p.get_background_color_mut() = parse_color(&c);
                        }
                        _ => panic!("bad fill field"),
                    }
                }
                let mut f = Fill::default();
                f.set_pattern_fill(p);
                st.set_fill(f);
            }
            "G" => {
                let mut g = GradientFill::default();
                let mut it = rest.split(',');
                g.set_degree(it.next().unwrap().parse::<f64>().unwrap());
                for stop in it {
                    let p: Vec<&str> = stop.split('~').collect();
                    let mut s = GradientStop::default();
                    s.set_position(p[0].parse::<f64>().unwrap());
                    s.set_color(parse_color(&p[1..]));
                    g.set_gradient_stop(s);
                }
                let mut f = Fill::default();
                f.set_gradient_fill(g);
                st.set_fill(f);
            }
            "E" => {
                st.set_fill(Fill::default());
            }
            "B" => {
                let b = st.get_borders_mut();
                for (k, v) in flds(rest) {
                    if k == "dd" {
                        b.set_diagonal_down(b01(v));
                        continue;
                    }
                    if k == "du" {
                        b.set_diagonal_up(b01(v));
                        continue;
                    }
                    let p: Vec<&str> = v.split('~').collect();
                    let e: &mut Border = match k {
                        "l" => b.get_left_border_mut(),
                        "r" => b.get_right_border_mut(),
                        "t" => b.get_top_border_mut(),
                        "b" => b.get_bottom_border_mut(),
                        "d" => b.get_diagonal_border_mut(),
                        "v" => b.get_vertical_border_mut(),
                        "h" => b.get_horizontal_border_mut(),
                        _ => panic!("bad border field"),
                    };
                    if p[0] != "-" {
                        e.set_style(BorderStyleValues::from_str(p[0]).unwrap());
                    }
                    e.set_color(parse_color(&p[1..]));
                }
            }
            "A" => {
                let mut a = Alignment::default();
                for (k, v) in flds(rest) {
                    match k {
                        "h" => a.set_horizontal(HorizontalAlignmentValues::from_str(v).unwrap()),
                        "v" => a.set_vertical(VerticalAlignmentValues::from_str(v).unwrap()),
                        "w" => a.set_wrap_text(b01(v)),
                        "r" => a.set_text_rotation(v.parse().unwrap()),
                        _ => panic!("bad alignment field"),
                    }
                }
                st.set_alignment(a);
            }
            "N" => {
                let mut n = NumberingFormat::default();
                let (k, v) = rest.split_at(1);
                if k == "i" {
                    n.set_number_format_id(v.parse().unwrap());
                } else {
                    n.set_format_code(hs(v));
                }
                st.set_numbering_format(n);
            }
            "L" => {
                let mut p = Protection::default();
                for (k, v) in flds(rest) {
                    match k {
                        "k" => p.set_locked(b01(v)),
                        "h" => p.set_hidden(b01(v)),
                        _ => panic!("bad protection field"),
                    }
                }
                st.set_protection(p);
            }
            "X" => {
                st.set_format_id(rest.parse().unwrap());
            }
            _ => panic!("bad component"),
        }
    }
    st
}

// ------------------------------------------------------------------------------------------------
// effective formatting as seen through the public getters (absent components = the defaults the
// reader materialises)

fn color_desc(c: &Color, theme: &umya_spreadsheet::structs::drawing::Theme) -> String {
    format!("{}~{}~{}~{}~{}", c.get_argb(), c.get_indexed(), c.get_theme_index(), c.get_argb_with_theme(theme), c.get_tint())
}
fn ocolor_desc(c: Option<&Color>, theme: &umya_spreadsheet::structs::drawing::Theme) -> String {
    match c {
        Some(c) => color_desc(c, theme),
        None => color_desc(&Color::default(), theme),
    }
}

/// descriptor = list of (attribute name, value text)
pub fn describe(st: &Style, theme: &umya_spreadsheet::structs::drawing::Theme) -> Vec<(String, String)> {
    let def = Style::get_default_value();
    let mut d: Vec<(String, String)> = vec![];
    let mut put = |k: &str, v: String| d.push((k.to_string(), v));
    let f = st.get_font().unwrap_or_else(|| def.get_font().unwrap());
    put("font.name", f.get_name().to_string());
    put("font.size", f.get_size().to_string());
    put("font.family", f.get_family().to_string());
    put("font.bold", f.get_bold().to_string());
    put("font.italic", f.get_italic().to_string());
    put("font.underline", f.get_font_underline().get_val().get_value_string().to_string());
    put("font.strike", f.get_strikethrough().to_string());
    put("font.color", color_desc(f.get_color(), theme));
    put("font.charset", f.get_charset().to_string());
    put("font.scheme", f.get_scheme().to_string());
    put("font.vertAlign", f.get_vertical_text_alignment().get_val().get_value_string().to_string());
    let fi = st.get_fill().unwrap_or_else(|| def.get_fill().unwrap());
    match fi.get_pattern_fill() {
        Some(p) => {
            put("fill.pattern", p.get_pattern_type().get_value_string().to_string());
            put("fill.fg", ocolor_desc(p.get_foreground_color(), theme));
            put("fill.bg", ocolor_desc(p.get_background_color(), theme));
        }
        None => {
            put("fill.pattern", "none".to_string());
            put("fill.fg", ocolor_desc(None, theme));
            put("fill.bg", ocolor_desc(None, theme));
        }
    }
    match fi.get_gradient_fill() {
        Some(g) => {
            let stops: Vec<String> =
                g.get_gradient_stop().iter().map(|s| format!("{}@{}", s.get_position(), color_desc(s.get_color(), theme))).collect();
            put("fill.gradient", format!("{}:{}", g.get_degree(), stops.join(";")));
        }
        None => put("fill.gradient", "-".to_string()),
    }
    let b = st.get_borders().unwrap_or_else(|| def.get_borders().unwrap());
    for (n, e) in [
        ("left", b.get_left_border()),
        ("right", b.get_right_border()),
        ("top", b.get_top_border()),
        ("bottom", b.get_bottom_border()),
        ("diagonal", b.get_diagonal_border()),
        ("vertical", b.get_vertical_border()),
        ("horizontal", b.get_horizontal_border()),
    ] {
        put(&format!("border.{}.style", n), e.get_border_style().to_string());
        put(&format!("border.{}.color", n), color_desc(e.get_color(), theme));
    }
    put("border.diagonalDown", b.get_diagonal_down().to_string());
    put("border.diagonalUp", b.get_diagonal_up().to_string());
    let da = Alignment::default();
    let a = st.get_alignment().unwrap_or(&da);
    put("align.horizontal", a.get_horizontal().get_value_string().to_string());
    put("align.vertical", a.get_vertical().get_value_string().to_string());
    put("align.wrap", a.get_wrap_text().to_string());
    put("align.rotation", a.get_text_rotation().to_string());
    put("numfmt.code", st.get_numbering_format().map(|n| n.get_format_code().to_string()).unwrap_or_else(|| "General".to_string()));
    let mut p = st.get_protection().cloned().unwrap_or_default();
    put("prot.locked", p.get_locked().to_string());
    put("prot.hidden", p.get_hidden().to_string());
    d
}

fn desc_text(d: &[(String, String)]) -> String {
    d.iter().map(|(k, v)| format!("{}={}", k, v)).collect::<Vec<_>>().join("|")
}

// ------------------------------------------------------------------------------------------------
// independent scan of the written package

#[derive(Default, Debug, Clone, PartialEq)]
pub struct Scan {
    pub fonts: usize,
    pub fills: usize,
    pub borders: usize,
    pub numfmts: Vec<(u32, String)>,
    pub xfs: Vec<String>,
    pub cols: Vec<String>,
    pub rows: Vec<String>,
    pub cells: Vec<String>,
}
impl Scan {
    pub fn counts(&self) -> String {
        format!("{},{},{},{},{}", self.fonts, self.fills, self.borders, self.numfmts.len(), self.xfs.len())
    }
    pub fn text(&self, canon: &BTreeMap<u32, u32>) -> String {
        let mut nf = self.numfmts.clone();
        nf.sort();
        let _ = canon;
        format!(
            "n={};nf={};xf={};cols={};rows={};cells={}",
            self.counts(),
            nf.iter().map(|(i, c)| format!("{}:{}", i, hex(c))).collect::<Vec<_>>().join("|"),
            self.xfs.join("|"),
            self.cols.join("|"),
            self.rows.join("|"),
            self.cells.join("|")
        )
    }
}

fn attr(e: &quick_xml::events::BytesStart, name: &str) -> Option<String> {
    for a in e.attributes().with_checks(false).flatten() {
        if a.key.as_ref() == name.as_bytes() {
            return Some(a.unescape_value().map(|c| c.to_string()).unwrap_or_else(|_| String::from_utf8_lossy(&a.value).to_string()));
        }
    }
    None
}
fn attr_or(e: &quick_xml::events::BytesStart, name: &str, d: &str) -> String {
    attr(e, name).unwrap_or_else(|| d.to_string())
}

fn zip_text(buf: &[u8], name: &str) -> Result<String, String> {
    let mut zip = zip::ZipArchive::new(Cursor::new(buf)).map_err(|e| e.to_string())?;
    let mut f = zip.by_name(name).map_err(|e| e.to_string())?;
    let mut xml = String::new();
    f.read_to_string(&mut xml).map_err(|e| e.to_string())?;
    Ok(xml)
}

/// built-in number-format ids with the same code are interchangeable: canonical = the smallest
pub fn builtin_canon() -> (BTreeMap<u32, String>, BTreeMap<u32, u32>) {
    let mut codes: BTreeMap<u32, String> = BTreeMap::new();
    for id in 0..176u32 {
        if let Ok(c) = guard(|| {
            let mut n = NumberingFormat::default();
            n.set_number_format_id(id);
            n.get_format_code().to_string()
        }) {
            codes.insert(id, c);
        }
    }
    let mut canon = BTreeMap::new();
    for (id, c) in &codes {
        let m = codes.iter().filter(|(_, c2)| *c2 == c).map(|(i, _)| *i).min().unwrap();
        canon.insert(*id, m);
    }
    (codes, canon)
}

pub fn scan(buf: &[u8], canon: &BTreeMap<u32, u32>) -> Result<Scan, String> {
    use quick_xml::events::Event;
    let mut sc = Scan::default();
    let styles = zip_text(buf, "xl/styles.xml")?;
    let mut rd = quick_xml::Reader::from_str(&styles);
    let mut path: Vec<String> = vec![];
    let mut cur_xf: Option<(String, String, String)> = None; // head, alignment, protection
    let xf_head = |e: &quick_xml::events::BytesStart| -> String {
        let nid: u32 = attr_or(e, "numFmtId", "0").parse().unwrap_or(0);
        let nid = *canon.get(&nid).unwrap_or(&nid);
        format!(
            "{}.{}.{}.{}.{}{}{}{}{}{}",
            nid,
            attr_or(e, "fontId", "0"),
            attr_or(e, "fillId", "0"),
            attr_or(e, "borderId", "0"),
            attr_or(e, "applyFont", "-"),
            attr_or(e, "applyNumberFormat", "-"),
            attr_or(e, "applyFill", "-"),
            attr_or(e, "applyBorder", "-"),
            attr_or(e, "applyAlignment", "-"),
            attr_or(e, "applyProtection", "-")
        )
    };
    loop {
        match rd.read_event() {
            Ok(Event::Start(e)) => {
                let name = String::from_utf8_lossy(e.name().as_ref()).to_string();
                let parent = path.last().cloned().unwrap_or_default();
                match (parent.as_str(), name.as_str()) {
                    ("fonts", "font") => sc.fonts += 1,
                    ("fills", "fill") => sc.fills += 1,
                    ("borders", "border") => sc.borders += 1,
                    ("cellXfs", "xf") => cur_xf = Some((xf_head(&e), "-".into(), "-".into())),
                    _ => {}
                }
                path.push(name);
            }
            Ok(Event::Empty(e)) => {
                let name = String::from_utf8_lossy(e.name().as_ref()).to_string();
                let parent = path.last().cloned().unwrap_or_default();
                match (parent.as_str(), name.as_str()) {
                    ("fonts", "font") => sc.fonts += 1,
                    ("fills", "fill") => sc.fills += 1,
                    ("borders", "border") => sc.borders += 1,
                    ("numFmts", "numFmt") => {
                        sc.numfmts.push((attr_or(&e, "numFmtId", "0").parse().unwrap_or(0), attr_or(&e, "formatCode", "")));
                    }
                    ("cellXfs", "xf") => sc.xfs.push(format!("{}.-.-", xf_head(&e))),
                    ("xf", "alignment") => {
                        if let Some(x) = cur_xf.as_mut() {
                            x.1 = format!(
                                "{},{},{},{}",
                                attr_or(&e, "horizontal", "-"),
                                attr_or(&e, "vertical", "-"),
                                attr_or(&e, "wrapText", "-"),
                                attr_or(&e, "textRotation", "-")
                            );
                        }
                    }
                    ("xf", "protection") => {
                        if let Some(x) = cur_xf.as_mut() {
                            x.2 = format!("{},{}", attr_or(&e, "locked", "-"), attr_or(&e, "hidden", "-"));
                        }
                    }
                    _ => {}
                }
            }
            Ok(Event::End(e)) => {
                let name = String::from_utf8_lossy(e.name().as_ref()).to_string();
                path.pop();
                if name == "xf" {
                    if let Some(x) = cur_xf.take() {
                        sc.xfs.push(format!("{}.{}.{}", x.0, x.1, x.2));
                    }
                }
            }
            Ok(Event::Eof) => break,
            Err(e) => return Err(format!("styles.xml: {:?}", e)),
            _ => {}
        }
    }
    let sheet = zip_text(buf, "xl/worksheets/sheet1.xml")?;
    let mut rd = quick_xml::Reader::from_str(&sheet);
    loop {
        match rd.read_event() {
            Ok(Event::Start(e)) | Ok(Event::Empty(e)) => {
                let name = String::from_utf8_lossy(e.name().as_ref()).to_string();
                match name.as_str() {
                    "col" => sc.cols.push(format!(
                        "{}.{}.{}.{}.{}.{}",
                        attr_or(&e, "min", "?"),
                        attr_or(&e, "max", "?"),
                        hex(&attr_or(&e, "width", "-")),
                        attr_or(&e, "hidden", "0"),
                        attr_or(&e, "bestFit", "0"),
                        attr_or(&e, "style", "0")
                    )),
                    "row" => sc.rows.push(format!(
                        "{}.{}.{}.{}.{}",
                        attr_or(&e, "r", "?"),
                        hex(&attr_or(&e, "ht", "")),
                        attr_or(&e, "customHeight", "0"),
                        attr_or(&e, "hidden", "0"),
                        attr_or(&e, "s", "0")
                    )),
                    "c" => {
                        let r = attr_or(&e, "r", "?");
                        let (c, rw, _, _) = umya_spreadsheet::helper::coordinate::index_from_coordinate(&r);
                        sc.cells.push(format!("{}.{}.{}", c.unwrap_or(0), rw.unwrap_or(0), attr_or(&e, "s", "0")));
                    }
                    _ => {}
                }
            }
            Ok(Event::Eof) => break,
            Err(e) => return Err(format!("sheet1.xml: {:?}", e)),
            _ => {}
        }
    }
    Ok(sc)
}

// ------------------------------------------------------------------------------------------------
// state and execution

#[derive(Clone)]
enum Target {
    Cell(u32, u32),
    Row(u32, Option<f64>, bool),
    Col(u32, f64, bool, bool),
}

pub struct State {
    pub book: Spreadsheet,
    assigns: Vec<(Target, String, Style)>,
    pub dead: bool,
    codes: BTreeMap<u32, String>,
    canon: BTreeMap<u32, u32>,
}
impl State {
    pub fn new() -> Self {
        let (codes, canon) = builtin_canon();
        State { book: umya_spreadsheet::new_file(), assigns: vec![], dead: false, codes, canon }
    }
}

fn save(book: &Spreadsheet) -> Result<Vec<u8>, String> {
    let mut buf: Vec<u8> = Vec::new();
    umya_spreadsheet::writer::xlsx::write_writer(book, Cursor::new(&mut buf)).map_err(|e| format!("{:?}", e))?;
    Ok(buf)
}

fn first_diff(a: &[(String, String)], b: &[(String, String)]) -> Option<(String, String, String)> {
    for (x, y) in a.iter().zip(b.iter()) {
        if x != y {
            return Some((x.0.clone(), x.1.clone(), y.1.clone()));
        }
    }
    None
}

fn target_text(t: &Target) -> String {
    match t {
        Target::Cell(c, r) => format!("cell {}.{}", c, r),
        Target::Row(r, _, _) => format!("row {}", r),
        Target::Col(c, _, _, _) => format!("col {}", c),
    }
}

/// the property's own oracle on the implementation
fn oracle(out: &mut Out, st: &State, line: &str, buf: &[u8], sc: &Scan) {
    let theme = st.book.get_theme().clone();
    let re = match guard(|| umya_spreadsheet::reader::xlsx::read_reader(Cursor::new(buf.to_vec()), true)) {
        Ok(Ok(b)) => b,
        Ok(Err(e)) => {
            out.oracle_fail(Fail::new("reload-failed").with("op", line).with("detail", format!("{:?}", e)));
            return;
        }
        Err(_) => {
            out.oracle_fail(Fail::new("reload-panic").with("op", line));
            return;
        }
    };
    let ws = re.get_sheet(&0).unwrap();
    let def = Style::default();
    // only the last assignment to a target counts
    let mut last: BTreeMap<String, usize> = BTreeMap::new();
    for (i, (t, _, _)) in st.assigns.iter().enumerate() {
        last.insert(target_text(t), i);
    }
    let mut pairs: Vec<(String, String, String, String)> = vec![]; // target, enc, desc before, desc after
    for (name, i) in &last {
        let (t, enc, orig) = &st.assigns[*i];
        let got: Style = match t {
            Target::Cell(c, r) => ws.get_cell((*c, *r)).map(|x| x.get_style().clone()).unwrap_or_else(|| def.clone()),
            Target::Row(r, ht, hidden) => match ws.get_row_dimension(r) {
                Some(rd) => {
                    let want_ht = ht.unwrap_or(0.0);
                    if *rd.get_height() != want_ht || rd.get_hidden() != hidden || *rd.get_custom_height() != ht.is_some() {
                        out.oracle_fail(
                            Fail::new("rt-dim")
                                .with("op", line)
                                .with("target", name)
                                .with("attr", "row")
                                .with("detail", format!("height {} hidden {} custom {} (set: {:?} {} )", rd.get_height(), rd.get_hidden(), rd.get_custom_height(), ht, hidden)),
                        );
                    } else {
                        out.oracle_ok();
                    }
                    rd.get_style().clone()
                }
                None => {
                    out.oracle_fail(Fail::new("rt-dim").with("op", line).with("target", name).with("attr", "row").with("detail", "row missing after reload"));
                    def.clone()
                }
            },
            Target::Col(c, w, hidden, bf) => match ws.get_column_dimension_by_number(c) {
                Some(cd) => {
                    if cd.get_width() != w || cd.get_hidden() != hidden || cd.get_best_fit() != bf {
                        out.oracle_fail(
                            Fail::new("rt-dim")
                                .with("op", line)
                                .with("target", name)
                                .with("attr", "col")
                                .with("detail", format!("width {} hidden {} bestFit {} (set: {} {} {})", cd.get_width(), cd.get_hidden(), cd.get_best_fit(), w, hidden, bf)),
                        );
                    } else {
                        out.oracle_ok();
                    }
                    cd.get_style().clone()
                }
                None => {
                    out.oracle_fail(Fail::new("rt-dim").with("op", line).with("target", name).with("attr", "col").with("detail", "column missing after reload"));
                    def.clone()
                }
            },
        };
        let d0 = describe(orig, &theme);
        let d1 = describe(&got, &theme);
        match first_diff(&d0, &d1) {
            None => out.oracle_ok(),
            Some((attr, a, b)) => {
                out.oracle_fail(
                    Fail::new("roundtrip")
                        .with("op", line)
                        .with("target", name)
                        .with("attr", &attr)
                        .with("set", a)
                        .with("got", b)
                        .with("style", enc),
                );
            }
        }
        pairs.push((name.clone(), enc.clone(), desc_text(&d0), desc_text(&d1)));
    }
    // two different formattings never come back equal
    let mut by_after: BTreeMap<&str, usize> = BTreeMap::new();
    let mut merged = 0;
    for (k, (name, enc, d0, d1)) in pairs.iter().enumerate() {
        match by_after.get(d1.as_str()) {
            Some(&k0) if pairs[k0].2 != *d0 => {
                merged += 1;
                if merged <= 3 {
                    let (n0, e0, b0, _) = &pairs[k0];
                    // which attributes of the two formattings that were set differ
                    let split = |t: &str| -> Vec<(String, String)> {
                        t.split('|').map(|kv| { let i = kv.find('=').unwrap_or(0); (kv[..i].to_string(), kv[i + 1..].to_string()) }).collect()
                    };
                    let (va, vb) = (split(d0), split(b0));
                    let diff: Vec<(String, String, String)> =
                        va.iter().zip(vb.iter()).filter(|(x, y)| x != y).map(|(x, y)| (x.0.clone(), x.1.clone(), y.1.clone())).collect();
                    out.oracle_fail(
                        Fail::new("merged")
                            .with("op", line)
                            .with("target", name)
                            .with("other", n0)
                            .with("style", enc)
                            .with("other_style", e0)
                            .with("differs", diff.iter().map(|d| d.0.clone()).collect::<Vec<_>>().join(","))
                            .with("values", diff.iter().map(|d| format!("{}|{}", d.1, d.2)).collect::<Vec<_>>().join(",")),
                    );
                }
            }
            Some(_) => {}
            None => {
                by_after.insert(d1, k);
            }
        }
    }
    if merged == 0 {
        out.oracle_ok();
    }
    // saving does not grow the style tables
    let c1 = sc.counts();
    let again = save(&st.book).and_then(|b| scan(&b, &st.canon)).map(|s| s.counts());
    let after_reload = guard(|| save(&re).and_then(|b| scan(&b, &st.canon).map(|s| (b, s)))).unwrap_or_else(|_| Err("panic".into()));
    let c3 = after_reload.as_ref().map(|s| s.1.counts());
    if again.as_deref() != Ok(c1.as_str()) || c3.as_deref() != Ok(c1.as_str()) {
        out.oracle_fail(
            Fail::new("growth").with("op", line).with("first", &c1).with("second", format!("{:?}", again)).with("after_reload", format!("{:?}", c3)),
        );
    } else {
        out.oracle_ok();
    }
    // save -> reload -> save -> reload is stable: every target shows the formatting of the first reload
    // (xf indices may legitimately differ: two xf entries that reload to the same Style share the first)
    if let Ok((buf3, s3)) = &after_reload {
        if s3.xfs != sc.xfs {
            out.oracle_fail(Fail::new("resave-differs").with("op", line).with("detail", "cellXfs"));
        }
        match guard(|| umya_spreadsheet::reader::xlsx::read_reader(Cursor::new(buf3.to_vec()), true)) {
            Ok(Ok(re2)) => {
                let ws2 = re2.get_sheet(&0).unwrap();
                let mut bad = 0;
                for (name, enc, _, d1) in &pairs {
                    let t = &st.assigns[last[name]].0;
                    let got: Style = match t {
                        Target::Cell(c, r) => ws2.get_cell((*c, *r)).map(|x| x.get_style().clone()).unwrap_or_else(|| def.clone()),
                        Target::Row(r, _, _) => ws2.get_row_dimension(r).map(|x| x.get_style().clone()).unwrap_or_else(|| def.clone()),
                        Target::Col(c, _, _, _) => ws2.get_column_dimension_by_number(c).map(|x| x.get_style().clone()).unwrap_or_else(|| def.clone()),
                    };
                    if &desc_text(&describe(&got, &theme)) != d1 {
                        bad += 1;
                        if bad <= 2 {
                            out.oracle_fail(Fail::new("resave-differs").with("op", line).with("target", name).with("style", enc).with("detail", "formatting after the second reload"));
                        }
                    }
                }
                if bad == 0 {
                    out.oracle_ok();
                }
            }
            _ => out.oracle_fail(Fail::new("reload-failed").with("op", line).with("detail", "second reload")),
        }
    }
}

pub fn exec(out: &mut Out, st: &mut State, line: &str) -> (String, bool) {
    let a: Vec<&str> = line.split(' ').collect();
    if a.len() < 2 {
        return ("bad-op".into(), false);
    }
    if a[1] == "reset" {
        *st = State::new();
        return ("ok".into(), false);
    }
    if a[1] == "codec" {
        return crate::c05_codec::exec(out, line);
    }
    if a[1] == "builtin" {
        let id: u32 = a[2].parse().unwrap();
        return (st.codes.get(&id).map(|c| hex(c)).unwrap_or_else(|| "none".into()), true);
    }
    if st.dead {
        return ("dead".into(), false);
    }
    let n = |i: usize| -> u32 { a[i].parse().unwrap() };
    match a[1] {
        "cell" => {
            let enc = a[4].to_string();
            let (c, r) = (n(2), n(3));
            match guard(|| {
                let s = build_style(&enc);
                st.book.get_sheet_mut(&0).unwrap().set_style((c, r), s.clone());
                s
            }) {
                Ok(s) => {
                    st.assigns.push((Target::Cell(c, r), enc, s));
                    ("ok".into(), true)
                }
                Err(_) => {
                    st.dead = true;
                    ("panic".into(), false)
                }
            }
        }
        "row" => {
            let enc = a[5].to_string();
            let r = n(2);
            let ht: Option<f64> = if a[3] == "-" { None } else { Some(a[3].parse().unwrap()) };
            let hidden = a[4] == "1";
            match guard(|| {
                let s = build_style(&enc);
                let rd = st.book.get_sheet_mut(&0).unwrap().get_row_dimension_mut(&r);
                if let Some(h) = ht {
                    rd.set_height(h);
                }
                rd.set_hidden(hidden);
                rd.set_style(s.clone());
                s
            }) {
                Ok(s) => {
                    st.assigns.push((Target::Row(r, ht, hidden), enc, s));
                    ("ok".into(), true)
                }
                Err(_) => {
                    st.dead = true;
                    ("panic".into(), false)
                }
            }
        }
        "col" => {
            let enc = a[6].to_string();
            let c = n(2);
            let w: f64 = a[3].parse().unwrap();
            let (hidden, bf) = (a[4] == "1", a[5] == "1");
            match guard(|| {
                let s = build_style(&enc);
                let cd = st.book.get_sheet_mut(&0).unwrap().get_column_dimension_by_number_mut(&c);
                cd.set_width(w);
                cd.set_hidden(hidden);
                cd.set_best_fit(bf);
                cd.set_style(s.clone());
                s
            }) {
                Ok(s) => {
                    st.assigns.push((Target::Col(c, w, hidden, bf), enc, s));
                    ("ok".into(), true)
                }
                Err(_) => {
                    st.dead = true;
                    ("panic".into(), false)
                }
            }
        }
        "save" => match guard(|| save(&st.book).and_then(|b| scan(&b, &st.canon).map(|s| (b, s)))) {
            Ok(Ok((buf, sc))) => {
                out.count_n("styles.xf-total", sc.xfs.len() as u64);
                let bucket = match sc.xfs.len() {
                    0..=4 => "xf<=4",
                    5..=20 => "xf5-20",
                    21..=100 => "xf21-100",
                    101..=300 => "xf101-300",
                    _ => "xf>300",
                };
                out.count(&format!("save.{}", bucket));
                oracle(out, st, line, &buf, &sc);
                (sc.text(&st.canon), true)
            }
            Ok(Err(e)) => {
                out.oracle_fail(Fail::new("save-failed").with("op", line).with("detail", e));
                st.dead = true;
                ("err".into(), false)
            }
            Err(_) => {
                out.oracle_fail(Fail::new("save-panic").with("op", line));
                st.dead = true;
                ("panic".into(), false)
            }
        },
        _ => ("bad-op".into(), false),
    }
}

// ------------------------------------------------------------------------------------------------
// generation

const UNDERLINES: &[&str] = &["single", "double", "singleAccounting", "doubleAccounting", "none"];
const SCHEMES: &[&str] = &["major", "minor", "none"];
const VALIGNS: &[&str] = &["baseline", "subscript", "superscript"];
const PATTERNS: &[&str] = &[
    "none", "solid", "darkDown", "darkGray", "darkGrid", "darkHorizontal", "darkTrellis", "darkUp", "darkVertical", "gray0625", "gray125",
    "lightDown", "lightGray", "lightGrid", "lightHorizontal", "lightTrellis", "lightUp", "lightVertical", "mediumGray",
];
const BSTYLES: &[&str] = &[
    "none", "thin", "medium", "thick", "dashed", "dotted", "double", "hair", "dashDot", "dashDotDot", "mediumDashDot", "mediumDashDotDot",
    "mediumDashed", "slantDashDot",
];
const HALIGNS: &[&str] = &["general", "left", "center", "right", "fill", "justify", "centerContinuous", "distributed"];
const VALS: &[&str] = &["top", "center", "bottom", "justify", "distributed"];
const EDGES: &[&str] = &["l", "r", "t", "b", "d", "v", "h"];
const NAMES: &[&str] = &["Arial", "Arial1", "Calibri", "Times New Roman", "ＭＳ Ｐゴシック", "Courier New", "A", "empty!!", "Arial 1", " Arial ", "\u{1F600}x", ""];
const CODES: &[&str] = &[
    "0.000", "#,##0.0", "yyyy-mm-dd", "\"$\"#,##0.00_-", "0.00;[Red]-0.00", "[h]:mm", "dd/mm/yyyy hh:mm", "0.0E+0", "#\" \"?/?", "@\" x\"",
    "General", "0.00", "m/d/yyyy", "@", "0%", "mm:ss", "# ?/?", "h:mm:ss", " 0.0 ", "#,##0 \"<&>\"", "0.00 \"€\"", "0'x'", "[$-409]d\\-mmm\\-yy;@",
];
const BUILTIN_IDS: &[u32] = &[0, 1, 2, 3, 4, 9, 10, 11, 12, 13, 14, 15, 16, 17, 18, 19, 20, 21, 22, 37, 38, 39, 40, 44, 45, 46, 47, 48, 49, 30, 59, 60, 61, 62, 67, 68, 69, 70, 31, 32, 33, 34, 35, 27, 28];

fn pk<'a>(rng: &mut Rng, xs: &'a [&'a str]) -> &'a str {
    xs[rng.below(xs.len() as u64) as usize]
}

fn num(x: f64) -> String {
    x.to_string()
}

fn rand_color(rng: &mut Rng) -> String {
    // channels never form one of the 56 indexed colours (set_argb would turn those into `indexed`)
    const CH: &[&str] = &["12", "34", "56", "78", "9A", "BC", "DE", "01", "F0"];
    let tint = match rng.below(5) {
        0 => num((rng.range(1, 9) as f64) / 10.0),
        1 => num(-(rng.range(1, 9) as f64) / 10.0),
        _ => "-".to_string(),
    };
    match rng.below(10) {
        0..=4 => format!("a~{}~{}", hex(&format!("{}{}{}{}", rng.pick(&["FF", "80", "00"]), rng.pick(CH), rng.pick(CH), rng.pick(CH))), tint),
        5..=6 => format!("i~{}~{}", rng.range(0, 64), tint),
        7..=8 => format!("t~{}~{}", rng.range(0, 9), tint),
        _ => format!("-~-~{}", tint),
    }
}

fn rand_font(rng: &mut Rng) -> Vec<(String, String)> {
    let mut f: Vec<(String, String)> = vec![];
    if rng.chance(9, 10) {
        f.push(("n".into(), hex(pk(rng, NAMES))));
    }
    if rng.chance(9, 10) {
        f.push(("z".into(), num(*rng.pick(&[1.0, 8.0, 9.0, 10.0, 10.5, 11.0, 12.0, 14.0, 111.0, 72.0, 1.5]))));
    }
    if rng.chance(1, 2) {
        f.push(("y".into(), rng.pick(&["0", "1", "2", "3", "12", "21"]).to_string()));
    }
    for k in ["b", "i", "s"] {
        if rng.chance(1, 3) {
            f.push((k.into(), rng.below(2).to_string()));
        }
    }
    if rng.chance(1, 3) {
        f.push(("u".into(), rng.pick(UNDERLINES).to_string()));
    }
    if rng.chance(2, 3) {
        f.push(("c".into(), rand_color(rng)));
    }
    if rng.chance(1, 5) {
        f.push(("h".into(), rng.pick(&["0", "1", "2", "128", "134", "204"]).to_string()));
    }
    if rng.chance(1, 3) {
        f.push(("m".into(), rng.pick(SCHEMES).to_string()));
    }
    if rng.chance(1, 6) {
        f.push(("v".into(), rng.pick(VALIGNS).to_string()));
    }
    f
}

fn join_flds(tag: &str, f: &[(String, String)]) -> String {
    format!("{}{}", tag, f.iter().map(|(k, v)| format!("{}={}", k, v)).collect::<Vec<_>>().join(","))
}

fn rand_fill(rng: &mut Rng) -> String {
    match rng.below(12) {
        0 => {
            let n = rng.range(0, 3);
            let mut s = format!("G{}", rng.pick(&["0", "45", "90", "180", "270"]));
            for i in 0..n {
                s.push_str(&format!(",{}~{}", num(i as f64 / 2.0), rand_color(rng)));
            }
            s
        }
        1 => "E".to_string(),
        _ => {
            let mut f: Vec<(String, String)> = vec![];
            let solid = rng.chance(1, 2);
            if rng.chance(14, 15) {
                f.push(("t".into(), if solid { "solid".to_string() } else { rng.pick(&PATTERNS[..]).to_string() }));
            }
            if rng.chance(9, 10) {
                f.push(("f".into(), rand_color(rng)));
            }
            if rng.chance(1, 2) {
                f.push(("b".into(), rand_color(rng)));
            }
            join_flds("P", &f)
        }
    }
}

fn rand_borders(rng: &mut Rng) -> Vec<(String, String)> {
    let mut f: Vec<(String, String)> = vec![];
    for e in EDGES {
        let p = if *e == "v" || *e == "h" { 8 } else { 2 };
        if rng.chance(1, p) {
            let style = if rng.chance(1, 10) { "-".to_string() } else { rng.pick(BSTYLES).to_string() };
            let color = if rng.chance(1, 3) { "-~-~-".to_string() } else { rand_color(rng) };
            f.push((e.to_string(), format!("{}~{}", style, color)));
        }
    }
    if rng.chance(1, 6) {
        f.push(("dd".into(), rng.below(2).to_string()));
    }
    if rng.chance(1, 6) {
        f.push(("du".into(), rng.below(2).to_string()));
    }
    f
}

fn rand_align(rng: &mut Rng) -> Vec<(String, String)> {
    let mut f: Vec<(String, String)> = vec![];
    if rng.chance(2, 3) {
        f.push(("h".into(), rng.pick(HALIGNS).to_string()));
    }
    if rng.chance(1, 2) {
        f.push(("v".into(), rng.pick(VALS).to_string()));
    }
    if rng.chance(1, 3) {
        f.push(("w".into(), rng.below(2).to_string()));
    }
    if rng.chance(1, 4) {
        f.push(("r".into(), rng.pick(&["0", "45", "90", "135", "180", "255"]).to_string()));
    }
    f
}

fn rand_numfmt(rng: &mut Rng) -> String {
    if rng.chance(1, 3) {
        format!("Ni{}", rng.pick(BUILTIN_IDS))
    } else if rng.chance(1, 4) {
        format!("Nc{}", hex(&format!("0.{}\"u{}\"", "0".repeat(rng.range(1, 6) as usize), rng.below(40))))
    } else {
        format!("Nc{}", hex(pk(rng, CODES)))
    }
}

/// a style as a list of components (so that one component / one field can be mutated)
#[derive(Clone)]
struct GenStyle {
    font: Option<Vec<(String, String)>>,
    fill: Option<String>,
    borders: Option<Vec<(String, String)>>,
    align: Option<Vec<(String, String)>>,
    numfmt: Option<String>,
    prot: Option<Vec<(String, String)>>,
    xfid: Option<u32>,
}
impl GenStyle {
    fn enc(&self) -> String {
        let mut c: Vec<String> = vec![];
        if let Some(f) = &self.font {
            c.push(join_flds("F", f));
        }
        if let Some(f) = &self.fill {
            c.push(f.clone());
        }
        if let Some(f) = &self.borders {
            c.push(join_flds("B", f));
        }
        if let Some(f) = &self.align {
            c.push(join_flds("A", f));
        }
        if let Some(f) = &self.numfmt {
            c.push(f.clone());
        }
        if let Some(f) = &self.prot {
            c.push(join_flds("L", f));
        }
        if let Some(x) = &self.xfid {
            c.push(format!("X{}", x));
        }
        if c.is_empty() {
            "-".to_string()
        } else {
            c.join("/")
        }
    }
}

fn rand_style(rng: &mut Rng) -> GenStyle {
    GenStyle {
        font: if rng.chance(2, 3) { Some(rand_font(rng)) } else { None },
        fill: if rng.chance(1, 2) { Some(rand_fill(rng)) } else { None },
        borders: if rng.chance(1, 2) { Some(rand_borders(rng)) } else { None },
        align: if rng.chance(1, 3) { Some(rand_align(rng)) } else { None },
        numfmt: if rng.chance(1, 3) { Some(rand_numfmt(rng)) } else { None },
        prot: if rng.chance(1, 6) {
            let mut f = vec![];
            if rng.chance(2, 3) {
                f.push(("k".to_string(), rng.below(2).to_string()));
            }
            if rng.chance(1, 2) {
                f.push(("h".to_string(), rng.below(2).to_string()));
            }
            Some(f)
        } else {
            None
        },
        xfid: if rng.chance(1, 30) { Some(rng.range(0, 3) as u32) } else { None },
    }
}

fn set_fld(f: &mut Vec<(String, String)>, k: &str, v: String) {
    match f.iter_mut().find(|(k2, _)| k2 == k) {
        Some(x) => x.1 = v,
        None => f.push((k.to_string(), v)),
    }
}

/// near-duplicate: the same style with one attribute changed
fn mutate(rng: &mut Rng, s: &GenStyle) -> GenStyle {
    let mut t = s.clone();
    match rng.below(8) {
        0..=2 => {
            let mut f = t.font.clone().unwrap_or_else(|| vec![("n".into(), hex("Calibri")), ("z".into(), "11".into())]);
            match rng.below(9) {
                0 => set_fld(&mut f, "n", hex(pk(rng, NAMES))),
                1 => set_fld(&mut f, "z", num(*rng.pick(&[1.0, 9.0, 11.0, 11.5, 12.0, 111.0]))),
                2 => set_fld(&mut f, "b", rng.below(2).to_string()),
                3 => set_fld(&mut f, "i", rng.below(2).to_string()),
                4 => set_fld(&mut f, "s", rng.below(2).to_string()),
                5 => set_fld(&mut f, "u", rng.pick(UNDERLINES).to_string()),
                6 => set_fld(&mut f, "c", rand_color(rng)),
                7 => set_fld(&mut f, "y", rng.pick(&["1", "2", "12", "21"]).to_string()),
                _ => set_fld(&mut f, "v", rng.pick(VALIGNS).to_string()),
            }
            t.font = Some(f);
        }
        3 => t.fill = Some(rand_fill(rng)),
        4 => {
            let mut f = t.borders.clone().unwrap_or_default();
            let e = rng.pick(EDGES).to_string();
            set_fld(&mut f, &e, format!("{}~{}", rng.pick(BSTYLES), rand_color(rng)));
            t.borders = Some(f);
        }
        5 => {
            let mut f = t.align.clone().unwrap_or_default();
            match rng.below(4) {
                0 => set_fld(&mut f, "h", rng.pick(HALIGNS).to_string()),
                1 => set_fld(&mut f, "v", rng.pick(VALS).to_string()),
                2 => set_fld(&mut f, "w", rng.below(2).to_string()),
                _ => set_fld(&mut f, "r", rng.range(0, 180).to_string()),
            }
            t.align = Some(f);
        }
        6 => t.numfmt = Some(rand_numfmt(rng)),
        _ => {
            let mut f = t.prot.clone().unwrap_or_default();
            if rng.chance(1, 2) {
                set_fld(&mut f, "k", rng.below(2).to_string());
            } else {
                set_fld(&mut f, "h", rng.below(2).to_string());
            }
            t.prot = Some(f);
        }
    }
    t
}

/// one workbook from a list of style encodings: cells in a grid, some rows, some columns
fn workbook(v: &mut Vec<String>, rng: &mut Rng, styles: &[String], with_dims: bool) {
    v.push("c05 reset".to_string());
    let width = 12u32;
    for (i, s) in styles.iter().enumerate() {
        let (c, r) = (1 + (i as u32 % width), 1 + (i as u32 / width));
        v.push(format!("c05 cell {} {} {}", c, r, s));
    }
    if with_dims && !styles.is_empty() {
        let nrows = rng.range(1, 8);
        let mut used_rows: BTreeSet<u64> = BTreeSet::new();
        for _ in 0..nrows {
            let r = rng.range(1, 70);
            if !used_rows.insert(r) {
                continue;
            }
            let ht = match rng.below(4) {
                0 => "-".to_string(),
                1 => "0".to_string(),
                _ => num(*rng.pick(&[12.75, 15.0, 30.0, 409.5, 0.75, 20.25, 14.399999999999999])),
            };
            v.push(format!("c05 row {} {} {} {}", r, ht, rng.below(2), rng.pick(styles)));
        }
        // columns: runs of adjacent columns, some with equal attributes (merged on save)
        let mut c = rng.range(1, 4) as u32;
        let nruns = rng.range(1, 5);
        let mut cols: Vec<String> = vec![];
        for _ in 0..nruns {
            let len = rng.range(1, 4);
            let w = num(*rng.pick(&[8.38, 10.0, 1.0, 100.0, 12.5, 0.0, 255.0, 12.7109375, 0.140625]));
            let (h, b) = (rng.below(2), rng.below(2));
            let s = rng.pick(styles).clone();
            for _ in 0..len {
                if rng.chance(1, 6) {
                    // break the run in one attribute
                    cols.push(format!("c05 col {} {} {} {} {}", c, num(*rng.pick(&[10.0, 100.0, 9.0])), h, b, s));
                } else if rng.chance(1, 8) {
                    cols.push(format!("c05 col {} {} {} {} {}", c, w, h, b, rng.pick(styles)));
                } else {
                    cols.push(format!("c05 col {} {} {} {} {}", c, w, h, b, s));
                }
                c += 1;
            }
            c += rng.below(3) as u32;
        }
        // insertion order of columns is not sorted
        for i in (1..cols.len()).rev() {
            let j = rng.below(i as u64 + 1) as usize;
            cols.swap(i, j);
        }
        v.extend(cols);
    }
    v.push("c05 save".to_string());
}

/// the adjacent-field collision pairs of the concatenated keys of the unfixed code
pub fn collision_pairs() -> Vec<(String, String)> {
    let red = format!("a~{}~-", hex("FF123456"));
    vec![
        // Font: name ‖ size
        (format!("Fn={},z=1", hex("Arial1")), format!("Fn={},z=11", hex("Arial"))),
        // Font: size ‖ family
        (format!("Fn={},z=1,y=12", hex("Arial")), format!("Fn={},z=11,y=2", hex("Arial"))),
        // Font: name unset ("empty!!" marker) vs a font literally named "empty!!"
        ("Fz=11".to_string(), format!("Fn={},z=11", hex("empty!!"))),
        // Color (inside a font): argb ‖ tint
        (format!("Fn={},c=a~{}~61", hex("Arial"), hex("FF12345")), format!("Fn={},c=a~{}~1", hex("Arial"), hex("FF123456"))),
        // Color inside a pattern fill
        (format!("Pt=solid,f=a~{}~61", hex("FF12345")), format!("Pt=solid,f=a~{}~1", hex("FF123456"))),
        // Color inside a border edge
        (format!("Bl=thin~a~{}~61", hex("FF12345")), format!("Bl=thin~a~{}~1", hex("FF123456"))),
        // Color: no colour at all vs the argb text "empty!!"
        (format!("Pt=solid,f=-~-~-,b={}", red), format!("Pt=solid,f=a~{}~-,b={}", hex("empty!!"), red)),
        // Color inside a gradient stop
        (format!("G90,0~a~{}~61", hex("FF12345")), format!("G90,0~a~{}~1", hex("FF123456"))),
    ]
}

pub fn gen(tier: Tier, seed: u64) -> Vec<String> {
    let mut rng = Rng::new(seed ^ 0xC05);
    let mut v: Vec<String> = vec![];
    // the built-in number format table
    for id in 0..=70u32 {
        v.push(format!("c05 builtin {}", id));
    }
    v.push("c05 builtin 164".to_string());

    // (1) adjacent-field collisions of the concatenated keys: each pair alone, then all together
    for (a, b) in collision_pairs() {
        workbook(&mut v, &mut rng, &[a.clone(), b.clone()], false);
        workbook(&mut v, &mut rng, &[b, a], false);
    }
    let all: Vec<String> = collision_pairs().into_iter().flat_map(|(a, b)| vec![a, b]).collect();
    workbook(&mut v, &mut rng, &all, true);

    // (2) every attribute varied one at a time around a base style (near-duplicates coexist)
    let base_font: Vec<(String, String)> =
        vec![("n".into(), hex("Arial")), ("z".into(), "11".into()), ("y".into(), "2".into()), ("c".into(), "t~1~-".into()), ("m".into(), "minor".into())];
    let mut fonts: Vec<String> = vec![join_flds("F", &base_font), "F".to_string()];
    let mut var = |k: &str, vals: Vec<String>| {
        for x in vals {
            let mut f = base_font.clone();
            set_fld(&mut f, k, x);
            fonts.push(join_flds("F", &f));
        }
    };
    var("n", NAMES.iter().map(|s| hex(s)).collect());
    var("z", vec!["1", "10", "10.5", "12", "111", "409", "0.5"].into_iter().map(String::from).collect());
    var("y", vec!["0", "1", "3", "12", "-1"].into_iter().map(String::from).collect());
    var("b", vec!["0".into(), "1".into()]);
    var("i", vec!["0".into(), "1".into()]);
    var("s", vec!["0".into(), "1".into()]);
    var("u", UNDERLINES.iter().map(|s| s.to_string()).collect());
    var(
        "c",
        vec![
            format!("a~{}~-", hex("FF123456")),
            format!("a~{}~-", hex("80123456")),
            format!("a~{}~0.5", hex("FF123456")),
            format!("a~{}~-", hex("FFFF0000")),
            "i~2~-".into(),
            "i~10~-".into(),
            "i~64~-".into(),
            "t~0~-".into(),
            "t~4~-".into(),
            "t~4~-0.25".into(),
            "t~4~0.4".into(),
            "-~-~-".into(),
        ],
    );
    var("h", vec!["0", "1", "128", "255"].into_iter().map(String::from).collect());
    var("m", SCHEMES.iter().map(|s| s.to_string()).collect());
    var("v", VALIGNS.iter().map(|s| s.to_string()).collect());
    workbook(&mut v, &mut rng, &fonts, false);

    let mut fills: Vec<String> = vec!["E".to_string(), "P".to_string()];
    let fg = format!("a~{}~-", hex("FF123456"));
    let bg = format!("a~{}~-", hex("FF9ABCDE"));
    for p in PATTERNS {
        fills.push(format!("Pt={}", p));
        fills.push(format!("Pt={},f={}", p, fg));
        fills.push(format!("Pt={},f={},b={}", p, fg, bg));
        fills.push(format!("Pt={},b={}", p, bg));
    }
    for c in ["i~2~-", "i~64~-", "t~3~-", "t~3~0.6", "t~0~-"] {
        fills.push(format!("Pt=solid,f={}", c));
        fills.push(format!("Pt=solid,f={},b={}", fg, c));
    }
    fills.push(format!("Pf={}", fg));
    fills.push(format!("Pf={},b={}", fg, bg));
    fills.push("G90".to_string());
    fills.push(format!("G90,0~{},1~{}", fg, bg));
    fills.push(format!("G45,0~{},1~{}", fg, bg));
    fills.push(format!("G90,0~{},0.5~t~4~-,1~{}", fg, bg));
    fills.push(format!("G90,0~{},1~{}", bg, fg));
    workbook(&mut v, &mut rng, &fills, false);

    let mut borders: Vec<String> = vec!["B".to_string()];
    for e in EDGES {
        for s in BSTYLES {
            borders.push(format!("B{}={}~-~-~-", e, s));
        }
        borders.push(format!("B{}=thin~{}", e, fg));
        borders.push(format!("B{}=thin~i~64~-", e));
        borders.push(format!("B{}=thin~t~1~-", e));
        borders.push(format!("B{}=thin~t~1~0.5", e));
        borders.push(format!("B{}=-~{}", e, fg));
    }
    for (dd, du) in [("0", "0"), ("1", "0"), ("0", "1"), ("1", "1")] {
        borders.push(format!("Bd=thin~{},dd={},du={}", fg, dd, du));
    }
    borders.push("Bdd=1".to_string());
    borders.push("Bdu=0".to_string());
    workbook(&mut v, &mut rng, &borders, false);

    let mut misc: Vec<String> = vec!["A".to_string(), "L".to_string(), "-".to_string(), "X0".to_string(), "X1".to_string()];
    for h in HALIGNS {
        misc.push(format!("Ah={}", h));
    }
    for x in VALS {
        misc.push(format!("Av={}", x));
    }
    for w in ["0", "1"] {
        misc.push(format!("Aw={}", w));
        misc.push(format!("Lk={}", w));
        misc.push(format!("Lh={}", w));
        misc.push(format!("Lk={},h=1", w));
    }
    for r in ["0", "1", "45", "90", "91", "180", "255"] {
        misc.push(format!("Ar={}", r));
    }
    misc.push("Ah=center,v=center,w=1,r=45".to_string());
    workbook(&mut v, &mut rng, &misc, false);

    let mut nfs: Vec<String> = vec![];
    for id in BUILTIN_IDS {
        nfs.push(format!("Ni{}", id));
    }
    for c in CODES {
        nfs.push(format!("Nc{}", hex(c)));
    }
    workbook(&mut v, &mut rng, &nfs, false);

    // (2b) probe: XML-special characters in a font name (the reader does not unescape the `val`
    // attribute of <name>: defect 9 of DESIGN section 4, owned by C03/C04/C06; recorded as a known finding)
    workbook(&mut v, &mut rng, &[format!("Fn={},z=11", hex("Arial's")), format!("Fn={},z=11", hex("A&B"))], false);

    // (3) random workbooks: 1..600 distinct styles with near-duplicates, on cells, rows and columns
    let n_books = if tier == Tier::Thorough { 1450 } else { 150 };
    for b in 0..n_books {
        let target = match b % 10 {
            0 => rng.range(1, 3),
            1..=4 => rng.range(2, 40),
            5..=7 => rng.range(40, 200),
            8 => rng.range(200, 400),
            _ => rng.range(400, 600),
        } as usize;
        let mut pool: Vec<GenStyle> = vec![];
        let mut encs: Vec<String> = vec![];
        let mut seen: BTreeSet<String> = BTreeSet::new();
        let mut tries = 0;
        while encs.len() < target && tries < target * 20 {
            tries += 1;
            let s = if !pool.is_empty() && rng.chance(3, 5) {
                let i = rng.below(pool.len() as u64) as usize;
                mutate(&mut rng, &pool[i].clone())
            } else {
                rand_style(&mut rng)
            };
            let e = s.enc();
            if seen.insert(e.clone()) {
                pool.push(s);
                encs.push(e);
            }
        }
        // a few repeats: the same style on several cells must not grow anything
        for _ in 0..rng.range(0, 5) {
            let e = rng.pick(&encs).clone();
            encs.push(e);
        }
        if rng.chance(1, 4) {
            let (a, bb) = rng.pick(&collision_pairs()).clone();
            encs.push(a);
            encs.push(bb);
        }
        workbook(&mut v, &mut rng, &encs, true);
    }

    // (4) column runs only: merge / expand with default-styled columns
    let n_colbooks = if tier == Tier::Thorough { 40 } else { 6 };
    for _ in 0..n_colbooks {
        let styles: Vec<String> = vec!["-".to_string(), format!("Pt=solid,f={}", fg), "Fb=1".to_string()];
        v.push("c05 reset".to_string());
        let mut c = 1u32;
        let mut cols = vec![];
        for _ in 0..rng.range(2, 12) {
            let w = num(*rng.pick(&[8.38, 10.0, 100.0]));
            let h = rng.below(2);
            let bf = rng.below(2);
            let s = rng.pick(&styles).clone();
            for _ in 0..rng.range(1, 5) {
                cols.push(format!("c05 col {} {} {} {} {}", c, w, h, bf, s));
                c += 1;
            }
            if rng.chance(1, 3) {
                c += rng.range(1, 3) as u32;
            }
        }
        for i in (1..cols.len()).rev() {
            let j = rng.below(i as u64 + 1) as usize;
            cols.swap(i, j);
        }
        v.extend(cols);
        v.push("c05 save".to_string());
    }

    // (5) the codec family (c05_codec.rs): every style of the attribute lists above alone in a new workbook, plus
    // random full styles, rows and columns; the real XML element of each component goes to the model
    let n_rand = if tier == Tier::Thorough { 600 } else { 60 };
    let mut rand_encs: Vec<String> = vec![];
    while rand_encs.len() < n_rand {
        let e = rand_style(&mut rng).enc();
        if e != "-" {
            rand_encs.push(e);
        }
    }
    crate::c05_codec::gen(&mut v, &mut rng, &fonts, &fills, &borders, &misc, &nfs, &rand_encs);
    v
}

pub fn run(out: &mut Out, tier: Tier, seed: u64, replay: Option<Vec<String>>) {
    let ops: Vec<String> = match replay {
        // the `codecx` lines of a replay are derived from their `codec` request and are regenerated
        Some(r) => r.into_iter().filter(|l| !l.starts_with("c05 codecx ")).collect(),
        None => gen(tier, seed),
    };
    out.flush_each = false;
    let mut st = State::new();
    for op in ops {
        let kind = op.split(' ').nth(1).unwrap_or("?").to_string();
        out.begin(&op);
        let (reply, nt) = match guard(|| exec(out, &mut st, &op)) {
            Ok(x) => x,
            Err(_) => {
                st.dead = true;
                ("panic".to_string(), false)
            }
        };
        out.count(&format!("op.{}", kind));
        if kind == "cell" || kind == "row" || kind == "col" {
            if let Some(enc) = op.split(' ').last() {
                for comp in enc.split('/') {
                    out.count(&format!("style.comp.{}", &comp[..1]));
                }
            }
        }
        if reply == "panic" {
            out.count(&format!("panic.{}", kind));
        }
        out.end(&op, &reply, nt);
    }
    out.count_n("style.number-format-read-from-another-workbook", VIA_COUNT.with(|c| c.get()));
}
