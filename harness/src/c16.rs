//! C16 — concurrent saves of a workbook or its clones equal sequential saves.
//! Real threads, serialised at the cfg(umya_verif) yield points by a cooperative scheduler, so
//! that every interleaving at the granularity of shared-string-table operations is enumerated.
use crate::c12::{save_bytes, view_saved};
use crate::common::*;
use std::cell::Cell;
use std::sync::{Arc, Condvar, Mutex};
use std::time::{Duration, Instant};
use umya_spreadsheet::structs::Spreadsheet;

struct Sched {
    schedule: Vec<usize>,
    pos: usize,
    baton: Option<usize>,
    trace: Vec<(usize, &'static str)>,
    deadlock: bool,
}
static SCHED: Mutex<Option<Sched>> = Mutex::new(None);
static CV: Condvar = Condvar::new();
thread_local! { static SAVER: Cell<Option<usize>> = Cell::new(None); }

fn yield_cb(tag: &'static str) {
    let me = match SAVER.with(|s| s.get()) {
        Some(m) => m,
        None => return,
    };
    let mut g = SCHED.lock().unwrap();
    let start = Instant::now();
    {
        let s = g.as_mut().unwrap();
        if s.baton == Some(me) {
            s.baton = None;
            CV.notify_all();
        }
    }
    loop {
        let s = g.as_mut().unwrap();
        if s.deadlock || s.pos >= s.schedule.len() {
            // schedule exhausted (more yield points than expected) or given up: run free
            s.trace.push((me, tag));
            return;
        }
        if s.baton.is_none() && s.schedule[s.pos] == me {
            s.baton = Some(me);
            s.pos += 1;
            s.trace.push((me, tag));
            return;
        }
        let (g2, to) = CV.wait_timeout(g, Duration::from_millis(200)).unwrap();
        g = g2;
        if to.timed_out() && start.elapsed() > Duration::from_secs(5) {
            g.as_mut().unwrap().deadlock = true;
            CV.notify_all();
        }
    }
}

fn finish(me: usize) {
    let mut g = SCHED.lock().unwrap();
    let s = g.as_mut().unwrap();
    if s.baton == Some(me) {
        s.baton = None;
    }
    // a finished saver no longer takes turns: drop its remaining entries
    let pos = s.pos;
    let mut k = pos;
    while k < s.schedule.len() {
        if s.schedule[k] == me {
            s.schedule.remove(k);
        } else {
            k += 1;
        }
    }
    CV.notify_all();
}

fn book_with(strings: &[String]) -> Spreadsheet {
    let mut b = umya_spreadsheet::new_file();
    for (i, s) in strings.iter().enumerate() {
        b.get_sheet_mut(&0).unwrap().get_cell_mut((1, i as u32 + 1)).set_value_string(s.clone());
    }
    b
}

/// a workbook read lazily from a file with sheet 1 = x, y and sheet 2 = r, x (loaded table x, y, r);
/// sheet 1 is deserialized and given `strings`, sheet 2 stays raw
fn lazy_book_with(strings: &[String]) -> Spreadsheet {
    let mut b = umya_spreadsheet::new_file();
    b.get_sheet_mut(&0).unwrap().get_cell_mut((1, 1)).set_value_string("x");
    b.get_sheet_mut(&0).unwrap().get_cell_mut((1, 2)).set_value_string("y");
    b.new_sheet("Raw").unwrap();
    b.get_sheet_mut(&1).unwrap().get_cell_mut((1, 1)).set_value_string("r");
    b.get_sheet_mut(&1).unwrap().get_cell_mut((1, 2)).set_value_string("x");
    let bytes = save_bytes(&b).expect("base save");
    let mut l = umya_spreadsheet::reader::xlsx::read_reader(std::io::Cursor::new(bytes), false).expect("lazy read");
    l.read_sheet(0);
    for r in 1..=4u32 {
        l.get_sheet_mut(&0).unwrap().remove_cell((1, r));
    }
    for (i, s) in strings.iter().enumerate() {
        l.get_sheet_mut(&0).unwrap().get_cell_mut((1, i as u32 + 1)).set_value_string(s.clone());
    }
    l
}

fn render(v: &crate::c12::SavedView) -> String {
    format!(
        "sst={};idx={}",
        v.sst.join(","),
        v.sheets.iter().map(|s| s.iter().map(|k| k.to_string()).collect::<Vec<_>>().join(",")).collect::<Vec<_>>().join("|")
    )
}

/// `c16 run <mode> <sched> <p0> <p1> [<p2>]` with programs as comma-separated tokens (`-` = none)
pub fn exec(out: &mut Out, line: &str) -> (String, bool) {
    let a: Vec<&str> = line.split(' ').collect();
    if a[1] == "stress" {
        return stress(out, line, &a);
    }
    if a[1] != "run" {
        return ("bad-op".into(), false);
    }
    let mode = a[2];
    let schedule: Vec<usize> = a[3].chars().filter_map(|c| c.to_digit(10)).map(|d| d as usize).collect();
    let progs: Vec<Vec<String>> =
        a[4..].iter().map(|p| if *p == "-" { vec![] } else { p.split(',').map(|x| x.to_string()).collect() }).collect();
    let n = progs.len();
    let lazy = mode.starts_with("lazy");
    // workbooks: one shared object (mode same) or clones of a base, each edited to its own strings.
    // lazy modes: the base is a two-sheet file opened with lazy_read whose second sheet is never
    // deserialized, so that the save copies it verbatim and has to keep the loaded table in front
    let mk = |strings: &[String]| -> Spreadsheet {
        if lazy {
            lazy_book_with(strings)
        } else {
            book_with(strings)
        }
    };
    let shared: Option<Arc<Spreadsheet>> = if mode.ends_with("same") { Some(Arc::new(mk(&progs[0]))) } else { None };
    // saver i's workbook as a copy of `base`, edited to its own strings
    let derive = |base: &Spreadsheet, i: usize| -> Spreadsheet {
        let mut c = base.clone();
        if mode == "lazymixed" && i == 0 {
            // saver 0 works on a copy in which EVERY sheet is deserialized (its save starts from an empty
            // table), the others on copies that still hold the raw sheet (their saves need the loaded table)
            c.read_sheet_collection();
        }
        // overwrite / extend / clear to reach this saver's own strings
        for r in 1..=4u32 {
            c.get_sheet_mut(&0).unwrap().remove_cell((1, r));
        }
        for (k, s) in progs[i].iter().enumerate() {
            c.get_sheet_mut(&0).unwrap().get_cell_mut((1, k as u32 + 1)).set_value_string(s.clone());
        }
        c
    };
    let base = mk(&progs[0]);
    let books: Vec<Arc<Spreadsheet>> = (0..n)
        .map(|i| match &shared {
            Some(s) => s.clone(),
            None => Arc::new(derive(&base, i)),
        })
        .collect();
    // solo saves (the reference).  For clones the reference is taken from a workbook built the same way from its
    // OWN freshly read base, saved alone: it shares nothing with the workbooks the savers work on (nor with the
    // other references), so a save that damages state shared between clones cannot spoil it
    let solo: Vec<String> = (0..n)
        .map(|i| {
            let b: Arc<Spreadsheet> = match &shared {
                Some(s) => s.clone(),
                None => Arc::new(derive(&mk(&progs[0]), i)),
            };
            save_bytes(&b).and_then(|x| view_saved(&x)).map(|v| render(&v)).unwrap_or("solo-failed".into())
        })
        .collect();

    *SCHED.lock().unwrap() = Some(Sched { schedule, pos: 0, baton: None, trace: vec![], deadlock: false });
    *umya_spreadsheet::verif_hooks::YIELD.write().unwrap() = Some(yield_cb);
    let handles: Vec<_> = (0..n)
        .map(|i| {
            let b = books[i].clone();
            std::thread::spawn(move || {
                SAVER.with(|s| s.set(Some(i)));
                let r = guard(|| save_bytes(&b).and_then(|x| view_saved(&x)).map(|v| render(&v)));
                finish(i);
                match r {
                    Ok(Ok(s)) => s,
                    Ok(Err(e)) => format!("err:{}", e),
                    Err(_) => "panic".to_string(),
                }
            })
        })
        .collect();
    let results: Vec<String> = handles.into_iter().map(|h| h.join().unwrap_or("thread-panic".into())).collect();
    *umya_spreadsheet::verif_hooks::YIELD.write().unwrap() = None;
    let sched = SCHED.lock().unwrap().take().unwrap();
    let mut bad = vec![];
    if sched.deadlock {
        bad.push("a saver waited more than 5 s for its turn (deadlock under this schedule)".to_string());
    }
    for i in 0..n {
        if results[i] != solo[i] {
            bad.push(format!("saver {} wrote {} but alone writes {}", i, results[i], solo[i]));
        }
    }
    // the expected yield-point sequence per saver: enter, register*k, dump (only when it has strings), exit
    for i in 0..n {
        let tags: Vec<&str> = sched.trace.iter().filter(|t| t.0 == i).map(|t| t.1).collect();
        let mut want = vec!["enter"];
        for _ in 0..progs[i].len() + if mode == "lazymixed" && i == 0 { 2 } else { 0 } {
            want.push("register");
        }
        if !progs[i].is_empty() || lazy {
            want.push("dump");
        }
        want.push("exit");
        if tags != want {
            bad.push(format!("saver {} passed yield points {:?}, expected {:?}", i, tags, want));
        }
    }
    if bad.is_empty() {
        out.oracle_ok();
    } else {
        out.oracle_fail(Fail::new("schedule-dependent-save").with("op", line).with("detail", bad.join("; ")));
    }
    (results.join(" # "), true)
}

/// `c16 stress <mode> <savers> <cells> <rounds>`: the same workbooks saved by free-running OS threads (no
/// yield-point scheduler), several rounds; every file must be the one its workbook gives when saved alone.
/// Exploration only (the OS picks the interleavings): it reaches races INSIDE one table operation, which the
/// cooperative scheduler cannot, e.g. state shared through a process-wide static.
fn stress(out: &mut Out, line: &str, a: &[&str]) -> (String, bool) {
    let mode = a[2];
    let k: usize = a[3].parse().unwrap_or(4);
    let cells: usize = a[4].parse().unwrap_or(1000);
    let rounds: usize = a[5].parse().unwrap_or(3);
    let labels = ["alpha", "beta", "gamma", "delta", "a&b", " pad "];
    let strings = |i: usize| -> Vec<String> { (0..cells).map(|r| labels[(r * 5 + i * (1 + r % 3)) % labels.len()].to_string()).collect() };
    let lazy = mode.starts_with("lazy");
    let base = if lazy { lazy_book_with(&strings(0)) } else { book_with(&strings(0)) };
    let shared = Arc::new(base.clone());
    let books: Vec<Arc<Spreadsheet>> = (0..k)
        .map(|i| {
            if mode.ends_with("same") {
                shared.clone()
            } else {
                let mut c = base.clone();
                for (r, s) in strings(i).iter().enumerate() {
                    c.get_sheet_mut(&0).unwrap().get_cell_mut((1, r as u32 + 1)).set_value_string(s.clone());
                }
                Arc::new(c)
            }
        })
        .collect();
    let one = |b: &Spreadsheet| -> String {
        match guard(|| save_bytes(b).and_then(|x| view_saved(&x)).map(|v| render(&v))) {
            Ok(Ok(s)) => s,
            Ok(Err(e)) => format!("err:{}", e),
            Err(_) => "panic".to_string(),
        }
    };
    let solo: Vec<String> = books.iter().map(|b| one(b)).collect();
    *umya_spreadsheet::verif_hooks::YIELD.write().unwrap() = None;
    let mut bad = vec![];
    for round in 0..rounds {
        let gate = Arc::new(std::sync::Barrier::new(k));
        let handles: Vec<_> = books
            .iter()
            .map(|b| {
                let (b, gate) = (b.clone(), gate.clone());
                std::thread::spawn(move || {
                    gate.wait();
                    match guard(|| save_bytes(&b).and_then(|x| view_saved(&x)).map(|v| render(&v))) {
                        Ok(Ok(s)) => s,
                        Ok(Err(e)) => format!("err:{}", e),
                        Err(_) => "panic".to_string(),
                    }
                })
            })
            .collect();
        for (i, h) in handles.into_iter().enumerate() {
            let r = h.join().unwrap_or("thread-panic".into());
            if r != solo[i] {
                let at = r.bytes().zip(solo[i].bytes()).position(|(x, y)| x != y).unwrap_or(0);
                bad.push(format!("round {} saver {}: differs from its solo save at byte {} of the view ({} vs {} bytes)", round, i, at, r.len(), solo[i].len()));
            }
        }
    }
    if bad.is_empty() {
        out.oracle_ok();
        ("all-equal-solo".into(), true)
    } else {
        let n = bad.len();
        bad.truncate(4);
        out.oracle_fail(Fail::new("free-running-savers-differ-from-solo").with("op", line).with("detail", format!("{} of {} concurrent saves differ; {}", n, rounds * k, bad.join("; "))));
        (format!("{}-of-{}-differ", n, rounds * k), true)
    }
}

fn interleavings(lens: &[usize]) -> Vec<String> {
    fn rec(left: &mut Vec<usize>, cur: &mut String, out: &mut Vec<String>) {
        if left.iter().all(|x| *x == 0) {
            out.push(cur.clone());
            return;
        }
        for i in 0..left.len() {
            if left[i] > 0 {
                left[i] -= 1;
                cur.push(char::from_digit(i as u32, 10).unwrap());
                rec(left, cur, out);
                cur.pop();
                left[i] += 1;
            }
        }
    }
    let mut out = vec![];
    rec(&mut lens.to_vec(), &mut String::new(), &mut out);
    out
}

fn steps(p: &str, lazy: bool) -> usize {
    let k = if p == "-" { 0 } else { p.split(',').count() };
    if k == 0 && !lazy {
        2
    } else {
        k + 3
    }
}

pub fn gen(tier: Tier, seed: u64) -> Vec<String> {
    let mut rng = Rng::new(seed ^ 0xC16);
    let mut v = vec![];
    // (mode, programs): equal, disjoint, overlapping string sets; shared object and clones
    let two: Vec<(&str, Vec<&str>)> = vec![
        ("same", vec!["a,b", "a,b"]),
        ("same", vec!["a,b,c", "a,b,c"]),
        ("clone", vec!["a,b", "a,b"]),
        ("clone", vec!["a,b", "c,d"]),
        ("clone", vec!["a,b", "b,c"]),
        ("clone", vec!["b,a", "a,b"]),
        ("clone", vec!["a,b,a", "b"]),
        ("clone", vec!["a", "-"]),
        ("clone", vec!["a,b,c", "c,b,a"]),
        ("clone", vec!["a,b,c", "d,e,f"]),
        // lazily read workbook with a raw sheet: the save seeds its table with the loaded one (x, y, r)
        ("lazysame", vec!["a,b", "a,b"]),
        ("lazysame", vec!["a,x,b", "a,x,b"]),
        ("lazyclone", vec!["a,b", "a,b"]),
        ("lazyclone", vec!["a,b", "c,d"]),
        ("lazyclone", vec!["a,r", "b,a"]),
        ("lazyclone", vec!["a", "-"]),
        ("lazyclone", vec!["a,b,c", "c,d,a"]),
        // a lazily read workbook and its clones: saver 0's copy is fully deserialized, the others keep the raw sheet
        ("lazymixed", vec!["a,b", "a,b"]),
        ("lazymixed", vec!["a", "c,d"]),
        ("lazymixed", vec!["x,q", "r,a"]),
    ];
    for (mode, ps) in &two {
        let mut lens: Vec<usize> = ps.iter().map(|p| steps(p, mode.starts_with("lazy"))).collect();
        if *mode == "lazymixed" {
            lens[0] += 2; // the two cells of the second sheet, deserialized in saver 0's copy
        }
        let all = interleavings(&lens);
        // quick: every interleaving of the 2-string configurations, a sample of the 3-string ones
        let take_all = tier == Tier::Thorough || lens.iter().sum::<usize>() <= 10;
        for s in &all {
            if take_all || rng.chance(1, 6) {
                v.push(format!("c16 run {} {} {}", mode, s, ps.join(" ")));
            }
        }
    }
    // free-running threads
    for (mode, k, cells, rounds) in [("clone", 4, 1500, 3), ("same", 4, 1500, 2), ("lazyclone", 3, 800, 2)] {
        let f = if tier == Tier::Thorough { 4 } else { 1 };
        v.push(format!("c16 stress {} {} {} {}", mode, k, cells, rounds * f));
    }
    let three: Vec<(&str, Vec<&str>)> = vec![
        ("same", vec!["a", "a", "a"]),
        ("clone", vec!["a", "b", "a"]),
        ("clone", vec!["a,b", "b", "a"]),
        ("clone", vec!["a,b", "b,c", "c,a"]),
        ("same", vec!["a,b", "a,b", "a,b"]),
        ("lazysame", vec!["a,b", "a,b", "a,b"]),
        ("lazyclone", vec!["a,b", "b,c", "c,a"]),
    ];
    for (mode, ps) in &three {
        let lens: Vec<usize> = ps.iter().map(|p| steps(p, mode.starts_with("lazy"))).collect();
        let all = interleavings(&lens);
        let denom = if tier == Tier::Thorough { 1 } else { (all.len() as u64 / 150).max(1) };
        for s in &all {
            if denom == 1 || rng.chance(1, denom) {
                v.push(format!("c16 run {} {} {}", mode, s, ps.join(" ")));
            }
        }
    }
    v
}

pub fn run(out: &mut Out, tier: Tier, seed: u64, replay: Option<Vec<String>>) {
    let replaying = replay.is_some();
    let mut ops = match replay {
        Some(r) => r,
        None => gen(tier, seed),
    };
    // A wall-clock budget keeps the tier inside its time limit on a loaded machine: the generated schedules are
    // visited in a fixed pseudo-random order (a stride permutation), so that stopping early leaves a uniform sample of
    // every configuration instead of losing the last ones; how many were visited is written to the evidence.
    let budget = std::time::Duration::from_secs(
        std::env::var("UMYA_C16_BUDGET_S").ok().and_then(|x| x.parse().ok()).unwrap_or(if tier == Tier::Thorough { 1000 } else { 240 }),
    );
    if !replaying && ops.len() > 1 {
        let n = ops.len();
        let mut stride = 1_000_003usize % n;
        while stride == 0 || gcd(stride, n) != 1 {
            stride = (stride + 1) % n;
            if stride == 0 {
                stride = 1;
            }
        }
        let mut perm = Vec::with_capacity(n);
        let mut k = 0usize;
        for _ in 0..n {
            perm.push(std::mem::take(&mut ops[k]));
            k = (k + stride) % n;
        }
        ops = perm;
    }
    let t0 = std::time::Instant::now();
    let total = ops.len();
    let mut done = 0usize;
    for op in ops {
        if !replaying && t0.elapsed() > budget {
            break;
        }
        out.begin(&op);
        let (reply, nt) = exec(out, &op);
        let a: Vec<&str> = op.split(' ').collect();
        out.count(&format!("savers.{}", a.len().saturating_sub(4)));
        out.count(&format!("mode.{}", a.get(2).unwrap_or(&"?")));
        out.end(&op, &reply, nt);
        done += 1;
    }
    if done < total {
        out.notes.push(format!("time budget of {} s reached: {} of {} generated schedules visited (pseudo-random order, every configuration sampled)", budget.as_secs(), done, total));
    } else {
        out.notes.push(format!("all {} generated schedules visited", total));
    }
}

fn gcd(a: usize, b: usize) -> usize {
    if b == 0 { a } else { gcd(b, a % b) }
}
