//! C15 — protection password hashes (sheet / workbook / revisions).
//!
//! Request lines (see lean/Umya/Driver/C15.lean for the model side):
//!   c15 hash <pw> <salt-hex> <spin>          private convert_password_to_hash through the cfg(umya_verif) hook
//!   c15 set <kind> <pw> <pre>                 the real public setter on a real workbook, save to memory, reload;
//!                                             reply = the salt-independent part; emits a derived `stored` line
//!   c15 stored <kind> <pw> <pre> <salt-b64> <part>
//!                                             the salt-dependent observation (memory, saved XML attributes, reloaded) and
//!                                             the characters of the real saved part that holds the protection element
//!                                             (xl/worksheets/sheet1.xml | xl/workbook.xml, hex of UTF-8): the driver runs the
//!                                             XML 1.0 reader, root.kid?, the model's set_attributes on them and renders the
//!                                             model's element; this side states what must come out (`part=` field)
//!   c15 stored <kind> <pw> <pre> <salt-b64>   the older form without the part (replay of old evidence lines)
//!
//! Oracle (independent of the model): the hash recomputed from the standard with the sha2 crate,
//! wrong password differs, salt fresh between two calls, no legacy attribute, no clear password in
//! getters / XML parts, everything identical after save + reload.
use crate::common::*;
use crate::ind;
use std::io::Cursor;
use umya_spreadsheet::structs::{SheetProtection, Spreadsheet, WorkbookProtection};

const KINDS: [&str; 3] = ["sheet", "workbook", "revisions"];

fn names(kind: &str) -> [&'static str; 5] {
    match kind {
        "sheet" => ["algorithmName", "hashValue", "saltValue", "spinCount", "password"],
        "workbook" => ["workbookAlgorithmName", "workbookHashValue", "workbookSaltValue", "workbookSpinCount", "workbookPassword"],
        _ => ["revisionsAlgorithmName", "revisionsHashValue", "revisionsSaltValue", "revisionsSpinCount", "revisionsPassword"],
    }
}

/// (alg, salt, spin, hash, raw) through the public getters
#[derive(Clone, PartialEq, Eq, Debug)]
struct Obs {
    alg: String,
    salt: String,
    spin: u32,
    hash: String,
    raw: String,
}
impl Obs {
    fn show(&self) -> String {
        format!("{}|{}|{}|{}|{}", self.alg, self.salt, self.spin, self.hash, self.raw)
    }
}

fn obs_sheet(p: &SheetProtection) -> Obs {
    Obs {
        alg: p.get_algorithm_name().to_string(),
        salt: p.get_salt_value().to_string(),
        spin: *p.get_spin_count(),
        hash: p.get_hash_value().to_string(),
        raw: p.get_password_raw().to_string(),
    }
}
fn obs_wb(p: &WorkbookProtection, kind: &str) -> Obs {
    if kind == "workbook" {
        Obs {
            alg: p.get_workbook_algorithm_name().to_string(),
            salt: p.get_workbook_salt_value().to_string(),
            spin: *p.get_workbook_spin_count(),
            hash: p.get_workbook_hash_value().to_string(),
            raw: p.get_workbook_password_raw().to_string(),
        }
    } else {
        Obs {
            alg: p.get_revisions_algorithm_name().to_string(),
            salt: p.get_revisions_salt_value().to_string(),
            spin: *p.get_revisions_spin_count(),
            hash: p.get_revisions_hash_value().to_string(),
            raw: p.get_revisions_password_raw().to_string(),
        }
    }
}

fn observe(book: &Spreadsheet, kind: &str) -> Option<Obs> {
    if kind == "sheet" {
        book.get_sheet(&0).and_then(|s| s.get_sheet_protection()).map(obs_sheet)
    } else {
        book.get_workbook_protection().map(|p| obs_wb(p, kind))
    }
}

/// pre-state through public setters (0 fresh, 1 legacy raw hash, 2 old hashed values + legacy raw hash);
/// a few boolean options are switched on as well (outside the model)
fn prepare(book: &mut Spreadsheet, kind: &str, pre: u32) {
    if kind == "sheet" {
        let p = book.get_sheet_mut(&0).unwrap().get_sheet_protection_mut();
        p.set_sheet(true).set_objects(true);
        if pre >= 1 {
            p.set_password_raw("CC1A");
        }
        if pre >= 2 {
            p.set_algorithm_name("SHA-1").set_hash_value("AAAA").set_salt_value("BBBB").set_spin_count(5);
        }
    } else {
        let p = book.get_workbook_protection_mut();
        p.set_lock_structure(true);
        if kind == "workbook" {
            if pre >= 1 {
                p.set_workbook_password_raw("CC1A");
            }
            if pre >= 2 {
                p.set_workbook_algorithm_name("SHA-1").set_workbook_hash_value("AAAA").set_workbook_salt_value("BBBB").set_workbook_spin_count(5);
            }
        } else {
            if pre >= 1 {
                p.set_revisions_password_raw("CC1A");
            }
            if pre >= 2 {
                p.set_revisions_algorithm_name("SHA-1").set_revisions_hash_value("AAAA").set_revisions_salt_value("BBBB").set_revisions_spin_count(5);
            }
        }
    }
}

/// what the caller does with the option switches AFTER the password was set (post = pre / 3):
/// 0 nothing, 1 every switch off, 2 every switch off then on, 3 the main switch off then on, 4 every switch on.
/// None of them may touch the stored verifier.
fn post_flags(book: &mut Spreadsheet, kind: &str, post: u32) {
    let rounds: &[bool] = match post {
        1 => &[false],
        2 | 3 => &[false, true],
        4 => &[true],
        _ => &[],
    };
    for &v in rounds {
        if kind == "sheet" {
            let p = book.get_sheet_mut(&0).unwrap().get_sheet_protection_mut();
            p.set_sheet(v);
            if post != 3 {
                p.set_objects(v).set_delete_rows(v).set_insert_columns(v).set_delete_columns(v).set_insert_hyperlinks(v).set_auto_filter(v).set_scenarios(v);
                p.set_format_cells(v).set_format_columns(v).set_insert_rows(v).set_format_rows(v).set_pivot_tables(v).set_select_locked_cells(v).set_select_unlocked_cells(v).set_sort(v);
            }
        } else {
            let p = book.get_workbook_protection_mut();
            if kind == "workbook" {
                p.set_lock_structure(v);
            } else {
                p.set_lock_revision(v);
            }
            if post != 3 {
                p.set_lock_structure(v).set_lock_revision(v).set_lock_windows(v);
            }
        }
    }
}

fn apply_setter(book: &mut Spreadsheet, kind: &str, pw: &str) {
    match kind {
        "sheet" => {
            book.get_sheet_mut(&0).unwrap().get_sheet_protection_mut().set_password(pw);
        }
        "workbook" => {
            book.get_workbook_protection_mut().set_workbook_password(pw);
        }
        _ => {
            book.get_workbook_protection_mut().set_revisions_password(pw);
        }
    }
}

fn save(book: &Spreadsheet) -> Result<Vec<u8>, String> {
    let mut cur = Cursor::new(Vec::new());
    umya_spreadsheet::writer::xlsx::write_writer(book, &mut cur).map_err(|e| format!("{:?}", e))?;
    Ok(cur.into_inner())
}

/// attributes of the protection element of `kind` in the saved package, restricted to the five
/// password-related names, document order, raw (escaped) values
fn xml_attrs(parts: &[(String, Vec<u8>)], kind: &str) -> Option<Vec<(String, String)>> {
    let (part, tag) = if kind == "sheet" { ("xl/worksheets/sheet1.xml", "sheetProtection") } else { ("xl/workbook.xml", "workbookProtection") };
    let data = &parts.iter().find(|p| p.0 == part)?.1;
    let xml = String::from_utf8_lossy(data);
    let at = ind::start_tag_attrs(&xml, tag)?;
    let ns = names(kind);
    Some(at.into_iter().filter(|a| ns.contains(&a.0.as_str())).collect())
}

fn part_name(kind: &str) -> &'static str {
    if kind == "sheet" { "xl/worksheets/sheet1.xml" } else { "xl/workbook.xml" }
}

/// the characters of the part that carries the protection element of `kind`
fn part_of(parts: &[(String, Vec<u8>)], kind: &str) -> Option<Vec<u8>> {
    parts.iter().find(|p| p.0 == part_name(kind)).map(|p| p.1.clone())
}

/// what the driver has to find in the part: the record read = the getters after the setter, the element read
/// = the model's element (tree and characters), and the options `prepare` switched on (outside the C15 model)
fn part_expect(kind: &str, mem: &Obs, post: u32) -> String {
    // the switches `prepare` and `post_flags` have set, in the writer's attribute order (a switch is written once it was set)
    const SHEET: [&str; 16] = ["sheet", "objects", "deleteRows", "insertColumns", "deleteColumns", "insertHyperlinks", "autoFilter", "scenarios", "formatCells", "formatColumns", "insertRows", "formatRows", "pivotTables", "selectLockedCells", "selectUnlockedCells", "sort"];
    const BOOK: [&str; 3] = ["lockRevision", "lockStructure", "lockWindows"];
    let all = |names: &[&str], v: u32| names.iter().map(|n| format!("{}={}", n, v)).collect::<Vec<_>>().join(",");
    let flags = match (kind == "sheet", post) {
        (true, 1) => all(&SHEET, 0),
        (true, 2) | (true, 4) => all(&SHEET, 1),
        (true, _) => "sheet=1,objects=1".to_string(),
        (false, 1) => all(&BOOK, 0),
        (false, 2) | (false, 4) => all(&BOOK, 1),
        (false, 3) if kind == "revisions" => "lockRevision=1,lockStructure=1".to_string(),
        (false, _) => "lockStructure=1".to_string(),
    };
    format!("read:{};tree:same;chars:found;flags:{}", mem.show(), flags)
}

fn xml_escape(s: &str) -> String {
    s.replace('&', "&amp;").replace('<', "&lt;").replace('>', "&gt;").replace('"', "&quot;").replace('\'', "&apos;")
}

struct SetResult {
    mem: Obs,
    xml: Vec<(String, String)>,
    reload: Obs,
    part: Vec<u8>,
}

/// run setter → observe → save → scan → reload → observe, evaluating the oracle on the way
fn run_set(out: &mut Out, line: &str, kind: &str, pw: &str, pre: u32) -> Result<SetResult, String> {
    let (pre, post) = (pre % 3, pre / 3);
    let mut book = umya_spreadsheet::new_file();
    prepare(&mut book, kind, pre);
    let mut twin = book.clone();
    apply_setter(&mut book, kind, pw);
    post_flags(&mut book, kind, post);
    let mem = observe(&book, kind).ok_or("no-protection-object")?;
    let fail = |out: &mut Out, class: &str, detail: String| {
        out.oracle_fail(Fail::new(class).with("op", line).with("kind", kind).with("pw", pw).with("detail", detail));
    };
    // (a) the standard's algorithm reproduces the stored hash
    let mut ok = true;
    match ind::unb64(&mem.salt) {
        Some(salt) => {
            let want = ind::b64(&ind::ecma_pw_hash(pw, &salt, mem.spin));
            if mem.alg != "SHA-512" || mem.spin != 100000 || salt.len() != 16 || want != mem.hash {
                ok = false;
                fail(out, "hash-not-ecma", format!("stored={} recomputed={}", mem.show(), want));
            }
            // (f) another password does not verify
            let other = format!("{}x", pw);
            if ind::b64(&ind::ecma_pw_hash(&other, &salt, mem.spin)) == mem.hash {
                ok = false;
                fail(out, "other-password-verifies", other);
            }
        }
        None => {
            ok = false;
            fail(out, "salt-not-base64", mem.salt.clone());
        }
    }
    // (b) no legacy value in the model
    if !mem.raw.is_empty() {
        ok = false;
        fail(out, "legacy-raw-kept", mem.raw.clone());
    }
    // (e) fresh salt on a second call
    apply_setter(&mut twin, kind, pw);
    let mem2 = observe(&twin, kind).ok_or("no-protection-object")?;
    if mem2.salt == mem.salt || mem2.hash == mem.hash {
        ok = false;
        fail(out, "salt-not-fresh", format!("{} / {}", mem.salt, mem2.salt));
    }
    // save, scan
    let bytes = save(&book)?;
    let parts = ind::zip_parts(&bytes)?;
    let xml = xml_attrs(&parts, kind).ok_or("protection-element-missing")?;
    let part = part_of(&parts, kind).ok_or("protection-part-missing")?;
    if std::str::from_utf8(&part).is_err() {
        ok = false;
        fail(out, "c15-xml-part-not-utf8", part_name(kind).to_string());
    }
    out.count(if kind == "sheet" { "xmlpart.sheet-part-sent" } else { "xmlpart.workbook-part-sent" });
    out.count(&format!("xmlpart.kind.{}", kind));
    let ns = names(kind);
    let get = |n: &str| xml.iter().find(|a| a.0 == n).map(|a| a.1.clone()).unwrap_or_default();
    if get(ns[0]) != mem.alg || get(ns[1]) != mem.hash || get(ns[2]) != mem.salt || get(ns[3]) != mem.spin.to_string() {
        ok = false;
        fail(out, "xml-differs-from-model", format!("{:?}", xml));
    }
    if xml.iter().any(|a| a.0 == ns[4]) {
        ok = false;
        fail(out, "legacy-attribute-written", format!("{:?}", xml));
    }
    // (d) clear password nowhere (only meaningful for passwords long enough not to occur by chance)
    if pw.len() >= 8 {
        let needles: Vec<Vec<u8>> = vec![pw.as_bytes().to_vec(), xml_escape(pw).into_bytes(), ind::utf16le(pw), ind::b64(pw.as_bytes()).into_bytes()];
        for (name, data) in &parts {
            if needles.iter().any(|n| ind::contains(data, n)) {
                ok = false;
                fail(out, "clear-password-in-file", name.clone());
            }
        }
        for v in [&mem.alg, &mem.salt, &mem.hash, &mem.raw] {
            if v.contains(pw) {
                ok = false;
                fail(out, "clear-password-in-model", v.to_string());
            }
        }
        out.count("clear-scan.done");
    } else {
        out.count("clear-scan.skipped-short-password");
    }
    // reload
    let back = umya_spreadsheet::reader::xlsx::read_reader(Cursor::new(bytes), true).map_err(|e| format!("reload: {:?}", e))?;
    let reload = observe(&back, kind).ok_or("protection-lost-on-reload")?;
    if reload != mem {
        ok = false;
        fail(out, "reload-differs", format!("{} vs {}", mem.show(), reload.show()));
    }
    if ok {
        out.oracle_ok();
    }
    Ok(SetResult { mem, xml, reload, part })
}

fn show_xml(xml: &[(String, String)]) -> String {
    xml.iter().map(|a| format!("{}={}", a.0, a.1)).collect::<Vec<_>>().join(";")
}

/// Replay of a lone `stored` line: the salt cannot be forced through the public setter, so the
/// object is assembled with the public field setters from the hook's hash, then really saved,
/// scanned and reloaded.
fn stored_replay(out: &mut Out, line: &str, kind: &str, pw: &str, pre: u32, salt64: &str, sent: Option<Vec<u8>>) -> Result<String, String> {
    let salt = ind::unb64(salt64).ok_or("bad-salt")?;
    let h = umya_spreadsheet::helper::crypt::verif_convert_password_to_hash(pw, "SHA-512", &salt, 100000);
    let hash64 = ind::b64(&h);
    let (pre, post) = (pre % 3, pre / 3);
    let mut book = umya_spreadsheet::new_file();
    prepare(&mut book, kind, pre);
    match kind {
        "sheet" => {
            let p = book.get_sheet_mut(&0).unwrap().get_sheet_protection_mut();
            p.set_algorithm_name("SHA-512").set_salt_value(salt64).set_spin_count(100000).set_hash_value(hash64);
            p.remove_password_raw();
        }
        "workbook" => {
            let p = book.get_workbook_protection_mut();
            p.set_workbook_algorithm_name("SHA-512").set_workbook_salt_value(salt64).set_workbook_spin_count(100000).set_workbook_hash_value(hash64);
            p.remove_workbook_password_raw();
        }
        _ => {
            let p = book.get_workbook_protection_mut();
            p.set_revisions_algorithm_name("SHA-512").set_revisions_salt_value(salt64).set_revisions_spin_count(100000).set_revisions_hash_value(hash64);
            p.remove_revisions_password_raw();
        }
    }
    post_flags(&mut book, kind, post);
    let mem = observe(&book, kind).ok_or("no-protection-object")?;
    let bytes = save(&book)?;
    let parts = ind::zip_parts(&bytes)?;
    let xml = xml_attrs(&parts, kind).ok_or("protection-element-missing")?;
    let back = umya_spreadsheet::reader::xlsx::read_reader(Cursor::new(bytes), true).map_err(|e| format!("reload: {:?}", e))?;
    let reload = observe(&back, kind).ok_or("protection-lost-on-reload")?;
    let base = format!("mem={} xml={} reload={}", mem.show(), show_xml(&xml), reload.show());
    match sent {
        None => Ok(base),
        Some(sent) => {
            // the part in the line is the one the original run saved; the one assembled here must be the same characters
            let part = part_of(&parts, kind).ok_or("protection-part-missing")?;
            if part == sent {
                out.oracle_ok();
            } else {
                out.oracle_fail(Fail::new("c15-xml-part-mismatch").with("op", line).with("kind", kind).with("pw", pw).with("detail", "the part in the replayed line differs from the part saved now"));
            }
            out.count(if kind == "sheet" { "xmlpart.sheet-part-sent" } else { "xmlpart.workbook-part-sent" });
            Ok(format!("{} part={}", base, part_expect(kind, &mem, post)))
        }
    }
}

fn pw_of(h: &str) -> String {
    String::from_utf8(unhex(h)).unwrap_or_default()
}

/// Returns (reply, nontrivial, derived request lines with their implementation replies).
pub fn exec(out: &mut Out, line: &str) -> (String, bool, Vec<(String, String)>) {
    let a: Vec<&str> = line.split(' ').collect();
    match a.get(1).copied().unwrap_or("") {
        "hash" if a.len() == 5 => {
            let pw = pw_of(a[2]);
            let salt = unhex(a[3]);
            let spin: usize = a[4].parse().unwrap_or(0);
            let r = guard(|| umya_spreadsheet::helper::crypt::verif_convert_password_to_hash(&pw, "SHA-512", &salt, spin));
            match r {
                Ok(h) => {
                    let want = ind::ecma_pw_hash(&pw, &salt, spin as u32);
                    if want == h {
                        out.oracle_ok();
                    } else {
                        out.oracle_fail(Fail::new("hash-not-ecma").with("op", line).with("pw", &pw).with("got", hexb(&h)).with("want", hexb(&want)));
                    }
                    out.count(&format!("hash.spin.{}", if spin >= 100000 { "100000".to_string() } else if spin > 10 { "11..".to_string() } else { spin.to_string() }));
                    out.count(&format!("hash.pwlen16.{}", match pw.encode_utf16().count() { 0 => "0", 1..=15 => "1-15", 16..=254 => "16-254", _ => "255+" }));
                    (ind::b64(&h), true, vec![])
                }
                Err(_) => ("panic".into(), false, vec![]),
            }
        }
        "set" if a.len() == 5 => {
            let kind = a[2];
            let pw = pw_of(a[3]);
            let pre: u32 = a[4].parse().unwrap_or(0);
            if !KINDS.contains(&kind) {
                return ("bad-op".into(), false, vec![]);
            }
            out.count(&format!("set.kind.{}", kind));
            out.count(&format!("set.pre.{}", pre % 3));
            out.count(&format!("set.post-switches.{}", pre / 3));
            out.count(&format!("set.pw.{}", if pw.is_empty() { "empty" } else if pw.is_ascii() { "ascii" } else if pw.chars().any(|c| c as u32 > 0xffff) { "non-bmp" } else { "bmp" }));
            match guard(|| run_set(out, line, kind, &pw, pre)) {
                Ok(Ok(r)) => {
                    let nm: Vec<&str> = r.xml.iter().map(|x| x.0.as_str()).collect();
                    let reply = format!(
                        "ok alg={} spin={} raw={} saltlen={} hashlen={} names={}",
                        r.mem.alg, r.mem.spin, r.mem.raw, r.mem.salt.len(), r.mem.hash.len(), nm.join(",")
                    );
                    let derived = format!("c15 stored {} {} {} {} {}", kind, a[3], pre, hex(&r.mem.salt), hexb(&r.part));
                    let dreply = format!("mem={} xml={} reload={} part={}", r.mem.show(), show_xml(&r.xml), r.reload.show(), part_expect(kind, &r.mem, pre / 3));
                    (reply, true, vec![(derived, dreply)])
                }
                Ok(Err(e)) => {
                    out.oracle_fail(Fail::new("set-failed").with("op", line).with("kind", kind).with("pw", &pw).with("detail", &e));
                    (format!("err {}", e.replace(' ', "_")), false, vec![])
                }
                Err(_) => {
                    out.oracle_fail(Fail::new("set-panicked").with("op", line).with("kind", kind).with("pw", &pw));
                    ("panic".into(), false, vec![])
                }
            }
        }
        "stored" if a.len() == 6 || a.len() == 7 => {
            // only reached in replay mode (in a normal run the line is emitted together with its reply)
            let kind = a[2];
            let pw = pw_of(a[3]);
            let pre: u32 = a[4].parse().unwrap_or(0);
            let salt64 = pw_of(a[5]);
            let sent = a.get(6).map(|h| unhex(h));
            match guard(|| stored_replay(out, line, kind, &pw, pre, &salt64, sent)) {
                Ok(Ok(s)) => (s, true, vec![]),
                Ok(Err(e)) => (format!("err {}", e.replace(' ', "_")), false, vec![]),
                Err(_) => ("panic".into(), false, vec![]),
            }
        }
        "freshseq" if a.len() == 3 => {
            let seed: u64 = a[2].parse().unwrap_or(0);
            match guard(|| fresh_sequence(seed)) {
                Ok(Ok(n)) => {
                    out.oracle_ok();
                    (format!("ok ## {} setter calls on one workbook, all salts pairwise distinct", n), true, vec![])
                }
                Ok(Err(e)) => {
                    out.oracle_fail(Fail::new("salt-not-fresh-across-calls").with("op", line).with("detail", &e));
                    (format!("ok ## {}", e.replace(' ', "_")), true, vec![])
                }
                Err(_) => {
                    out.oracle_fail(Fail::new("setter-panic").with("op", line));
                    ("panic".into(), false, vec![])
                }
            }
        }
        _ => ("bad-op".into(), false, vec![]),
    }
}

/// One workbook object, a sequence of setter calls over the three kinds (same and different passwords,
/// a kind set again while the other verifiers are in place).  "The salt is fresh on every call": the salt a
/// call leaves behind differs from EVERY salt seen before on this object (in any of the three slots), the
/// other two slots are left alone, and the stored hash is the ECMA-376 hash of that call's password.
fn fresh_sequence(seed: u64) -> Result<usize, String> {
    let mut rng = Rng::new(seed ^ 0xC15F);
    let mut book = umya_spreadsheet::new_file();
    let pws = ["same", "same", "other", "", "same"];
    let mut seen: Vec<String> = vec![];
    let mut calls = 0usize;
    let order: Vec<usize> = match seed % 4 {
        0 => vec![1, 2, 1, 2, 0, 0],          // workbook, revisions, workbook again, revisions again, sheet twice
        1 => vec![2, 1, 2, 0, 1, 2],
        2 => vec![0, 1, 2, 2, 1, 0],
        _ => (0..6).map(|_| rng.below(3) as usize).collect(),
    };
    for (i, k) in order.iter().enumerate() {
        let kind = KINDS[*k];
        let pw = pws[(i + seed as usize) % pws.len()];
        let before: Vec<Option<Obs>> = KINDS.iter().map(|kd| observe(&book, kd)).collect();
        apply_setter(&mut book, kind, pw);
        calls += 1;
        let after: Vec<Option<Obs>> = KINDS.iter().map(|kd| observe(&book, kd)).collect();
        let me = after[*k].as_ref().ok_or("no protection object")?;
        if seen.contains(&me.salt) {
            return Err(format!("call {} ({} password) left a salt that was already used on this workbook: {}", i, kind, me.salt));
        }
        let salt = ind::unb64(&me.salt).ok_or("salt not base64")?;
        if salt.len() != 16 || ind::b64(&ind::ecma_pw_hash(pw, &salt, me.spin)) != me.hash {
            return Err(format!("call {} ({} password): stored hash is not the ECMA-376 hash of the password under the stored salt", i, kind));
        }
        for (j, kd) in KINDS.iter().enumerate() {
            // (a protection object that did not exist before the call has no verifier to keep)
            if j != *k && before[j].is_some() && before[j].as_ref().map(|o| o.show()) != after[j].as_ref().map(|o| o.show()) {
                return Err(format!("call {} ({} password) changed the {} verifier", i, kind, kd));
            }
        }
        seen.push(me.salt.clone());
    }
    Ok(calls)
}

pub fn passwords(tier: Tier, rng: &mut Rng) -> Vec<String> {
    let mut v: Vec<String> = vec![
        "".into(),
        "password".into(),
        "a".into(),
        "P@ss w0rd<&>\"'\\".into(),
        "пароль-密码-كلمة".into(),
        "\u{1F600}\u{1F511} non-BMP \u{1D4B3}\u{10FFFF}".into(),
        "x".repeat(255),
        (0..255).map(|i| ['\u{1F600}', 'é', 'Z', '\u{4E2D}'][i % 4]).collect(),
    ];
    if tier == Tier::Thorough {
        let alpha: Vec<char> = "abcXYZ019 &<>\"'\\/+=\u{e9}\u{4e2d}\u{1F600}\u{10000}\u{FFFE}\u{A0}\t".chars().collect();
        while v.len() < 60 {
            let n = match rng.below(4) {
                0 => rng.range(1, 4),
                1 => rng.range(5, 20),
                2 => rng.range(21, 100),
                _ => rng.range(200, 255),
            };
            v.push((0..n).map(|_| *rng.pick(&alpha)).collect());
        }
    }
    v
}

pub fn gen(tier: Tier, seed: u64) -> Vec<String> {
    let mut rng = Rng::new(seed);
    let pws = passwords(tier, &mut rng);
    let mut ops = vec![];
    // the hook: every password × boundary spin counts × salt shapes (cheap), a few at 100000
    let spins: &[usize] = &[0, 1, 2, 3, 10, 257];
    for (i, pw) in pws.iter().enumerate() {
        for (j, spin) in spins.iter().enumerate() {
            let salt: Vec<u8> = match (i + j) % 4 {
                0 => vec![],
                1 => (0..16).map(|_| rng.below(256) as u8).collect(),
                2 => vec![0xff; 16],
                _ => (0..rng.range(1, 40)).map(|_| rng.below(256) as u8).collect(),
            };
            ops.push(format!("c15 hash {} {} {}", hex(pw), hexb(&salt), spin));
        }
    }
    let n_full = if tier == Tier::Quick { 3 } else { 12 };
    for i in 0..n_full {
        let pw = &pws[(i * 5 + 1) % pws.len()];
        let salt: Vec<u8> = (0..16).map(|_| rng.below(256) as u8).collect();
        ops.push(format!("c15 hash {} {} 100000", hex(pw), hexb(&salt)));
    }
    // the public setters: every password × every kind, pre-state cycling
    for (i, pw) in pws.iter().enumerate() {
        for (k, kind) in KINDS.iter().enumerate() {
            ops.push(format!("c15 set {} {} {}", kind, hex(pw), (i + k) % 3));
            // the option switches are used after the password was set (post = 1..4, see post_flags)
            if i < 8 {
                ops.push(format!("c15 set {} {} {}", kind, hex(pw), (i + k) % 3 + 3 * (1 + (i + k) % 4)));
            }
        }
    }
    // freshness across calls and kinds on ONE workbook object (exploration: randomness is not a functional property)
    for s in 0..(if tier == Tier::Quick { 4 } else { 16 }) {
        ops.push(format!("c15 freshseq {}", s));
    }
    ops
}

pub fn run(out: &mut Out, tier: Tier, seed: u64, replay: Option<Vec<String>>) {
    let ops = match replay {
        Some(r) => r,
        None => gen(tier, seed),
    };
    for op in ops {
        let kind = op.split(' ').nth(1).unwrap_or("?").to_string();
        out.begin(&op);
        let (reply, nt, derived) = exec(out, &op);
        out.count(&format!("op.{}", kind));
        if reply == "panic" {
            out.count(&format!("panic.{}", kind));
        }
        out.end(&op, &reply, nt);
        for (dop, dreply) in derived {
            out.count("op.stored");
            out.case(&dop, &dreply, true);
        }
    }
}
