//! C06 — comments: text, VML shapes and their join to the comments by the cell a note shape names
//! (`c06 reset cmt <seed>`, `c06 reset cmtw <id>`, `c06 reset cmtp <seed>`, `c06 reset cmtf <corpus file>`).
//!
//! A case builds comments through the public API from generated values (texts with XML specials, blanks at the
//! ends, line breaks, rich runs with and without fonts; authors incl. the empty one; 0-12 comments on scattered
//! cells in random insertion order; anchors explicit and default; hidden / visible mixes), saves, reloads.
//! Oracle (implementation): the getter view of every comment before == after, in list order, fonts included;
//! `x:Row` / `x:Column` of the shape after reload must name the comment's own cell (the model's `norm`: the writer
//! sets them from the coordinate, whatever the shape held).
//! Tie (model): the real `comments{n}.xml` and `vmlDrawing{n}.vml` of the package go to the Lean driver
//! (`c06 cmt <specs> <hex comments part> <hex vml part>`), which lexes them with the independent XML reader and
//! answers (a) whether they are tree-equal to `writeComments` / `writeVml` of the specs, (b) the getter view of
//! `joinShapes (readComments ..) (readVml ..)` on the real trees — expected to equal the reloaded getters.
//! `cmtp`: a generated workbook is saved, the `v:shape` elements of every VML part are put into another order
//! (reversed / rotated / shuffled, what Excel does to `commentList` order) and the package is reloaded: every
//! comment must still have its own shape (oracle), and (b) on the permuted part (`C06_comment_join_by_cell`).
//! `cmtf`: a corpus file with comments: only (b), plus the check that every joined shape names its comment's cell
//! (a failure there is a reader defect on a real producer's file: C03 territory).
use crate::common::*;
use crate::wb;
use umya_spreadsheet::structs::vml::spreadsheet::*;
use umya_spreadsheet::structs::*;

pub const WITNESSES: &[&str] = &["no-column-target", "order", "blank-holders", "stale-target"];

const TEXT_ALPHABET: &str = "ab Z9<>&\"' \n\r\t\u{e9}\u{3000}\u{1F600};,:=";
const AUTHORS: &[&str] = &["", "Ann", "Bob & Co", "<x>", " lead blank", "\u{e9}ve", "a\"q'", "Z"];

fn rand_text(rng: &mut Rng, min: u64, max: u64) -> String {
    let chars: Vec<char> = TEXT_ALPHABET.chars().collect();
    let n = rng.range(min, max);
    (0..n).map(|_| *rng.pick(&chars)).collect()
}

fn tfb(v: Option<Option<&bool>>) -> &'static str {
    match v {
        None => "~",
        Some(None) => "b",
        Some(Some(true)) => "t",
        Some(Some(false)) => "f",
    }
}

fn opt_hex(s: &str) -> String {
    if s.is_empty() {
        "~".into()
    } else {
        format!("={}", hex(s))
    }
}

fn hex_or_dash(s: &str) -> String {
    if s.is_empty() {
        "-".into()
    } else {
        hex(s)
    }
}

fn font_sig(f: Option<&Font>) -> String {
    match f {
        None => "-".into(),
        Some(f) => format!("{}/{}/{}/{}/{}", hex(f.get_name()), f.get_size(), f.get_bold(), f.get_italic(), hex(f.get_color().get_argb())),
    }
}

/// the getter view of one comment; `fonts`: include the font signature (oracle) or only its presence (tie)
fn view(c: &Comment, fonts: bool) -> String {
    view_as(c, fonts, false)
}

/// `norm`: what the comment must come back as — `x:Row` / `x:Column` name the comment's own cell (zero-based)
fn view_as(c: &Comment, fonts: bool, norm: bool) -> String {
    let runs: Vec<String> = c
        .get_text()
        .get_rich_text_elements()
        .iter()
        .map(|r| format!("{}:{}", hex_or_dash(r.get_text()), if fonts { font_sig(r.get_font()) } else { (r.get_font().is_some() as u8).to_string() }))
        .collect();
    let sh = c.get_shape();
    let cd = sh.get_client_data();
    let a = cd.get_anchor();
    format!(
        "{},{},{},{},{},{},{}.{}.{}.{}.{}.{}.{}.{},{},{},{}",
        c.get_coordinate().to_string(),
        hex_or_dash(c.get_author()),
        if runs.is_empty() { "-".to_string() } else { runs.join("+") },
        opt_hex(sh.get_style()),
        tfb(cd.get_move_with_cells().map(|m| m.get_value())),
        tfb(cd.get_resize_with_cells().map(|m| m.get_value())),
        a.get_left_column(),
        a.get_left_offset(),
        a.get_top_row(),
        a.get_top_offset(),
        a.get_right_column(),
        a.get_right_offset(),
        a.get_bottom_row(),
        a.get_bottom_offset(),
        if norm { format!("={}", c.get_coordinate().get_row_num().saturating_sub(1)) } else { cd.get_comment_row_target().map(|t| format!("={}", t.get_value())).unwrap_or("~".into()) },
        if norm { format!("={}", c.get_coordinate().get_col_num().saturating_sub(1)) } else { cd.get_comment_column_target().map(|t| format!("={}", t.get_value())).unwrap_or("~".into()) },
        tfb(cd.get_visible().map(|m| m.get_value())),
    )
}

fn sheet_view(ws: &Worksheet, fonts: bool) -> String {
    let v: Vec<String> = ws.get_comments().iter().map(|c| view(c, fonts)).collect();
    if v.is_empty() {
        "-".into()
    } else {
        v.join("|")
    }
}

fn gen_comment(rng: &mut Rng, out: &mut Out, taken: &mut Vec<(u32, u32)>, authors: &[&str]) -> Comment {
    let cell = loop {
        let col = if rng.chance(1, 12) { *rng.pick(&[16384u32, 703, 27]) } else { rng.range(1, 30) as u32 };
        let row = if rng.chance(1, 12) { *rng.pick(&[1048576u32, 65536, 1000]) } else { rng.range(1, 60) as u32 };
        if !taken.contains(&(col, row)) {
            taken.push((col, row));
            break (col, row);
        }
    };
    let mut c = Comment::default();
    c.new_comment(cell);
    let au = *rng.pick(authors);
    c.set_author(au);
    out.count(if au.is_empty() { "cmt.author.empty" } else { "cmt.author.named" });
    match rng.below(6) {
        0 => {
            c.set_text_string("");
            out.count("cmt.text.plain-empty");
        }
        1 | 2 => {
            let mut rt = RichText::default();
            let n = rng.range(0, 4);
            for _ in 0..n {
                let mut te = TextElement::default();
                te.set_text(rand_text(rng, 0, 7));
                if rng.chance(2, 3) {
                    let f = te.get_font_mut();
                    f.set_bold(rng.chance(1, 2));
                    if rng.chance(1, 2) {
                        f.set_name(*rng.pick(&["Arial", "MS P Gothic", "A&B"]));
                    }
                    if rng.chance(1, 2) {
                        f.set_size(*rng.pick(&[9.0, 11.0, 12.5]));
                    }
                    if rng.chance(1, 3) {
                        f.get_color_mut().set_argb("FFFF0000");
                    }
                    out.count("cmt.run.font");
                } else {
                    out.count("cmt.run.plain");
                }
                rt.add_rich_text_elements(te);
            }
            out.count(&format!("cmt.text.rich-{}", n));
            c.set_text(rt);
        }
        _ => {
            let mut t = rand_text(rng, 1, 14);
            if rng.chance(1, 3) {
                t = format!("{}{}", *rng.pick(&[" ", "\n", "\t", "\u{3000}", "  "]), t);
                out.count("cmt.text.lead-blank");
            }
            if rng.chance(1, 3) {
                t.push_str(*rng.pick(&[" ", "\n", "\r\n", "\u{a0}"]));
                out.count("cmt.text.trail-blank");
            }
            c.set_text_string(t);
            out.count("cmt.text.plain");
        }
    }
    if rng.chance(1, 2) {
        let big = |rng: &mut Rng| if rng.chance(1, 8) { *rng.pick(&[0u32, u32::MAX, 16383, 1048575]) } else { rng.range(0, 400) as u32 };
        let a = c.get_anchor_mut();
        a.set_left_column(big(rng));
        a.set_left_offset(big(rng));
        a.set_top_row(big(rng));
        a.set_top_offset(big(rng));
        a.set_right_column(big(rng));
        a.set_right_offset(big(rng));
        a.set_bottom_row(big(rng));
        a.set_bottom_offset(big(rng));
        out.count("cmt.anchor.explicit");
    } else {
        out.count("cmt.anchor.default");
    }
    match rng.below(4) {
        0 => {
            // visible: style + an empty <x:Visible/>
            let st = c.get_shape().get_style().replace("visibility:hidden", "visibility:visible");
            c.get_shape_mut().set_style(st);
            c.get_shape_mut().get_client_data_mut().set_visible(Visible::default());
            out.count("cmt.visible.blank-element");
        }
        1 => {
            let mut v = Visible::default();
            let b = rng.chance(1, 2);
            v.set_value(b);
            c.get_shape_mut().get_client_data_mut().set_visible(v);
            out.count(if b { "cmt.visible.true" } else { "cmt.visible.false" });
        }
        _ => out.count("cmt.visible.hidden-default"),
    }
    if rng.chance(1, 6) {
        let mut m = MoveWithCells::default();
        m.set_value(rng.chance(1, 2));
        c.get_shape_mut().get_client_data_mut().set_move_with_cells(m);
        out.count("cmt.move-with-cells.valued");
    }
    if rng.chance(1, 6) {
        let mut m = ResizeWithCells::default();
        m.set_value(rng.chance(1, 2));
        c.get_shape_mut().get_client_data_mut().set_resize_with_cells(m);
        out.count("cmt.size-with-cells.valued");
    }
    c
}

fn gen_book(seed: u64, out: &mut Out) -> Spreadsheet {
    let mut rng = Rng::new(seed ^ 0xC06C);
    let mut book = umya_spreadsheet::new_file_empty_worksheet();
    let sheets = if rng.chance(1, 4) { 2 } else { 1 };
    for s in 0..sheets {
        let ws = book.new_sheet(format!("S{}", s + 1)).unwrap();
        let n = match rng.below(8) {
            0 => 0,
            1 => 1,
            _ => rng.range(2, 12),
        };
        out.count(&format!("cmt.count.{}", match n { 0 => "0", 1 => "1", 2..=4 => "2-4", 5..=8 => "5-8", _ => "9-12" }));
        let na = rng.range(1, 4) as usize;
        let authors: Vec<&str> = (0..na).map(|_| *rng.pick(AUTHORS)).collect();
        let mut taken = vec![];
        let mut cs: Vec<Comment> = (0..n).map(|_| gen_comment(&mut rng, out, &mut taken, &authors)).collect();
        // insertion order is whatever the generator produced (random cells): make sure it is not sorted by accident
        if cs.len() >= 2 && rng.chance(1, 3) {
            cs.sort_by_key(|c| std::cmp::Reverse((*c.get_coordinate().get_row_num(), *c.get_coordinate().get_col_num())));
            out.count("cmt.order.reverse-sorted");
        }
        let sorted = cs.windows(2).all(|w| (w[0].get_coordinate().get_row_num(), w[0].get_coordinate().get_col_num()) <= (w[1].get_coordinate().get_row_num(), w[1].get_coordinate().get_col_num()));
        if cs.len() >= 2 {
            out.count(if sorted { "cmt.order.row-major" } else { "cmt.order.not-row-major" });
        }
        for c in cs {
            ws.add_comments(c);
        }
    }
    book
}

fn witness(id: &str) -> Result<Spreadsheet, String> {
    let mut book = umya_spreadsheet::new_file_empty_worksheet();
    let ws = book.new_sheet("S1").unwrap();
    let mk = |cell: (u32, u32), author: &str, text: &str| {
        let mut c = Comment::default();
        c.new_comment(cell);
        c.set_author(author);
        c.set_text_string(text);
        c
    };
    match id {
        // C06_comment_no_column_target (was the witness of the retired refutation, repaired by fix 26940198): the
        // first comment is built without `new_comment`
        "no-column-target" => {
            let mut a = Comment::default();
            a.get_coordinate_mut().set_col_num(1).set_row_num(1);
            a.set_author("Ann");
            a.set_text_string("first");
            ws.add_comments(a);
            ws.add_comments(mk((3, 3), "Ann", "second"));
        }
        // the non-vacuity example of C06_comment_roundtrip: D9, A1, XFD1048576, B40 in this order
        "order" => {
            ws.add_comments(mk((4, 9), "Ann", " hi <&> \n"));
            let mut b = mk((1, 1), "", "");
            let mut rt = RichText::default();
            let mut te = TextElement::default();
            te.set_text("a");
            te.get_font_mut().set_bold(true);
            rt.add_rich_text_elements(te);
            let mut te = TextElement::default();
            te.set_text(" b");
            rt.add_rich_text_elements(te);
            rt.add_rich_text_elements(TextElement::default());
            b.set_text(rt);
            b.get_shape_mut().get_client_data_mut().set_visible(Visible::default());
            ws.add_comments(b);
            let mut c = mk((16384, 1048576), "Bob", "");
            c.set_text(RichText::default());
            let mut v = Visible::default();
            v.set_value(false);
            c.get_shape_mut().get_client_data_mut().set_visible(v);
            ws.add_comments(c);
            ws.add_comments(mk((2, 40), "Ann", "x"));
        }
        // row / column holders without a value are written as 0 (`norm`)
        "blank-holders" => {
            let mut a = mk((1, 1), "Ann", "t");
            a.get_shape_mut().get_client_data_mut().set_comment_row_target(CommentRowTarget::default());
            a.get_shape_mut().get_client_data_mut().set_comment_column_target(CommentColumnTarget::default());
            ws.add_comments(a);
            ws.add_comments(mk((2, 2), "Bob", "u"));
        }
        // a comment created on A1 and moved to C3 afterwards (its shape still names A1), next to a comment that IS on A1
        "stale-target" => {
            let mut a = mk((1, 1), "Ann", "moved");
            a.get_coordinate_mut().set_col_num(3).set_row_num(3);
            ws.add_comments(a);
            let mut b = mk((1, 1), "Ann", "stays");
            let an = b.get_anchor_mut();
            an.set_left_column(7).set_left_offset(7).set_top_row(7).set_top_offset(7).set_right_column(7).set_right_offset(7).set_bottom_row(7).set_bottom_offset(7);
            ws.add_comments(b);
        }
        _ => return Err(format!("unknown witness {}", id)),
    }
    Ok(book)
}

/// the `v:shape` elements of a VML part put into another order (mode 0: reversed, 1: rotated by one, 2: shuffled);
/// everything before the first and after the last shape stays where it is
fn permute_shapes(vml: &str, mode: u64, rng: &mut Rng) -> Option<String> {
    let first = vml.find("<v:shape ")?;
    let mut shapes: Vec<&str> = vec![];
    let mut rest = &vml[first..];
    while rest.starts_with("<v:shape ") {
        let end = rest.find("</v:shape>")? + "</v:shape>".len();
        shapes.push(&rest[..end]);
        rest = &rest[end..];
    }
    if shapes.len() < 2 {
        return None;
    }
    let mut order: Vec<usize> = (0..shapes.len()).collect();
    match mode {
        0 => order.reverse(),
        1 => order.rotate_left(1),
        _ => {
            for i in (1..order.len()).rev() {
                let j = rng.below(i as u64 + 1) as usize;
                order.swap(i, j);
            }
            if order.iter().enumerate().all(|(i, &j)| i == j) {
                order.reverse();
            }
        }
    }
    let mut out = vml[..first].to_string();
    for i in order {
        out.push_str(shapes[i]);
    }
    out.push_str(rest);
    Some(out)
}

/// `c06 reset cmtp <seed>`: the shapes of the saved VML parts in another order than `commentList`
fn permuted_case(out: &mut Out, header: &str, seed: u64) {
    out.begin(header);
    let book = guard(|| gen_book(seed, out));
    out.end(header, "ok", false);
    let book = match book {
        Ok(b) => b,
        Err(_) => {
            out.oracle_fail(Fail::new("case-build-failed").with("op", header).with("detail", "generator panicked"));
            return;
        }
    };
    out.count("case.cmtp");
    out.count("programs");
    let bytes = match guard(|| wb::save_bytes(&book, false)) {
        Ok(Ok(b)) => b,
        _ => {
            out.oracle_fail(Fail::new("save-failed").with("op", header));
            return;
        }
    };
    let mut parts = unzip_all(&bytes).unwrap_or_default();
    let mut rng = Rng::new(seed ^ 0x9E37);
    let mode = rng.below(3);
    let mut permuted = 0;
    for (n, d) in parts.iter_mut() {
        if n.starts_with("xl/drawings/vmlDrawing") {
            if let Some(p) = std::str::from_utf8(d).ok().and_then(|x| permute_shapes(x, mode, &mut rng)) {
                *d = p.into_bytes();
                permuted += 1;
            }
        }
    }
    out.count(&format!("cmtp.mode.{}", ["reversed", "rotated", "shuffled"][mode as usize]));
    if permuted == 0 {
        out.count("cmtp.nothing-to-permute");
    }
    out.count_n("cmtp.parts-permuted", permuted);
    let back = match reload(&crate::c03::zip_parts(&parts, false)) {
        Ok(b) => b,
        Err(e) => {
            out.oracle_fail(Fail::new("reload-failed").with("op", header).with("detail", e));
            return;
        }
    };
    for i in 0..book.get_sheet_count() {
        let ws = book.get_sheet(&i).unwrap();
        let bws = match back.get_sheet(&i) {
            Some(w) => w,
            None => {
                out.oracle_fail(Fail::new("comment-changed").with("op", header).with("sheet", i.to_string()).with("detail", "sheet missing"));
                continue;
            }
        };
        let before: Vec<String> = ws.get_comments().iter().map(|c| view_as(c, true, true)).collect();
        let after: Vec<String> = bws.get_comments().iter().map(|c| view(c, true)).collect();
        if before == after {
            out.oracle_ok();
        } else {
            let k = before.iter().zip(after.iter()).position(|(x, y)| x != y).unwrap_or(before.len().min(after.len()));
            out.oracle_fail(
                Fail::new("comment-shape-mispaired")
                    .with("op", header)
                    .with("sheet", i.to_string())
                    .with("detail", format!("item {}: before={} after={}", k, before.get(k).map(|s| s.as_str()).unwrap_or("<none>"), after.get(k).map(|s| s.as_str()).unwrap_or("<none>")).chars().take(900).collect::<String>()),
            );
            out.count("cmtp.mispaired");
        }
        if ws.get_comments().is_empty() {
            continue;
        }
        if let (Some(cx), Some(vx)) = parts_of_sheet(&parts, &format!("xl/worksheets/sheet{}.xml", i + 1)) {
            let line = format!("c06 cmtr {} {}", hex(cx), hex(vx));
            out.begin(&line);
            out.end(&line, &format!("r={}", sheet_view(bws, false)), true);
            out.count("tie.cmtr");
            out.count_n("tie.cmtp.items", ws.get_comments().len() as u64);
        }
    }
}

fn part<'a>(parts: &'a [(String, Vec<u8>)], name: &str) -> Option<&'a str> {
    parts.iter().find(|(n, _)| n == name).and_then(|(_, d)| std::str::from_utf8(d).ok())
}

/// start tags of an element
fn tags<'a>(xml: &'a str, name: &str) -> Vec<&'a str> {
    let open = format!("<{}", name);
    let mut out = vec![];
    let mut rest = xml;
    while let Some(i) = rest.find(&open) {
        let after = &rest[i + open.len()..];
        let ok = after.starts_with(' ') || after.starts_with('>') || after.starts_with('/');
        match after.find('>') {
            Some(j) => {
                if ok {
                    out.push(&rest[i..i + open.len() + j + 1]);
                }
                rest = &after[j + 1..];
            }
            None => break,
        }
    }
    out
}

/// the comments part and the VML part a worksheet part points to
fn parts_of_sheet<'a>(parts: &'a [(String, Vec<u8>)], sheet_part: &str) -> (Option<&'a str>, Option<&'a str>) {
    let (dir, file) = sheet_part.rsplit_once('/').unwrap_or(("", sheet_part));
    let rels = part(parts, &format!("{}/_rels/{}.rels", dir, file)).unwrap_or("");
    let resolve = |t: &str| -> String {
        if let Some(abs) = t.strip_prefix('/') {
            return abs.to_string();
        }
        let mut segs: Vec<&str> = dir.split('/').collect();
        for s in t.split('/') {
            match s {
                ".." => {
                    segs.pop();
                }
                "." => {}
                x => segs.push(x),
            }
        }
        segs.join("/")
    };
    let find = |suffix: &str| -> Option<&'a str> {
        tags(rels, "Relationship").iter().find(|t| attr_of(t, "Type").map(|x| x.ends_with(suffix)).unwrap_or(false)).and_then(|t| attr_of(t, "Target")).and_then(|t| part(parts, &resolve(t)))
    };
    (find("/comments"), find("/vmlDrawing"))
}

fn reload(bytes: &[u8]) -> Result<Spreadsheet, String> {
    match guard(|| umya_spreadsheet::reader::xlsx::read_reader(std::io::Cursor::new(bytes), true)) {
        Ok(Ok(b)) => Ok(b),
        Ok(Err(e)) => Err(format!("{:?}", e)),
        Err(_) => Err("panic".into()),
    }
}

/// every joined shape names the cell of its comment (the harness-side reading of `validCommentParts`)
fn shapes_name_cells(ws: &Worksheet) -> Vec<String> {
    let mut bad = vec![];
    for c in ws.get_comments() {
        let cd = c.get_shape().get_client_data();
        if let (Some(col), Some(row)) = (cd.get_comment_column_target(), cd.get_comment_row_target()) {
            if (*col.get_value() + 1, *row.get_value() + 1) != (*c.get_coordinate().get_col_num(), *c.get_coordinate().get_row_num()) {
                bad.push(format!("{}<-R{}C{}", c.get_coordinate().to_string(), row.get_value(), col.get_value()));
            }
        }
    }
    bad
}

fn file_case(out: &mut Out, header: &str, name: &str) {
    out.begin(header);
    out.end(header, "ok", false);
    out.count("case.cmtf");
    let path = format!("{}/tests/test_files/{}", std::env::var("UMYA_REPO").unwrap_or("/repo".into()), name);
    let bytes = match std::fs::read(&path) {
        Ok(b) => b,
        Err(_) => {
            out.count("cmtf.unreadable");
            return;
        }
    };
    let parts = match unzip_all(&bytes) {
        Ok(p) => p,
        Err(_) => {
            out.count("cmtf.not-a-zip");
            return;
        }
    };
    let book = match reload(&bytes) {
        Ok(b) => b,
        Err(_) => {
            out.count("cmtf.library-rejects");
            return;
        }
    };
    // the sheet parts in workbook order: the library keeps the order of <sheets>
    let wbrels = part(&parts, "xl/_rels/workbook.xml.rels").unwrap_or("");
    let wbx = part(&parts, "xl/workbook.xml").unwrap_or("");
    let mut any = false;
    for (i, st) in tags(wbx, "sheet").iter().enumerate() {
        let rid = match attr_of(st, "r:id") {
            Some(r) => r,
            None => continue,
        };
        let target = tags(wbrels, "Relationship").iter().find(|t| attr_of(t, "Id") == Some(rid)).and_then(|t| attr_of(t, "Target")).map(|t| if let Some(a) = t.strip_prefix('/') { a.to_string() } else { format!("xl/{}", t) });
        let target = match target {
            Some(t) => t,
            None => continue,
        };
        let (cx, vx) = parts_of_sheet(&parts, &target);
        let ws = match book.get_sheet(&i) {
            Some(w) => w,
            None => continue,
        };
        if let Some(cx) = cx {
            any = true;
            out.count("cmtf.sheets-with-comments");
            out.count_n("cmtf.comments", ws.get_comments().len() as u64);
            let bad = shapes_name_cells(ws);
            if bad.is_empty() {
                out.oracle_ok();
            } else {
                out.oracle_fail(Fail::new("comment-shape-mispaired").with("op", header).with("sheet", i.to_string()).with("detail", bad.join(" ")));
                out.count("cmtf.mispaired");
            }
            let line = format!("c06 cmtr {} {}", hex(cx), vx.map(hex).unwrap_or("-".into()));
            out.begin(&line);
            out.end(&line, &format!("r={}", sheet_view(ws, false)), true);
            out.count("tie.cmtr");
        }
    }
    if !any {
        out.count("cmtf.no-comments");
    }
}

pub fn run_case(out: &mut Out, header: &str) {
    let a: Vec<&str> = header.split(' ').collect();
    if a.get(2) == Some(&"cmtf") {
        file_case(out, header, a.get(3).copied().unwrap_or(""));
        return;
    }
    if a.get(2) == Some(&"cmtp") {
        permuted_case(out, header, a.get(3).and_then(|x| x.parse().ok()).unwrap_or(0));
        return;
    }
    out.begin(header);
    let book = match a.get(2).copied() {
        Some("cmt") => {
            let seed = a.get(3).and_then(|x| x.parse().ok()).unwrap_or(0);
            guard(|| gen_book(seed, out)).map_err(|_| "generator panicked".to_string())
        }
        Some("cmtw") => guard(|| witness(a.get(3).copied().unwrap_or(""))).map_err(|_| "witness panicked".to_string()).and_then(|x| x),
        _ => Err("bad case".into()),
    };
    out.end(header, "ok", false);
    let book = match book {
        Ok(b) => b,
        Err(e) => {
            out.oracle_fail(Fail::new("case-build-failed").with("op", header).with("detail", e));
            return;
        }
    };
    out.count(&format!("case.{}", a[2]));
    out.count("programs");
    let bytes = match guard(|| wb::save_bytes(&book, false)) {
        Ok(Ok(b)) => b,
        _ => {
            out.oracle_fail(Fail::new("save-failed").with("op", header));
            return;
        }
    };
    let back = match reload(&bytes) {
        Ok(b) => b,
        Err(e) => {
            out.oracle_fail(Fail::new("reload-failed").with("op", header).with("detail", e));
            return;
        }
    };
    let parts = unzip_all(&bytes).unwrap_or_default();
    for i in 0..book.get_sheet_count() {
        let ws = book.get_sheet(&i).unwrap();
        let bws = match back.get_sheet(&i) {
            Some(w) => w,
            None => {
                out.oracle_fail(Fail::new("comment-changed").with("op", header).with("sheet", i.to_string()).with("detail", "sheet missing"));
                continue;
            }
        };
        // oracle: getter view (fonts included) before == after, comment by comment; after reload the shape names the comment's cell
        let before: Vec<String> = ws.get_comments().iter().map(|c| view_as(c, true, true)).collect();
        let after: Vec<String> = bws.get_comments().iter().map(|c| view(c, true)).collect();
        if before == after {
            out.oracle_ok();
        } else {
            let k = before.iter().zip(after.iter()).position(|(x, y)| x != y).unwrap_or(before.len().min(after.len()));
            let cells_before: Vec<String> = ws.get_comments().iter().map(|c| c.get_coordinate().to_string()).collect();
            let cells_after: Vec<String> = bws.get_comments().iter().map(|c| c.get_coordinate().to_string()).collect();
            let field = if cells_before != cells_after { "cell" } else { "content" };
            out.oracle_fail(
                Fail::new("comment-changed")
                    .with("op", header)
                    .with("sheet", i.to_string())
                    .with("field", field)
                    .with("has_column_target", ws.get_comments().iter().all(|c| c.get_shape().get_client_data().get_comment_column_target().is_some()).to_string())
                    .with("detail", format!("item {}: before={} after={}", k, before.get(k).map(|s| s.as_str()).unwrap_or("<none>"), after.get(k).map(|s| s.as_str()).unwrap_or("<none>")).chars().take(900).collect::<String>()),
            );
            out.count("changed.comment");
        }
        let (cx, vx) = parts_of_sheet(&parts, &format!("xl/worksheets/sheet{}.xml", i + 1));
        if ws.get_comments().is_empty() {
            if cx.is_some() {
                out.oracle_fail(Fail::new("comment-part-unexpected").with("op", header).with("sheet", i.to_string()));
            }
            out.count("cmt.sheet.no-comments");
            continue;
        }
        match (cx, vx) {
            (Some(cx), Some(vx)) => {
                let line = format!("c06 cmt {} {} {}", sheet_view(ws, false), hex(cx), hex(vx));
                out.begin(&line);
                out.end(&line, &format!("ctree=eq;vtree=eq;r={}", sheet_view(bws, false)), true);
                out.count("tie.cmt");
                out.count_n("tie.cmt.items", ws.get_comments().len() as u64);
            }
            _ => {
                out.oracle_fail(Fail::new("comment-part-missing").with("op", header).with("sheet", i.to_string()));
            }
        }
    }
}

/// corpus files that have a comments part
pub fn corpus_with_comments() -> Vec<String> {
    let dir = format!("{}/tests/test_files", std::env::var("UMYA_REPO").unwrap_or("/repo".into()));
    let mut v = vec![];
    if let Ok(rd) = std::fs::read_dir(&dir) {
        for e in rd.flatten() {
            let name = e.file_name().to_string_lossy().to_string();
            if !(name.ends_with(".xlsx") || name.ends_with(".xlsm")) {
                continue;
            }
            if let Ok(bytes) = std::fs::read(e.path()) {
                if bytes.len() > 8_000_000 {
                    continue;
                }
                if let Ok(parts) = unzip_all(&bytes) {
                    if parts.iter().any(|(n, _)| n.starts_with("xl/comments")) {
                        v.push(name);
                    }
                }
            }
        }
    }
    v.sort();
    v
}

pub fn gen(tier: Tier, rng: &mut Rng) -> Vec<String> {
    let mut v = vec![];
    for w in WITNESSES {
        v.push(format!("c06 reset cmtw {}", w));
    }
    let n = if tier == Tier::Thorough { 1500 } else { 150 };
    for _ in 0..n {
        v.push(format!("c06 reset cmt {}", rng.next() % 1_000_000_007));
    }
    let np = if tier == Tier::Thorough { 600 } else { 60 };
    for _ in 0..np {
        v.push(format!("c06 reset cmtp {}", rng.next() % 1_000_000_007));
    }
    for f in corpus_with_comments() {
        v.push(format!("c06 reset cmtf {}", f));
    }
    v
}
