//! C06 — data validations and conditional formatting: codec tie (`c06 dvs`, `c06 cf`) and round-trip oracle.
//!
//! A case (`c06 reset codec <seed>` / `c06 reset codecw <witness>`) is a workbook whose validations and
//! conditional formats are built through the public setters from generated values.  While building, the harness
//! writes down the value it set, field by field (the "spec": which fields were set, to what), independently of
//! the library's getters.  The workbook is saved and reloaded.
//!  * tie (model level): the real `<dataValidations>` / `<conditionalFormatting>` elements of the sheet parts and
//!    the `<dxfs>` element of `xl/styles.xml` are sent, as they stand, to the Lean driver together with the specs;
//!    the driver parses them with the independent XML reader and answers whether they are tree-equal to `write`
//!    of the model value, whether the dxf table is the model's table, and what the model reader makes of the real
//!    elements; the harness answers with what the reloaded workbook's getters return.  A second generation
//!    (reload, save) ties the writer starting from a non-empty dxf table.
//!  * oracle (implementation level): the getter view of the validations / formats before saving equals the view
//!    after reload.
//! Enum spellings below are written from ECMA-376 (ST_DataValidationType, ST_DataValidationOperator, ST_CfType,
//! ST_ConditionalFormattingOperator, ST_TimePeriod, ST_CfvoType), not taken from the crate.
use crate::common::*;
use crate::wb;
use umya_spreadsheet::structs::*;

pub const WITNESSES: &[&str] = &["dv-type-none", "dv-formula-blank", "cf-formula-blank", "cf-iconset", "cf-dxf-collision", "cf-blank-color", "cf-empty-sqref", "cf-no-rules"];

// ---------------------------------------------------------------- enum tables (from the standard)

fn dv_types() -> Vec<(DataValidationValues, &'static str)> {
    use DataValidationValues::*;
    vec![(Custom, "custom"), (Date, "date"), (Decimal, "decimal"), (List, "list"), (None, "none"), (TextLength, "textLength"), (Time, "time"), (Whole, "whole")]
}
fn dv_ops() -> Vec<(DataValidationOperatorValues, &'static str)> {
    use DataValidationOperatorValues::*;
    vec![(Between, "between"), (Equal, "equal"), (GreaterThan, "greaterThan"), (GreaterThanOrEqual, "greaterThanOrEqual"), (LessThan, "lessThan"), (LessThanOrEqual, "lessThanOrEqual"), (NotBetween, "notBetween"), (NotEqual, "notEqual")]
}
fn cf_types() -> Vec<(ConditionalFormatValues, &'static str)> {
    use ConditionalFormatValues::*;
    vec![
        (AboveAverage, "aboveAverage"), (BeginsWith, "beginsWith"), (CellIs, "cellIs"), (ColorScale, "colorScale"), (ContainsBlanks, "containsBlanks"), (ContainsErrors, "containsErrors"),
        (ContainsText, "containsText"), (DataBar, "dataBar"), (DuplicateValues, "duplicateValues"), (EndsWith, "endsWith"), (Expression, "expression"), (IconSet, "iconSet"),
        (NotContainsBlanks, "notContainsBlanks"), (NotContainsErrors, "notContainsErrors"), (NotContainsText, "notContainsText"), (TimePeriod, "timePeriod"), (Top10, "top10"), (UniqueValues, "uniqueValues"),
    ]
}
fn cf_ops() -> Vec<(ConditionalFormattingOperatorValues, &'static str)> {
    use ConditionalFormattingOperatorValues::*;
    vec![
        (BeginsWith, "beginsWith"), (Between, "between"), (ContainsText, "containsText"), (EndsWith, "endsWith"), (Equal, "equal"), (GreaterThan, "greaterThan"),
        (GreaterThanOrEqual, "greaterThanOrEqual"), (LessThan, "lessThan"), (LessThanOrEqual, "lessThanOrEqual"), (NotBetween, "notBetween"), (NotContains, "notContains"), (NotEqual, "notEqual"),
    ]
}
fn time_periods() -> Vec<(TimePeriodValues, &'static str)> {
    use TimePeriodValues::*;
    vec![(Last7Days, "last7Days"), (LastMonth, "lastMonth"), (LastWeek, "lastWeek"), (NextMonth, "nextMonth"), (NextWeek, "nextWeek"), (ThisMonth, "thisMonth"), (ThisWeek, "thisWeek"), (Today, "today"), (Tomorrow, "tomorrow"), (Yesterday, "yesterday")]
}
fn cfvo_types() -> Vec<(ConditionalFormatValueObjectValues, &'static str)> {
    use ConditionalFormatValueObjectValues::*;
    vec![(Formula, "formula"), (Max, "max"), (Min, "min"), (Number, "num"), (Percent, "percent"), (Percentile, "percentile")]
}
fn name_of<T: PartialEq>(tbl: &[(T, &'static str)], v: &T) -> &'static str {
    tbl.iter().find(|(x, _)| x == v).map(|(_, n)| *n).unwrap_or("?")
}

// ---------------------------------------------------------------- spec tokens

fn tok(o: Option<String>) -> String {
    match o {
        Some(v) => format!("={}", v),
        None => "~".into(),
    }
}
fn b01(b: bool) -> String {
    (if b { "1" } else { "0" }).to_string()
}

const FRAGS: &[&str] = &["a", "B", " ", "  ", "&", "<", ">", "\"", "'", "\r", "\n", "\t", "\r\n", "é", "]]>", "\u{a0}", "\u{2028}", "😀", "&amp;", "1", ",", "=", "TRUE", "#N/A"];

fn rand_text(rng: &mut Rng, min: u64, max: u64) -> String {
    let n = rng.range(min, max);
    let mut s = String::new();
    for _ in 0..n {
        s.push_str(*rng.pick(FRAGS));
    }
    // blanks at the ends, often
    if rng.chance(1, 4) {
        s.insert(0, ' ');
    }
    if rng.chance(1, 4) {
        s.push(' ');
    }
    s
}

fn col_name(mut n: u64) -> String {
    let mut v = vec![];
    while n > 0 {
        let r = (n - 1) % 26;
        v.push((b'A' + r as u8) as char);
        n = (n - 1) / 26;
    }
    v.iter().rev().collect()
}

/// a range text of one of the four printable shapes, with locks
fn rand_range(rng: &mut Rng, cells_only: bool) -> String {
    let col = |rng: &mut Rng| format!("{}{}", if rng.chance(1, 4) { "$" } else { "" }, col_name(*rng.pick(&[1u64, 2, 3, 26, 27, 702, 703, 16384])));
    let row = |rng: &mut Rng| format!("{}{}", if rng.chance(1, 4) { "$" } else { "" }, rng.pick(&[1u64, 2, 9, 10, 100, 65536, 1048576]));
    match if cells_only { rng.below(2) } else { rng.below(5) } {
        0 => format!("{}{}", col(rng), row(rng)),
        1 | 2 => format!("{}{}:{}{}", col(rng), row(rng), col(rng), row(rng)),
        3 => format!("{}:{}", row(rng), row(rng)),
        _ => format!("{}:{}", col(rng), col(rng)),
    }
}

fn set_sqref(seq: &mut SequenceOfReferences, ranges: &[String]) {
    for r in ranges {
        let mut x = Range::default();
        x.set_range(r.clone());
        seq.add_range_collection(x);
    }
}

// ---------------------------------------------------------------- data validations

fn gen_dv(rng: &mut Rng, k: usize, out: &mut Out) -> (DataValidation, String) {
    let mut dv = DataValidation::default();
    let mut t: Vec<String> = vec![];
    let types = dv_types();
    let ops = dv_ops();
    // type, operator: every constructor in turn
    if rng.chance(4, 5) {
        let (v, n) = &types[(k + rng.below(8) as usize) % types.len()];
        dv.set_type(v.clone());
        out.count(&format!("codec.dv.type.{}", n));
        t.push(tok(Some(n.to_string())));
    } else {
        out.count("codec.dv.type.unset");
        t.push(tok(None));
    }
    if rng.chance(3, 4) {
        let (v, n) = &ops[(k + rng.below(8) as usize) % ops.len()];
        dv.set_operator(v.clone());
        out.count(&format!("codec.dv.operator.{}", n));
        t.push(tok(Some(n.to_string())));
    } else {
        out.count("codec.dv.operator.unset");
        t.push(tok(None));
    }
    for which in 0..3 {
        if rng.chance(2, 3) {
            let b = rng.chance(1, 2);
            match which {
                0 => dv.set_allow_blank(b),
                1 => dv.set_show_input_message(b),
                _ => dv.set_show_error_message(b),
            };
            out.count(&format!("codec.dv.flag{}.{}", which, b));
            t.push(tok(Some(b01(b))));
        } else {
            out.count(&format!("codec.dv.flag{}.unset", which));
            t.push(tok(None));
        }
    }
    for which in 0..4 {
        if rng.chance(1, 2) {
            let s = rand_text(rng, 0, 6);
            match which {
                0 => dv.set_prompt_title(s.clone()),
                1 => dv.set_prompt(s.clone()),
                2 => dv.set_error_title(s.clone()),
                _ => dv.set_error_message(s.clone()),
            };
            out.count(if s.is_empty() { "codec.dv.text.empty" } else if s.starts_with(' ') || s.ends_with(' ') { "codec.dv.text.outer-blank" } else { "codec.dv.text.other" });
            t.push(tok(Some(hex(&s))));
        } else {
            t.push(tok(None));
        }
    }
    let nr = *rng.pick(&[0u64, 1, 1, 2, 3, 5]);
    let ranges: Vec<String> = (0..nr).map(|_| rand_range(rng, false)).collect();
    set_sqref(dv.get_sequence_of_references_mut(), &ranges);
    out.count(&format!("codec.dv.ranges.{}", nr));
    t.push(if ranges.is_empty() { "~".into() } else { format!("={}", ranges.join("+")) });
    for which in 0..2 {
        if rng.chance(1, 2) {
            let s = if rng.chance(1, 3) { (*rng.pick(&["\"a, b\"", " $A$1:$A$9 ", "40000", "", " ", "LEN(A1)<5 ", "A1&\"<x>\"=\"a&b\""])).to_string() } else { rand_text(rng, 0, 5) };
            if which == 0 {
                dv.set_formula1(s.clone());
            } else {
                dv.set_formula2(s.clone());
            }
            out.count(if s.is_empty() { "codec.dv.formula.empty" } else if s.trim() != s { "codec.dv.formula.outer-blank" } else { "codec.dv.formula.other" });
            t.push(tok(Some(hex(&s))));
        } else {
            out.count("codec.dv.formula.unset");
            t.push(tok(None));
        }
    }
    (dv, t.join(","))
}

fn dv_obs(d: &DataValidation) -> String {
    format!(
        "{},{},{},{},{},{},{},{},{},{},{},{}",
        name_of(&dv_types(), d.get_type()),
        name_of(&dv_ops(), d.get_operator()),
        b01(*d.get_allow_blank()),
        b01(*d.get_show_input_message()),
        b01(*d.get_show_error_message()),
        hex(d.get_prompt_title()),
        hex(d.get_prompt()),
        hex(d.get_error_title()),
        hex(d.get_error_message()),
        d.get_sequence_of_references().get_range_collection().iter().map(|r| r.get_range()).collect::<Vec<_>>().join("+"),
        hex(d.get_formula1()),
        hex(d.get_formula2())
    )
}

fn dvs_obs(ws: &Worksheet) -> String {
    match ws.get_data_validations() {
        Some(d) => d.get_data_validation_list().iter().map(dv_obs).collect::<Vec<_>>().join("|"),
        None => String::new(),
    }
}

// ---------------------------------------------------------------- conditional formatting

/// (font name, size, bold, font colour, fill colour): what the dxf of a rule carries here
#[derive(Clone)]
struct Sty {
    name: Option<&'static str>,
    size: Option<f64>,
    bold: Option<bool>,
    color: Option<&'static str>,
    fill: Option<&'static str>,
}

fn style_pool() -> Vec<Sty> {
    vec![
        Sty { name: None, size: None, bold: Some(true), color: Some("FF9C0006"), fill: Some("FFFFC7CE") },
        Sty { name: None, size: None, bold: None, color: Some("FF006100"), fill: None },
        Sty { name: None, size: None, bold: None, color: None, fill: Some("FFFFEB9C") },
        Sty { name: Some("Arial1"), size: Some(1.0), bold: None, color: None, fill: None },
        Sty { name: Some("Arial"), size: Some(11.0), bold: None, color: None, fill: None },
        Sty { name: None, size: None, bold: Some(false), color: Some("FF9C0006"), fill: Some("FFFFC7CE") },
    ]
}

fn build_style(s: &Sty) -> Style {
    let mut st = Style::default();
    if s.name.is_some() || s.size.is_some() || s.bold.is_some() || s.color.is_some() {
        let f = st.get_font_mut();
        if let Some(n) = s.name {
            f.set_name(n);
        }
        if let Some(z) = s.size {
            f.set_size(z);
        }
        if let Some(b) = s.bold {
            f.set_bold(b);
        }
        if let Some(c) = s.color {
            f.get_color_mut().set_argb(c);
        }
    }
    if let Some(c) = s.fill {
        st.set_background_color(c);
    }
    st
}

/// the signature of a style as seen through the getters: `name|size|bold|fontcolour|fillcolour` (`-` = no font / no fill)
fn style_sig(st: &Style) -> String {
    let (n, z, b, c) = match st.get_font() {
        Some(f) => (f.get_name().to_string(), f.get_size().to_string(), b01(*f.get_bold()), f.get_color().get_argb().to_string()),
        None => ("-".into(), "-".into(), "-".into(), "-".into()),
    };
    let g = match st.get_background_color() {
        Some(c) => c.get_argb().to_string(),
        None => "-".into(),
    };
    format!("{}|{}|{}|{}|{}", n, z, b, c, g)
}

fn gen_cfvo(rng: &mut Rng, out: &mut Out) -> (ConditionalFormatValueObject, String) {
    let mut o = ConditionalFormatValueObject::default();
    let tys = cfvo_types();
    let ty = if rng.chance(5, 6) {
        let (v, n) = rng.pick(&tys).clone();
        o.set_type(v);
        out.count(&format!("codec.cf.cfvo.{}", n));
        Some(n.to_string())
    } else {
        None
    };
    let val = if rng.chance(2, 3) {
        let s = (*rng.pick(&["0", "33", "67", "$A$1", " x ", "", "a&b"])).to_string();
        o.set_val(s.clone());
        Some(hex(&s))
    } else {
        None
    };
    (o, format!("{}:{}", tok(ty), tok(val)))
}

fn gen_color(rng: &mut Rng, blank_ok: bool) -> (Color, String) {
    let mut c = Color::default();
    let (mut th, ix, mut ar, mut ti) = (None, None::<String>, None, None);
    match rng.below(if blank_ok { 4 } else { 3 }) {
        0 => {
            // not a member of the indexed palette: set_argb keeps it as rgb
            let s = (*rng.pick(&["FFF8696B", "FF63BE7B", "FF5A8AC6", "80123456"])).to_string();
            c.set_argb(s.clone());
            ar = Some(hex(&s));
        }
        1 => {
            let n = *rng.pick(&[0u32, 1, 4, 9]);
            c.set_theme_index(n);
            th = Some(n.to_string());
        }
        2 => {
            let s = "FFFFEB84".to_string();
            c.set_argb(s.clone());
            ar = Some(hex(&s));
            let t = *rng.pick(&[0.5f64, -0.25, 0.1]);
            c.set_tint(t);
            ti = Some(hex(&t.to_string()));
        }
        _ => {}
    }
    (c, format!("{}:{}:{}:{}", tok(th), tok(ix), tok(ar), tok(ti)))
}

fn gen_scale(rng: &mut Rng, out: &mut Out, blank_color: bool) -> (Vec<ConditionalFormatValueObject>, Vec<Color>, String) {
    let n = rng.range(0, 3);
    let mut vs = vec![];
    let mut vt = vec![];
    for _ in 0..n {
        let (o, t) = gen_cfvo(rng, out);
        vs.push(o);
        vt.push(t);
    }
    let m = rng.range(0, 3);
    let mut cs = vec![];
    let mut ct = vec![];
    for _ in 0..m {
        let (c, t) = gen_color(rng, blank_color);
        if t == "~:~:~:~" {
            out.count("codec.cf.scale.blank-color");
        }
        cs.push(c);
        ct.push(t);
    }
    (vs, cs, format!("{}/{}", vt.join("_"), ct.join("_")))
}

const SHEETS: &[&str] = &["S1", "My Sheet", "It's", "a-b", "R&D", "Q1!x", "\"q\"", "A1", "é"];

fn gen_formula(rng: &mut Rng, out: &mut Out) -> (Formula, String) {
    let mut f = Formula::default();
    match rng.below(5) {
        0 | 1 => {
            let s = (*rng.pick(&["5", " 5 ", "\"a&b\"", "\"<x>\" ", "AND($A1<>\"\",$B1>3)", "A1&\"<>\"=\"x\"", "MOD(ROW(),2)=0 ", "$A:$A", "1:1", "Sheet1!$A:$B", "LEN(\"\r\n\")", " "])).to_string();
            f.set_string_value(s.clone());
            out.count(if s.trim() != s { "codec.cf.formula.text.outer-blank" } else { "codec.cf.formula.text" });
            (f, format!("s:{}", hex(&s)))
        }
        2 => {
            out.count("codec.cf.formula.empty");
            (f, "e".into())
        }
        3 => {
            let r = rand_range(rng, true);
            let mut a = Address::default();
            a.get_range_mut().set_range(r.clone());
            f.set_address(a);
            out.count("codec.cf.formula.bare-area");
            (f, format!("a:-:{}", r))
        }
        _ => {
            let r = rand_range(rng, true);
            let sh = *rng.pick(SHEETS);
            let mut a = Address::default();
            a.set_sheet_name(sh);
            a.get_range_mut().set_range(r.clone());
            f.set_address(a);
            out.count("codec.cf.formula.sheet-area");
            (f, format!("a:{}:{}", hex(sh), r))
        }
    }
}

fn gen_rule(rng: &mut Rng, k: usize, out: &mut Out, pool: &[Sty], blank_color: bool) -> (ConditionalFormattingRule, String) {
    let mut r = ConditionalFormattingRule::default();
    let mut t: Vec<String> = vec![];
    let (tys, ops, tps) = (cf_types(), cf_ops(), time_periods());
    if rng.chance(5, 6) {
        let (v, n) = &tys[(k + rng.below(18) as usize) % tys.len()];
        r.set_type(v.clone());
        out.count(&format!("codec.cf.type.{}", n));
        t.push(tok(Some(n.to_string())));
    } else {
        out.count("codec.cf.type.unset");
        t.push(tok(None));
    }
    if rng.chance(1, 2) {
        let (v, n) = &ops[(k + rng.below(12) as usize) % ops.len()];
        r.set_operator(v.clone());
        out.count(&format!("codec.cf.operator.{}", n));
        t.push(tok(Some(n.to_string())));
    } else {
        t.push(tok(None));
    }
    if rng.chance(1, 3) {
        let s = rand_text(rng, 0, 4);
        r.set_text(s.clone());
        out.count("codec.cf.text");
        t.push(tok(Some(hex(&s))));
    } else {
        t.push(tok(None));
    }
    if rng.chance(3, 4) {
        let i = rng.below(pool.len() as u64) as usize;
        let st = build_style(&pool[i]);
        t.push(tok(Some(hex(&style_sig(&st)))));
        r.set_style(st);
        out.count(&format!("codec.cf.style.pool{}", i));
    } else {
        out.count("codec.cf.style.none");
        t.push(tok(None));
    }
    let i32s = [0i32, 1, 2, 3, 10, -1, 2147483647, -2147483648];
    if rng.chance(5, 6) {
        let p = if rng.chance(3, 4) { (k as i32) + 1 } else { *rng.pick(&i32s) };
        r.set_priority(p);
        out.count(if p < 0 { "codec.cf.priority.negative" } else { "codec.cf.priority.nonneg" });
        t.push(tok(Some(p.to_string())));
    } else {
        out.count("codec.cf.priority.unset");
        t.push(tok(None));
    }
    let mut flag = |rng: &mut Rng, t: &mut Vec<String>| -> Option<bool> {
        if rng.chance(1, 3) {
            let b = rng.chance(1, 2);
            t.push(tok(Some(b01(b))));
            Some(b)
        } else {
            t.push(tok(None));
            None
        }
    };
    if let Some(b) = flag(rng, &mut t) {
        r.set_percent(b);
    }
    if let Some(b) = flag(rng, &mut t) {
        r.set_bottom(b);
    }
    if rng.chance(1, 3) {
        let n = *rng.pick(&[0u32, 1, 10, 1000, 4294967295]);
        r.set_rank(n);
        out.count("codec.cf.rank");
        t.push(tok(Some(n.to_string())));
    } else {
        t.push(tok(None));
    }
    if let Some(b) = flag(rng, &mut t) {
        r.set_stop_if_true(b);
    }
    if rng.chance(1, 4) {
        let n = *rng.pick(&i32s);
        r.set_std_dev(n);
        out.count("codec.cf.stdDev");
        t.push(tok(Some(n.to_string())));
    } else {
        t.push(tok(None));
    }
    if rng.chance(1, 3) {
        let (v, n) = &tps[(k + rng.below(10) as usize) % tps.len()];
        r.set_time_period(v.clone());
        out.count(&format!("codec.cf.timePeriod.{}", n));
        t.push(tok(Some(n.to_string())));
    } else {
        t.push(tok(None));
    }
    if let Some(b) = flag(rng, &mut t) {
        r.set_above_average(b);
    }
    if let Some(b) = flag(rng, &mut t) {
        r.set_equal_average(b);
    }
    for which in 0..3 {
        if rng.chance(1, 5) {
            let (vs, cs, spec) = gen_scale(rng, out, blank_color);
            match which {
                0 => {
                    let mut s = ColorScale::default();
                    for v in vs {
                        s.add_cfvo_collection(v);
                    }
                    for c in cs {
                        s.add_color_collection(c);
                    }
                    r.set_color_scale(s);
                    out.count("codec.cf.colorScale");
                }
                1 => {
                    let mut s = DataBar::default();
                    for v in vs {
                        s.add_cfvo_collection(v);
                    }
                    for c in cs {
                        s.add_color_collection(c);
                    }
                    r.set_data_bar(s);
                    out.count("codec.cf.dataBar");
                }
                _ => {
                    let mut s = IconSet::default();
                    for v in vs {
                        s.add_cfvo_collection(v);
                    }
                    for c in cs {
                        s.add_color_collection(c);
                    }
                    r.set_icon_set(s);
                    out.count("codec.cf.iconSet");
                }
            }
            t.push(tok(Some(spec)));
        } else {
            t.push(tok(None));
        }
    }
    if rng.chance(1, 2) {
        let (f, spec) = gen_formula(rng, out);
        r.set_formula(f);
        t.push(tok(Some(spec)));
    } else {
        out.count("codec.cf.formula.none");
        t.push(tok(None));
    }
    (r, t.join(","))
}

fn cfvo_obs(v: &ConditionalFormatValueObject) -> String {
    format!("{}:{}", name_of(&cfvo_types(), v.get_type()), hex(v.get_val()))
}
fn color_obs(c: &Color) -> String {
    format!("{}:{}:{}:{}", c.get_theme_index(), c.get_indexed(), hex(c.get_argb()), hex(&c.get_tint().to_string()))
}
fn scale_obs(vs: &[ConditionalFormatValueObject], cs: &[Color]) -> String {
    format!("{}/{}", vs.iter().map(cfvo_obs).collect::<Vec<_>>().join("_"), cs.iter().map(color_obs).collect::<Vec<_>>().join("_"))
}

fn rule_obs(r: &ConditionalFormattingRule) -> String {
    let v: Vec<String> = vec![
        name_of(&cf_types(), r.get_type()).to_string(),
        name_of(&cf_ops(), r.get_operator()).to_string(),
        hex(r.get_text()),
        tok(r.get_style().map(|s| hex(&style_sig(s)))),
        r.get_priority().to_string(),
        b01(*r.get_percent()),
        b01(*r.get_bottom()),
        r.get_rank().to_string(),
        b01(*r.get_stop_if_true()),
        r.get_std_dev().to_string(),
        name_of(&time_periods(), r.get_time_period()).to_string(),
        b01(*r.get_above_average()),
        b01(*r.get_equal_average()),
        tok(r.get_color_scale().map(|s| scale_obs(s.get_cfvo_collection(), s.get_color_collection()))),
        tok(r.get_data_bar().map(|s| scale_obs(s.get_cfvo_collection(), s.get_color_collection()))),
        tok(r.get_icon_set().map(|s| scale_obs(s.get_cfvo_collection(), s.get_color_collection()))),
        tok(r.get_formula().map(|f| hex(&f.get_address_str()))),
    ];
    v.join(",")
}

fn block_obs(b: &ConditionalFormatting) -> String {
    format!(
        "{}#{}@{}",
        b.get_sequence_of_references().get_range_collection().len(),
        b.get_sequence_of_references().get_range_collection().iter().map(|r| r.get_range()).collect::<Vec<_>>().join("+"),
        b.get_conditional_collection().iter().map(rule_obs).collect::<Vec<_>>().join(";")
    )
}

fn cf_obs(book: &Spreadsheet) -> String {
    let mut v = vec![];
    for i in 0..book.get_sheet_count() {
        for b in book.get_sheet(&i).unwrap().get_conditional_formatting_collection() {
            v.push(block_obs(b));
        }
    }
    v.join("!")
}

/// what must come back: the blocks that have a rule (a block without rules holds no conditional format and is not
/// written: the model's `writtenBlocks`)
fn cf_obs_written(book: &Spreadsheet) -> String {
    let mut v = vec![];
    for i in 0..book.get_sheet_count() {
        for b in book.get_sheet(&i).unwrap().get_conditional_formatting_collection() {
            if !b.get_conditional_collection().is_empty() {
                v.push(block_obs(b));
            }
        }
    }
    v.join("!")
}

// ---------------------------------------------------------------- cases

struct Built {
    book: Spreadsheet,
    dv_specs: Vec<String>,    // sheet 1
    block_specs: Vec<String>, // all sheets, in sheet order
}

fn gen_case(seed: u64, out: &mut Out) -> Built {
    let mut rng = Rng::new(seed ^ 0xC06C0DEC);
    let mut book = umya_spreadsheet::new_file_empty_worksheet();
    let nsheets = if rng.chance(1, 3) { 2 } else { 1 };
    let pool = style_pool();
    let mut dv_specs = vec![];
    let mut block_specs = vec![];
    let mut k = (seed % 18) as usize;
    for s in 0..nsheets {
        let ws = book.new_sheet(format!("S{}", s + 1)).unwrap();
        if s == 0 {
            let n = *rng.pick(&[0u64, 1, 2, 3, 5, 8]);
            if n > 0 || rng.chance(1, 2) {
                let mut dvs = DataValidations::default();
                for j in 0..n {
                    let (dv, spec) = gen_dv(&mut rng, k + j as usize, out);
                    dvs.add_data_validation_list(dv);
                    dv_specs.push(spec);
                }
                ws.set_data_validations(dvs);
            }
            out.count(&format!("codec.dv.count.{}", n));
        }
        let nb = *rng.pick(&[0u64, 1, 2, 3, 4]);
        out.count(&format!("codec.cf.blocks.{}", nb));
        for _ in 0..nb {
            let mut f = ConditionalFormatting::default();
            // a block without ranges (sqref="") and a block without rules (not written) now and then
            let nr = if rng.chance(1, 10) { 0 } else { rng.range(1, 3) };
            out.count(&format!("codec.cf.ranges-per-block.{}", nr));
            let ranges: Vec<String> = (0..nr).map(|_| rand_range(&mut rng, false)).collect();
            set_sqref(f.get_sequence_of_references_mut(), &ranges);
            let nrules = *rng.pick(&[0u64, 1, 1, 1, 1, 1, 2, 2, 3, 4]);
            out.count(&format!("codec.cf.rules-per-block.{}", nrules));
            let mut rs = vec![];
            for _ in 0..nrules {
                k += 1;
                let (r, spec) = gen_rule(&mut rng, k, out, &pool, true);
                f.add_conditional_collection(r);
                rs.push(spec);
            }
            ws.add_conditional_formatting_collection(f);
            block_specs.push(format!("{}@{}", ranges.join("+"), rs.join(";")));
        }
    }
    Built { book, dv_specs, block_specs }
}

fn witness(id: &str, out: &mut Out) -> Result<Built, String> {
    let mut book = umya_spreadsheet::new_file_empty_worksheet();
    let ws = book.new_sheet("S1").unwrap();
    let mut dv_specs = vec![];
    let mut block_specs = vec![];
    let unset = |n: usize| vec!["~".to_string(); n];
    let rule_spec = |set: &[(usize, String)]| {
        let mut t = unset(17);
        for (i, v) in set {
            t[*i] = format!("={}", v);
        }
        t.join(",")
    };
    match id {
        "dv-type-none" => {
            let mut dvs = DataValidations::default();
            for (v, n) in dv_types() {
                let mut dv = DataValidation::default();
                dv.set_type(v);
                set_sqref(dv.get_sequence_of_references_mut(), &["A1".to_string()]);
                dvs.add_data_validation_list(dv);
                let mut t = unset(12);
                t[0] = format!("={}", n);
                t[9] = "=A1".into();
                dv_specs.push(t.join(","));
            }
            ws.set_data_validations(dvs);
        }
        "dv-formula-blank" => {
            let mut dvs = DataValidations::default();
            let mut dv = DataValidation::default();
            dv.set_type(DataValidationValues::List);
            dv.set_formula1(" \"a, b\" ");
            dv.set_formula2(" ");
            set_sqref(dv.get_sequence_of_references_mut(), &["B2:B9".to_string()]);
            dvs.add_data_validation_list(dv);
            ws.set_data_validations(dvs);
            let mut t = unset(12);
            t[0] = "=list".into();
            t[9] = "=B2:B9".into();
            t[10] = format!("={}", hex(" \"a, b\" "));
            t[11] = format!("={}", hex(" "));
            dv_specs.push(t.join(","));
        }
        "cf-formula-blank" => {
            let mut f = ConditionalFormatting::default();
            set_sqref(f.get_sequence_of_references_mut(), &["A1:A9".to_string()]);
            let mut r = ConditionalFormattingRule::default();
            r.set_type(ConditionalFormatValues::Expression);
            r.set_priority(1);
            let mut fm = Formula::default();
            fm.set_string_value(" $A1>3 ");
            r.set_formula(fm);
            f.add_conditional_collection(r);
            ws.add_conditional_formatting_collection(f);
            block_specs.push(format!("A1:A9@{}", rule_spec(&[(0, "expression".into()), (4, "1".into()), (16, format!("s:{}", hex(" $A1>3 ")))])));
        }
        "cf-iconset" => {
            let mut f = ConditionalFormatting::default();
            set_sqref(f.get_sequence_of_references_mut(), &["A1:A9".to_string()]);
            let mut r = ConditionalFormattingRule::default();
            r.set_type(ConditionalFormatValues::IconSet);
            r.set_priority(1);
            let mut ic = IconSet::default();
            for v in ["0", "33", "67"] {
                let mut o = ConditionalFormatValueObject::default();
                o.set_type(ConditionalFormatValueObjectValues::Percent);
                o.set_val(v);
                ic.add_cfvo_collection(o);
            }
            r.set_icon_set(ic);
            f.add_conditional_collection(r);
            ws.add_conditional_formatting_collection(f);
            let sc = format!("=percent:={}_=percent:={}_=percent:={}/", hex("0"), hex("33"), hex("67"));
            block_specs.push(format!("A1:A9@{}", rule_spec(&[(0, "iconSet".into()), (4, "1".into()), (15, sc)])));
        }
        "cf-dxf-collision" => {
            // two fonts whose field texts concatenate to the same string: Arial1 + 1, Arial + 11
            let pool = style_pool();
            let mut f = ConditionalFormatting::default();
            set_sqref(f.get_sequence_of_references_mut(), &["A1:A9".to_string()]);
            let mut rs = vec![];
            for (j, i) in [3usize, 4].iter().enumerate() {
                let mut r = ConditionalFormattingRule::default();
                r.set_type(ConditionalFormatValues::Expression);
                r.set_priority(j as i32 + 1);
                let st = build_style(&pool[*i]);
                rs.push(rule_spec(&[(0, "expression".into()), (3, hex(&style_sig(&st))), (4, (j + 1).to_string())]));
                r.set_style(st);
                f.add_conditional_collection(r);
            }
            ws.add_conditional_formatting_collection(f);
            block_specs.push(format!("A1:A9@{}", rs.join(";")));
        }
        "cf-blank-color" => {
            let mut f = ConditionalFormatting::default();
            set_sqref(f.get_sequence_of_references_mut(), &["A1:A9".to_string()]);
            let mut r = ConditionalFormattingRule::default();
            r.set_type(ConditionalFormatValues::ColorScale);
            r.set_priority(1);
            let mut cs = ColorScale::default();
            cs.add_color_collection(Color::default());
            let mut red = Color::default();
            red.set_argb("FFF8696B");
            cs.add_color_collection(red);
            r.set_color_scale(cs);
            f.add_conditional_collection(r);
            ws.add_conditional_formatting_collection(f);
            let sc = format!("/~:~:~:~_~:~:={}:~", hex("FFF8696B"));
            block_specs.push(format!("A1:A9@{}", rule_spec(&[(0, "colorScale".into()), (4, "1".into()), (13, sc)])));
        }
        "cf-empty-sqref" => {
            let mut f = ConditionalFormatting::default();
            let mut r = ConditionalFormattingRule::default();
            r.set_type(ConditionalFormatValues::Expression);
            r.set_priority(1);
            f.add_conditional_collection(r);
            ws.add_conditional_formatting_collection(f);
            block_specs.push(format!("@{}", rule_spec(&[(0, "expression".into()), (4, "1".into())])));
        }
        "cf-no-rules" => {
            let mut f = ConditionalFormatting::default();
            set_sqref(f.get_sequence_of_references_mut(), &["A1".to_string()]);
            ws.add_conditional_formatting_collection(f);
            block_specs.push("A1@".to_string());
            let mut f = ConditionalFormatting::default();
            set_sqref(f.get_sequence_of_references_mut(), &["B2".to_string()]);
            let mut r = ConditionalFormattingRule::default();
            r.set_priority(1);
            f.add_conditional_collection(r);
            ws.add_conditional_formatting_collection(f);
            block_specs.push(format!("B2@{}", rule_spec(&[(4, "1".into())])));
        }
        _ => return Err(format!("unknown codec witness {}", id)),
    }
    out.count(&format!("codec.witness.{}", id));
    Ok(Built { book, dv_specs, block_specs })
}

fn part<'a>(parts: &'a [(String, Vec<u8>)], name: &str) -> Option<&'a str> {
    parts.iter().find(|(n, _)| n == name).and_then(|(_, d)| std::str::from_utf8(d).ok())
}

/// every top-level `<name …/>` or `<name …>…</name>` of a part, as raw text (the elements concerned never nest in themselves)
fn elements<'a>(xml: &'a str, name: &str) -> Vec<&'a str> {
    let open = format!("<{}", name);
    let close = format!("</{}>", name);
    let mut out = vec![];
    let mut rest = xml;
    while let Some(i) = rest.find(&open) {
        let after = &rest[i + open.len()..];
        if !(after.starts_with(' ') || after.starts_with('>') || after.starts_with('/')) {
            rest = after;
            continue;
        }
        let gt = match after.find('>') {
            Some(j) => j,
            None => break,
        };
        if after[..gt].ends_with('/') {
            out.push(&rest[i..i + open.len() + gt + 1]);
            rest = &after[gt + 1..];
        } else {
            match after.find(&close) {
                Some(j) => {
                    out.push(&rest[i..i + open.len() + j + close.len()]);
                    rest = &after[j + close.len()..];
                }
                None => break,
            }
        }
    }
    out
}

fn or_dash(s: String) -> String {
    if s.is_empty() {
        "-".into()
    } else {
        s
    }
}

/// the tie lines for one written package
fn tie(out: &mut Out, built: &Built, t0: &str, parts: &[(String, Vec<u8>)], back: &Spreadsheet, gen2: bool) -> Option<String> {
    let n = built.book.get_sheet_count();
    // --- data validations (sheet 1)
    if !gen2 {
        if let Some(sx) = part(parts, "xl/worksheets/sheet1.xml") {
            let raw = elements(sx, "dataValidations");
            if built.book.get_sheet(&0).unwrap().get_data_validations().is_some() {
                let line = format!("c06 dvs {} {}", or_dash(built.dv_specs.join("|")), or_dash(hex(raw.first().copied().unwrap_or(""))));
                out.begin(&line);
                let rd = back.get_sheet(&0).map(dvs_obs).unwrap_or("?".into());
                out.end(&line, &format!("tree=eq;r={}", rd), true);
                out.count("tie.dvs");
                out.count_n("tie.dvs.items", built.dv_specs.len() as u64);
            } else if !raw.is_empty() {
                out.oracle_fail(Fail::new("codec-unexpected-element").with("kind", "dv"));
            }
        }
    }
    // --- conditional formatting (all sheets) + dxfs
    let mut raw_cf = String::from("<x>");
    for i in 0..n {
        if let Some(sx) = part(parts, &format!("xl/worksheets/sheet{}.xml", i + 1)) {
            for e in elements(sx, "conditionalFormatting") {
                raw_cf.push_str(e);
            }
        }
    }
    raw_cf.push_str("</x>");
    let styles = part(parts, "xl/styles.xml").unwrap_or("");
    let dxfs = elements(styles, "dxfs");
    let line = format!("c06 cf {} {} {} {}", t0, or_dash(built.block_specs.join("!")), hex(&raw_cf), or_dash(hex(dxfs.first().copied().unwrap_or(""))));
    out.begin(&line);
    let rd = cf_obs(back);
    out.end(&line, &format!("tree=eq;dxf=eq;r={}", rd), true);
    out.count(if gen2 { "tie.cf.second-generation" } else { "tie.cf" });
    out.count_n("tie.cf.blocks", built.block_specs.len() as u64);
    // the table the model must start from in the next generation: asked from the driver's reply is not possible
    // here (one-way protocol), so the harness recomputes it from the reloaded rules in document order: first
    // occurrence of each style signature, after the entries already there
    None
}

fn reload(bytes: &[u8]) -> Result<Spreadsheet, String> {
    match guard(|| umya_spreadsheet::reader::xlsx::read_reader(std::io::Cursor::new(bytes), true)) {
        Ok(Ok(b)) => Ok(b),
        Ok(Err(e)) => Err(format!("{:?}", e)),
        Err(_) => Err("panic".into()),
    }
}

/// style signatures in first-occurrence order over all rules in writing order: the dxf table a new workbook gets
fn table_of(book: &Spreadsheet) -> Vec<String> {
    let mut t: Vec<String> = vec![];
    for i in 0..book.get_sheet_count() {
        for b in book.get_sheet(&i).unwrap().get_conditional_formatting_collection() {
            for r in b.get_conditional_collection() {
                if let Some(s) = r.get_style() {
                    let sig = style_sig(s);
                    if !t.contains(&sig) {
                        t.push(sig);
                    }
                }
            }
        }
    }
    t
}

pub fn run_case(out: &mut Out, header: &str) {
    let a: Vec<&str> = header.split(' ').collect();
    out.begin(header);
    let built = match a.get(2).copied() {
        Some("codec") => {
            let seed = a.get(3).and_then(|x| x.parse().ok()).unwrap_or(0);
            guard(|| gen_case(seed, out)).map_err(|_| "generator panicked".to_string())
        }
        Some("codecw") => guard(|| witness(a.get(3).copied().unwrap_or(""), out)).map_err(|_| "witness panicked".to_string()).and_then(|x| x),
        _ => Err("bad case".into()),
    };
    out.end(header, "ok", false);
    let built = match built {
        Ok(b) => b,
        Err(e) => {
            out.oracle_fail(Fail::new("case-build-failed").with("op", header).with("detail", e));
            return;
        }
    };
    out.count(&format!("case.{}", a[2]));
    out.count("programs");
    let before_dv = built.book.get_sheet(&0).map(dvs_obs).unwrap_or_default();
    let before_cf = cf_obs_written(&built.book);
    let bytes = match guard(|| wb::save_bytes(&built.book, false)) {
        Ok(Ok(b)) => b,
        _ => {
            out.oracle_fail(Fail::new("save-failed").with("op", header));
            return;
        }
    };
    let back = match reload(&bytes) {
        Ok(b) => b,
        Err(e) => {
            out.oracle_fail(Fail::new("reload-failed").with("op", header).with("detail", e));
            return;
        }
    };
    // oracle: getter view before == after (conditional formats: of the blocks that have a rule)
    let after_dv = back.get_sheet(&0).map(dvs_obs).unwrap_or_default();
    let after_cf = cf_obs(&back);
    for (kind, b, af) in [("dv", &before_dv, &after_dv), ("cf", &before_cf, &after_cf)] {
        if b == af {
            out.oracle_ok();
        } else {
            let (bi, ai): (Vec<&str>, Vec<&str>) = (b.split(['|', '!', ';']).collect(), af.split(['|', '!', ';']).collect());
            let k = bi.iter().zip(ai.iter()).position(|(x, y)| x != y).unwrap_or(bi.len().min(ai.len()));
            out.oracle_fail(
                Fail::new("codec-changed")
                    .with("op", header)
                    .with("kind", kind)
                    .with("detail", format!("item {}: before={} after={}", k, bi.get(k).unwrap_or(&"<none>"), ai.get(k).unwrap_or(&"<none>")).chars().take(900).collect::<String>()),
            );
            out.count(&format!("changed.codec.{}", kind));
        }
    }
    if let Ok(parts) = unzip_all(&bytes) {
        let _ = guard(|| tie(out, &built, "-", &parts, &back, false));
    }
    // second generation: the reloaded workbook saved again starts from the loaded dxf table
    let t1 = table_of(&built.book);
    if let Ok(Ok(b2)) = guard(|| wb::save_bytes(&back, false)) {
        match reload(&b2) {
            Ok(back2) => {
                let cf2 = cf_obs(&back2);
                let dv2 = back2.get_sheet(&0).map(dvs_obs).unwrap_or_default();
                if cf2 == after_cf && dv2 == after_dv {
                    out.oracle_ok();
                } else {
                    out.oracle_fail(Fail::new("codec-second-generation-differs").with("op", header).with("kind", if cf2 == after_cf { "dv" } else { "cf" }));
                }
                if after_cf == before_cf {
                    if let Ok(parts2) = unzip_all(&b2) {
                        let t0 = or_dash(t1.iter().map(|s| hex(s)).collect::<Vec<_>>().join(","));
                        let _ = guard(|| tie(out, &built, &t0, &parts2, &back2, true));
                    }
                }
            }
            Err(e) => out.oracle_fail(Fail::new("second-reload-failed").with("op", header).with("detail", e)),
        }
    } else {
        out.oracle_fail(Fail::new("second-save-failed").with("op", header));
    }
}

pub fn gen(tier: Tier, rng: &mut Rng) -> Vec<String> {
    let mut v = vec![];
    for w in WITNESSES {
        v.push(format!("c06 reset codecw {}", w));
    }
    let n = if tier == Tier::Thorough { 1500 } else { 150 };
    for _ in 0..n {
        v.push(format!("c06 reset codec {}", rng.next() % 1_000_000_007));
    }
    v
}
