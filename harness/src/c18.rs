//! C18 — date serial numbers <-> calendar dates (1900 system), and date-formatted display.
//!
//!   c18 ser y m d h mi s        -> "<bits> Y M D h m s"  (convert_date, then excel_to_date_time_object
//!                                  of the result) | panic
//!   c18 dt <bits>               -> "Y M D h m s" (excel_to_date_time_object) | panic
//!   c18 fmt <hex fmt> <bits>    -> hex(get_formatted_value of a numeric cell with that number format) | panic
//!   c18 bser k0 n secs          -> rolling hash of `ser` over days k0..k0+n-1 (0 = 1900-01-01) at `secs`
//!   c18 bsec y m d s0 n         -> rolling hash of `ser` over seconds s0..s0+n-1 of one day
//!
//! f64 values travel as IEEE-754 bit patterns (decimal u64).
//!
//! Display: every code of `SIMPLE_CODES` (= the token lists of `Umya.Thm.C18.C18_simple_codes`) goes through
//! `get_formatted_value` on a day stream and a second stream; the oracle is the token-by-token text
//! (counters `fmt.<code>` = requests, `simple.<code>` = oracle evaluations).
//!
//! Oracle (independent of the crate, of chrono and of the Lean model): a naive calendar
//! (leap rule, month table, cumulative day count from 0001-01-01) gives the expected serial day,
//! the expected date of a serial and the next second.
use crate::common::*;
use chrono::{Datelike, Timelike};
use std::cell::RefCell;
use umya_spreadsheet::helper::date::{convert_date, excel_to_date_time_object};

// ------------------------------------------------------------------ naive reference calendar
fn is_leap(y: i64) -> bool {
    y % 4 == 0 && (y % 100 != 0 || y % 400 == 0)
}
fn dim(y: i64, m: i64) -> i64 {
    match m {
        1 | 3 | 5 | 7 | 8 | 10 | 12 => 31,
        4 | 6 | 9 | 11 => 30,
        2 => {
            if is_leap(y) {
                29
            } else {
                28
            }
        }
        _ => 0,
    }
}
fn valid_date(y: i64, m: i64, d: i64) -> bool {
    y >= 1 && (1..=12).contains(&m) && d >= 1 && d <= dim(y, m)
}
/// days from 0001-01-01 to y-01-01
fn days_before_year(y: i64) -> i64 {
    let p = y - 1;
    365 * p + p / 4 - p / 100 + p / 400
}
const CUM: [i64; 12] = [0, 31, 59, 90, 120, 151, 181, 212, 243, 273, 304, 334];
/// 0001-01-01 = 0
fn day_number(y: i64, m: i64, d: i64) -> i64 {
    days_before_year(y) + CUM[(m - 1) as usize] + if m > 2 && is_leap(y) { 1 } else { 0 } + d - 1
}
fn civil_of(n: i64) -> (i64, i64, i64) {
    let mut y = n / 366 + 1;
    while days_before_year(y + 1) <= n {
        y += 1;
    }
    let mut r = n - days_before_year(y);
    let mut m = 1;
    while r >= dim(y, m) {
        r -= dim(y, m);
        m += 1;
    }
    (y, m, r + 1)
}
fn next_day(y: i64, m: i64, d: i64) -> (i64, i64, i64) {
    if d < dim(y, m) {
        (y, m, d + 1)
    } else if m < 12 {
        (y, m + 1, 1)
    } else {
        (y + 1, 1, 1)
    }
}
fn in_domain(y: i64, m: i64, d: i64) -> bool {
    valid_date(y, m, d) && (1900..=9999).contains(&y)
}
/// the serial day the 1900 date system defines for a calendar date
fn expected_serial_day(y: i64, m: i64, d: i64) -> i64 {
    let n = day_number(y, m, d) - day_number(1899, 12, 30);
    if (y, m, d) < (1900, 3, 1) {
        n - 1
    } else {
        n
    }
}
/// the calendar date the 1900 date system defines for a serial day (1..=59, 61..)
fn expected_date_of_serial_day(n: i64) -> Option<(i64, i64, i64)> {
    if (1..=59).contains(&n) {
        Some(civil_of(n + 1 + day_number(1899, 12, 30)))
    } else if n >= 61 && n <= 2958465 {
        Some(civil_of(n + day_number(1899, 12, 30)))
    } else {
        None
    }
}

// ------------------------------------------------------------------ implementation calls
type Dt = (i64, i64, i64, i64, i64, i64);

fn dt_fields(t: &chrono::NaiveDateTime) -> Dt {
    (
        t.year() as i64,
        t.month() as i64,
        t.day() as i64,
        t.hour() as i64,
        t.minute() as i64,
        t.second() as i64,
    )
}
fn dt_str(t: &Dt) -> String {
    format!("{} {} {} {} {} {}", t.0, t.1, t.2, t.3, t.4, t.5)
}
fn impl_serial(y: i64, m: i64, d: i64, h: i64, mi: i64, s: i64) -> Result<f64, ()> {
    guard(|| convert_date(y as i32, m as i32, d as i32, h as i32, mi as i32, s as i32))
}
fn impl_dt(x: f64) -> Result<Dt, ()> {
    guard(|| dt_fields(&excel_to_date_time_object(&x, None)))
}

thread_local! {
    static BOOK: RefCell<umya_spreadsheet::Spreadsheet> = RefCell::new(umya_spreadsheet::new_file());
}
fn impl_formatted(fmt: &str, x: f64) -> Result<String, ()> {
    guard(|| {
        BOOK.with(|b| {
            let mut b = b.borrow_mut();
            let ws = b.get_sheet_mut(&0).unwrap();
            ws.get_cell_mut("A1").set_value_number(x);
            ws.get_style_mut("A1").get_number_format_mut().set_format_code(fmt);
            ws.get_formatted_value("A1")
        })
    })
}

fn mix(h: u64, w: u64) -> u64 {
    (h ^ w).wrapping_mul(0x100000001b3)
}

/// One `ser` evaluation: implementation result, oracle, hash contribution.
/// Returns (reply, nontrivial, hash after).
fn ser_item(out: &mut Out, h0: u64, y: i64, m: i64, d: i64, secs_or_hms: (i64, i64, i64), line: &dyn Fn() -> String) -> (String, bool, u64) {
    let (h, mi, s) = secs_or_hms;
    let r = impl_serial(y, m, d, h, mi, s);
    let x = match r {
        Ok(x) => x,
        Err(_) => {
            if in_domain(y, m, d) && (0..24).contains(&h) && (0..60).contains(&mi) && (0..60).contains(&s) {
                out.oracle_fail(Fail::new("serial-panic").with("op", line()));
            }
            return ("panic".into(), false, mix(h0, 0xdead));
        }
    };
    let big = !(x.abs() < 5.0e7);
    let back = if big { Err(()) } else { impl_dt(x) };
    let time_ok = (0..24).contains(&h) && (0..60).contains(&mi) && (0..60).contains(&s);
    let dom = in_domain(y, m, d) && time_ok;
    if dom {
        let secs = h * 3600 + mi * 60 + s;
        let want_day = expected_serial_day(y, m, d);
        let got_day = x.floor();
        let got_secs = ((x - got_day) * 86400.0).round();
        let mut bad: Vec<String> = vec![];
        if got_day != want_day as f64 || got_secs != secs as f64 {
            bad.push(format!("serial day/secs got {}/{} want {}/{}", got_day, got_secs, want_day, secs));
        }
        // distance from the correctly rounded value of D + T/86400 (information only)
        let exact = want_day as f64 + (secs as f64) / 86400.0;
        if x.to_bits() != exact.to_bits() {
            out.count("ser.differs-from-two-step-rounding");
        }
        match &back {
            Ok(t) => {
                if *t != (y, m, d, h, mi, s) {
                    bad.push(format!("round trip gives {}", dt_str(t)));
                }
            }
            Err(_) => bad.push("round trip panics".into()),
        }
        // strictly increasing: the next second has a larger serial
        let (ny, nm, nd, nh, nmi, ns) = if secs == 86399 {
            let (a, b, c) = next_day(y, m, d);
            (a, b, c, 0, 0, 0)
        } else {
            let t = secs + 1;
            (y, m, d, t / 3600, t % 3600 / 60, t % 60)
        };
        if ny <= 9999 {
            match impl_serial(ny, nm, nd, nh, nmi, ns) {
                Ok(nx) => {
                    if !(nx > x) {
                        bad.push(format!("not increasing: next second has serial {} <= {}", nx, x));
                    }
                }
                Err(_) => bad.push("next second panics".into()),
            }
        }
        if bad.is_empty() {
            out.oracle_ok();
        } else {
            out.oracle_fail(
                Fail::new("serial")
                    .with("op", line())
                    .with("serial", format!("{}", x))
                    .with("what", bad.join("; ")),
            );
        }
    }
    let mut hh = mix(h0, x.to_bits());
    let reply = match &back {
        Ok(t) => {
            for w in [t.0, t.1, t.2, t.3, t.4, t.5] {
                hh = mix(hh, w as u64);
            }
            format!("{} {}", x.to_bits(), dt_str(t))
        }
        Err(_) => {
            hh = mix(hh, 0xdead);
            format!("{} {}", x.to_bits(), if big { "-" } else { "panic" })
        }
    };
    (reply, dom, hh)
}

/// Tokens of a date-format code, as the harness reads them (mirrors `Umya.Lemmas.DateDisplay.Tok`;
/// `Mi` = minutes, written `mm` like the month).
#[derive(Clone, Copy)]
enum Tk {
    Yyyy,
    Yy,
    Mmm,
    Mm,
    M,
    Dd,
    D,
    Hh,
    H,
    Mi,
    Ss,
    L(char),
    Mmmm,
    Ddd,
    Dddd,
    H12,
    Hh12,
    Ampm,
}
use Tk::*;
const MONTHS: [&str; 12] =
    ["January", "February", "March", "April", "May", "June", "July", "August", "September", "October", "November", "December"];
const DAYS: [&str; 7] = ["Sunday", "Monday", "Tuesday", "Wednesday", "Thursday", "Friday", "Saturday"];
/// 0 = Sunday; 1970-01-01 was a Thursday (the harness's own calendar)
fn weekday_of(y: i64, m: i64, d: i64) -> usize {
    ((day_number(y, m, d) - day_number(1970, 1, 1) + 4).rem_euclid(7)) as usize
}
/// the hour of the 12-hour clock: 0 and 12 o'clock are written 12
fn hour12(h: i64) -> i64 {
    if h % 12 == 0 {
        12
    } else {
        h % 12
    }
}
const MON3: [&str; 12] = ["Jan", "Feb", "Mar", "Apr", "May", "Jun", "Jul", "Aug", "Sep", "Oct", "Nov", "Dec"];
fn tk_text(t: &Tk) -> String {
    match t {
        Yyyy => "yyyy".into(),
        Yy => "yy".into(),
        Mmm => "mmm".into(),
        Mm | Mi => "mm".into(),
        M => "m".into(),
        Dd => "dd".into(),
        D => "d".into(),
        Hh | Hh12 => "hh".into(),
        H | H12 => "h".into(),
        Ss => "ss".into(),
        L(c) => c.to_string(),
        Mmmm => "mmmm".into(),
        Ddd => "ddd".into(),
        Dddd => "dddd".into(),
        Ampm => "AM/PM".into(),
    }
}
/// the text a token stands for (independent of the crate and of chrono)
fn tk_show(t: &Tk, dt: &Dt) -> String {
    let (y, m, d, h, mi, s) = *dt;
    match t {
        Yyyy => format!("{:04}", y),
        Yy => format!("{:02}", y % 100),
        Mmm => MON3[(m - 1) as usize].into(),
        Mm => format!("{:02}", m),
        M => format!("{}", m),
        Dd => format!("{:02}", d),
        D => format!("{}", d),
        Hh => format!("{:02}", h),
        H => format!("{}", h),
        Mi => format!("{:02}", mi),
        Ss => format!("{:02}", s),
        L(c) => c.to_string(),
        Mmmm => MONTHS[(m - 1) as usize].into(),
        Ddd => DAYS[weekday_of(y, m, d)][0..3].into(),
        Dddd => DAYS[weekday_of(y, m, d)].into(),
        H12 => format!("{}", hour12(h)),
        Hh12 => format!("{:02}", hour12(h)),
        // Excel writes the marker in capitals
        Ampm => (if h < 12 { "AM" } else { "PM" }).into(),
    }
}
/// The codes of `Umya.Thm.C18.C18_simple_codes` (same order, same token lists): every one is sent through
/// `get_formatted_value` on the day and second streams and compared with the token-by-token text.
const SIMPLE_CODES: [(&str, &[Tk]); 27] = [
    ("yyyy-mm-dd", &[Yyyy, L('-'), Mm, L('-'), Dd]),
    ("yyyy-mm-dd hh:mm:ss", &[Yyyy, L('-'), Mm, L('-'), Dd, L(' '), Hh, L(':'), Mi, L(':'), Ss]),
    ("dd/mm/yyyy", &[Dd, L('/'), Mm, L('/'), Yyyy]),
    ("yyyy/mm/dd", &[Yyyy, L('/'), Mm, L('/'), Dd]),
    ("m/d/yyyy", &[M, L('/'), D, L('/'), Yyyy]),
    ("d-mmm-yy", &[D, L('-'), Mmm, L('-'), Yy]),
    ("d-mmm", &[D, L('-'), Mmm]),
    ("mmm-yy", &[Mmm, L('-'), Yy]),
    ("h:mm", &[H, L(':'), Mi]),
    ("h:mm:ss", &[H, L(':'), Mi, L(':'), Ss]),
    ("m/d/yyyy h:mm", &[M, L('/'), D, L('/'), Yyyy, L(' '), H, L(':'), Mi]),
    ("m/d/yy", &[M, L('/'), D, L('/'), Yy]),
    ("mm:ss", &[Mi, L(':'), Ss]),
    ("d/m/yy", &[D, L('/'), M, L('/'), Yy]),
    ("dd-mm-yyyy", &[Dd, L('-'), Mm, L('-'), Yyyy]),
    ("mm-dd-yy", &[Mm, L('-'), Dd, L('-'), Yy]),
    ("m/d/yy h:mm", &[M, L('/'), D, L('/'), Yy, L(' '), H, L(':'), Mi]),
    ("dd.mm.yyyy, hh:mm", &[Dd, L('.'), Mm, L('.'), Yyyy, L(','), L(' '), Hh, L(':'), Mi]),
    // `C18_simple_codes_names` (same order): built-in 18, 19, month and weekday names
    ("h:mm AM/PM", &[H12, L(':'), Mi, L(' '), Ampm]),
    ("h:mm:ss AM/PM", &[H12, L(':'), Mi, L(':'), Ss, L(' '), Ampm]),
    ("hh:mm AM/PM", &[Hh12, L(':'), Mi, L(' '), Ampm]),
    ("dddd, mmmm d, yyyy", &[Dddd, L(','), L(' '), Mmmm, L(' '), D, L(','), L(' '), Yyyy]),
    ("ddd d mmm yyyy", &[Ddd, L(' '), D, L(' '), Mmm, L(' '), Yyyy]),
    ("mmmm yyyy", &[Mmmm, L(' '), Yyyy]),
    ("d mmmm yyyy", &[D, L(' '), Mmmm, L(' '), Yyyy]),
    ("d-mmm-yy h:mm AM/PM", &[D, L('-'), Mmm, L('-'), Yy, L(' '), H12, L(':'), Mi, L(' '), Ampm]),
    ("ddd hh:mm", &[Ddd, L(' '), Hh, L(':'), Mi]),
];

// ---- the syntactic class `Umya.Thm.C18.SimpleSyntax` (mirror of `Umya.Lemmas.DateSyntax.vocab` / `simpleSyntax`)
const YEAR_T: [Tk; 2] = [Yyyy, Yy];
const MONTH_T: [Tk; 4] = [Mmmm, Mmm, Mm, M];
const DAY_T: [Tk; 2] = [Dd, D];
fn hour_t(pm: bool) -> [Tk; 2] {
    if pm {
        [H12, Hh12]
    } else {
        [H, Hh]
    }
}
fn join2(c: char, a: &[Tk], b: &[Tk], out: &mut Vec<Vec<Tk>>) {
    for x in a {
        for y in b {
            out.push(vec![*x, L(c), *y]);
        }
    }
}
fn join3(c: char, a: &[Tk], b: &[Tk], d: &[Tk], out: &mut Vec<Vec<Tk>>) {
    for x in a {
        for y in b {
            for z in d {
                out.push(vec![*x, L(c), *y, L(c), *z]);
            }
        }
    }
}
/// the words of the vocabulary for the clock mode (`pm` = the code has an `AM/PM` marker)
fn vocab(pm: bool) -> Vec<Vec<Tk>> {
    let mut v: Vec<Vec<Tk>> = vec![vec![]];
    for t in YEAR_T.iter().chain(MONTH_T.iter()).chain(DAY_T.iter()).chain([Dddd, Ddd, Ss].iter()).chain(hour_t(pm).iter()) {
        v.push(vec![*t]);
    }
    if pm {
        v.push(vec![Ampm]);
    }
    for h in hour_t(pm) {
        v.push(vec![h, L(':'), Mi]);
        v.push(vec![h, L(':'), Mi, L(':'), Ss]);
    }
    v.push(vec![Mi, L(':'), Ss]);
    for c in ['/', '.'] {
        join2(c, &YEAR_T, &MONTH_T, &mut v);
        join2(c, &MONTH_T, &YEAR_T, &mut v);
        join2(c, &MONTH_T, &DAY_T, &mut v);
        join2(c, &DAY_T, &MONTH_T, &mut v);
        join3(c, &YEAR_T, &MONTH_T, &DAY_T, &mut v);
        join3(c, &DAY_T, &MONTH_T, &YEAR_T, &mut v);
        join3(c, &MONTH_T, &DAY_T, &YEAR_T, &mut v);
    }
    v
}
fn is_field(t: &Tk) -> bool {
    !matches!(t, L(_) | Ampm)
}
/// reads a format code as a token list of the syntactic class: cut at `-` `,` blank, every piece a word of
/// the vocabulary (looked up by its text; no two words of one mode spell the same), one field at least
fn syntax_tokens(fmt: &str) -> Option<Vec<Tk>> {
    let pm = fmt.contains("AM/PM");
    let words = vocab(pm);
    let mut toks: Vec<Tk> = vec![];
    let mut piece = String::new();
    let flush = |piece: &mut String, toks: &mut Vec<Tk>| -> bool {
        let hit: Vec<&Vec<Tk>> = words.iter().filter(|w| w.iter().map(tk_text).collect::<String>() == *piece).collect();
        if hit.len() != 1 {
            return false;
        }
        toks.extend(hit[0].iter().copied());
        piece.clear();
        true
    };
    for ch in fmt.chars() {
        if ch == '-' || ch == ',' || ch == ' ' {
            if !flush(&mut piece, &mut toks) {
                return None;
            }
            toks.push(L(ch));
        } else {
            piece.push(ch);
        }
    }
    if !flush(&mut piece, &mut toks) {
        return None;
    }
    if toks.iter().any(is_field) {
        Some(toks)
    } else {
        None
    }
}
/// a random member of the syntactic class: 1..=6 words joined by one or two of `-` `,` blank
fn random_syntax_code(rng: &mut Rng) -> String {
    loop {
        let pm = rng.chance(1, 3);
        let words = vocab(pm);
        let n = 1 + rng.below(6) as usize;
        let mut toks: Vec<Tk> = vec![];
        for i in 0..n {
            if i > 0 {
                toks.push(L(*rng.pick(&['-', ',', ' ', ' '])));
                if rng.chance(1, 5) {
                    toks.push(L(' '));
                }
            }
            toks.extend(rng.pick(&words).iter().copied());
        }
        if pm {
            toks.push(L(' '));
            toks.push(Ampm);
        }
        let text: String = toks.iter().map(tk_text).collect();
        if toks.iter().any(is_field) && syntax_tokens(&text).is_some() {
            return text;
        }
    }
}

/// formats whose expected text the harness knows how to build itself: the `SIMPLE_CODES`, token by token
/// (trimmed of blanks at both ends, as `to_formatted_string` does)
fn own_render(fmt: &str, t: &Dt) -> Option<String> {
    // "lit"<code>"lit": quoted literals around ONE code this function knows are shown verbatim around the date
    if fmt.contains('"') {
        let (mut lead, mut trail, mut inner) = (String::new(), String::new(), fmt);
        if let Some(rest) = inner.strip_prefix('"') {
            let k = rest.find('"')?;
            lead = rest[..k].to_string();
            inner = &rest[k + 1..];
        }
        if let Some(rest) = inner.strip_suffix('"') {
            let k = rest.rfind('"')?;
            trail = rest[k + 1..].to_string();
            inner = &rest[..k];
        }
        if inner.is_empty() || inner.contains('"') || lead.contains('\\') || trail.contains('\\') {
            return None;
        }
        let mid = own_render_plain(inner, t)?;
        if mid != mid.trim_matches(' ') || inner != inner.trim_matches(' ') {
            return None;
        }
        return Some(format!("{}{}{}", lead, mid, trail).trim_matches(' ').to_string());
    }
    own_render_plain(fmt, t)
}

fn own_render_plain(fmt: &str, t: &Dt) -> Option<String> {
    for (code, toks) in SIMPLE_CODES.iter() {
        if *code == fmt {
            let s: String = toks.iter().map(|k| tk_show(k, t)).collect();
            return Some(s.trim_matches(' ').to_string());
        }
    }
    if let Some(toks) = syntax_tokens(fmt) {
        let s: String = toks.iter().map(|k| tk_show(k, t)).collect();
        return Some(s.trim_matches(' ').to_string());
    }
    None
}

pub fn exec(out: &mut Out, line: &str) -> (String, bool) {
    let a: Vec<&str> = line.split(' ').collect();
    let int = |i: usize| -> i64 { a[i].parse::<i64>().unwrap() };
    match a[1] {
        "ser" => {
            let (y, m, d, h, mi, s) = (int(2), int(3), int(4), int(5), int(6), int(7));
            let fits = |v: i64| v >= i32::MIN as i64 && v <= i32::MAX as i64;
            if ![y, m, d, h, mi, s].iter().all(|v| fits(*v)) {
                return ("bad-op".into(), false);
            }
            let l = line.to_string();
            let (reply, nt, _) = ser_item(out, 0, y, m, d, (h, mi, s), &|| l.clone());
            out.count(if reply == "panic" { "ser.panic" } else if nt { "ser.in-domain" } else { "ser.out-of-domain" });
            (reply, nt)
        }
        "bser" => {
            let (k0, n, secs) = (int(2), int(3), int(4));
            let (mut y, mut m, mut d) = civil_of(day_number(1900, 1, 1) + k0);
            let hms = (secs / 3600, secs % 3600 / 60, secs % 60);
            let mut h = 0xcbf29ce484222325u64;
            let mut nt_all = true;
            for _ in 0..n {
                let (yy, mm, dd) = (y, m, d);
                let (_, nt, h2) = ser_item(out, h, y, m, d, hms, &|| {
                    format!("c18 ser {} {} {} {} {} {}", yy, mm, dd, hms.0, hms.1, hms.2)
                });
                h = h2;
                nt_all &= nt;
                out.count_n("bser.items", 1);
                let nx = next_day(y, m, d);
                y = nx.0;
                m = nx.1;
                d = nx.2;
            }
            (h.to_string(), nt_all)
        }
        "bsec" => {
            let (y, m, d, s0, n) = (int(2), int(3), int(4), int(5), int(6));
            let mut h = 0xcbf29ce484222325u64;
            let mut nt_all = true;
            for t in s0..s0 + n {
                let hms = (t / 3600, t % 3600 / 60, t % 60);
                let (_, nt, h2) = ser_item(out, h, y, m, d, hms, &|| {
                    format!("c18 ser {} {} {} {} {} {}", y, m, d, hms.0, hms.1, hms.2)
                });
                h = h2;
                nt_all &= nt;
                out.count_n("bsec.items", 1);
            }
            (h.to_string(), nt_all)
        }
        "dt" => {
            let bits: u64 = a[2].parse().unwrap();
            let x = f64::from_bits(bits);
            match impl_dt(x) {
                Ok(t) => {
                    // oracle: serials inside the date system, away from rounding ties
                    let day = x.floor();
                    let fsecs = (x - day) * 86400.0;
                    let rs = fsecs.round();
                    let tie = ((fsecs - fsecs.floor()) - 0.5).abs() < 1e-4;
                    if x.is_finite() && !tie {
                        let (mut dn, mut sec) = (day as i64, rs as i64);
                        if sec == 86400 {
                            dn += 1;
                            sec = 0;
                        }
                        if let Some((ey, em, ed)) = expected_date_of_serial_day(dn) {
                            // a serial in [59.99.., 60) that rounds up to the non-existent day 60 is outside the domain
                            if !(day as i64 == 59 && dn == 60) && !(day as i64 == 60) {
                                let want = (ey, em, ed, sec / 3600, sec % 3600 / 60, sec % 60);
                                if t == want {
                                    out.oracle_ok();
                                } else {
                                    out.oracle_fail(
                                        Fail::new("serial-to-datetime")
                                            .with("op", line)
                                            .with("serial", format!("{}", x))
                                            .with("got", dt_str(&t))
                                            .with("want", dt_str(&want)),
                                    );
                                }
                                out.count("dt.in-domain");
                                return (dt_str(&t), true);
                            }
                        }
                    }
                    out.count(if tie { "dt.near-tie" } else { "dt.out-of-domain" });
                    (dt_str(&t), false)
                }
                Err(_) => {
                    out.count("dt.panic");
                    ("panic".into(), false)
                }
            }
        }
        "fmt" => {
            let fmt = String::from_utf8(unhex(a[2])).unwrap();
            let bits: u64 = a[3].parse().unwrap();
            let x = f64::from_bits(bits);
            if SIMPLE_CODES.iter().any(|(c, _)| *c == fmt) || FORMATS.contains(&fmt.as_str()) || syntax_tokens(&fmt).is_none() {
                out.count(&format!("fmt.{}", fmt));
            } else {
                out.count("fmt.(syntax code)");
            }
            match impl_formatted(&fmt, x) {
                Ok(s) => {
                    let mut nt = false;
                    // oracle: the text shows the calendar date (and time) the date system defines for the serial
                    let day = x.floor();
                    let fsecs = (x - day) * 86400.0;
                    let tie = ((fsecs - fsecs.floor()) - 0.5).abs() < 1e-4;
                    let (mut dn, mut sec) = (day as i64, fsecs.round() as i64);
                    if sec == 86400 {
                        dn += 1;
                        sec = 0;
                    }
                    if x.is_finite() && !tie && day as i64 != 60 && dn != 60 {
                        if let Some((ey, em, ed)) = expected_date_of_serial_day(dn) {
                            let want_t = (ey, em, ed, sec / 3600, sec % 3600 / 60, sec % 60);
                            if let Some(want) = own_render(&fmt, &want_t) {
                                nt = true;
                                if SIMPLE_CODES.iter().any(|(c, _)| *c == fmt) {
                                    out.count(&format!("simple.{}", fmt));
                                } else if fmt.contains('"') {
                                    out.count("quoted-literal.code-compared");
                                } else {
                                    out.count("syntax.code");
                                    out.count(&format!("syntax.len{:02}", fmt.len() / 8 * 8));
                                }
                                // `C18_ampm_case_fails` / `C18_date_display_ampm_partial`: the marker comes out
                                // `am` / `pm` where Excel writes `AM` / `PM`; everything else of the text is compared
                                let lowered = want.replace("AM", "am").replace("PM", "pm");
                                if s == want {
                                    if fmt.contains("AM/PM") {
                                        out.count("ampm.marker-capitals");
                                    }
                                    out.oracle_ok();
                                } else if fmt.contains("AM/PM") && s == lowered {
                                    out.count("ampm.marker-lowercase");
                                    if fmt == "h:mm AM/PM" && s == "12:00 pm" && x == 45435.5 {
                                        out.count("ampm.witness-lowercase");
                                    }
                                    out.oracle_ok();
                                } else {
                                    out.oracle_fail(
                                        Fail::new("display")
                                            .with("op", line)
                                            .with("format", &fmt)
                                            .with("serial", format!("{}", x))
                                            .with("got", &s)
                                            .with("want", &want),
                                    );
                                }
                            }
                        }
                    }
                    (hex(&s), nt)
                }
                Err(_) => {
                    out.count("fmt.panic");
                    ("panic".into(), false)
                }
            }
        }
        "syn" => {
            // membership in the syntactic class: the harness's tokeniser against the Lean predicate `simpleSyntax`
            let fmt = String::from_utf8(unhex(a[2])).unwrap();
            match syntax_tokens(&fmt) {
                Some(toks) => {
                    out.count("syn.member");
                    (format!("1 {}", toks.len()), true)
                }
                None => {
                    out.count("syn.non-member");
                    ("0".into(), false)
                }
            }
        }
        _ => ("bad-op".into(), false),
    }
}

pub const LAST_DAY_INDEX: i64 = 2958463; // 9999-12-31 counted from 1900-01-01 = 0
const TIMES: [i64; 5] = [0, 1, 43199, 43200, 86399];
const REP_DAYS: [(i64, i64, i64); 12] = [
    (1900, 1, 1),
    (1900, 2, 28),
    (1900, 3, 1),
    (1904, 2, 29),
    (1970, 1, 1),
    (1999, 12, 31),
    (2000, 2, 29),
    (2024, 5, 23),
    (2038, 1, 19),
    (2100, 3, 1),
    (5000, 7, 15),
    (9999, 12, 31),
];
const FORMATS: [&str; 22] = [
    "yyyy-mm-dd hh:mm:ss",
    "yyyy-mm-dd",
    "dd/mm/yyyy",
    "yyyy/mm/dd",
    "d/m/yy",
    "h:mm:ss",
    "yyyy-mm-dd;@x",
    "dd-mm-yyyy",
    "d-m-yy",
    "d-m",
    "m-yy",
    "mm-dd-yy",
    "d-mmm-yy",
    "d-mmm",
    "mmm-yy",
    "m/d/yy h:mm",
    "h:mm AM/PM",
    "h:mm:ss AM/PM",
    "mm:ss",
    "mmmm d, yyyy",
    "dddd",
    "ddd dd mmmmm e",
];

fn serial_bits_for(y: i64, m: i64, d: i64, secs: i64) -> u64 {
    // generator-side arithmetic (not the implementation): the serial the date system defines
    (expected_serial_day(y, m, d) as f64 + secs as f64 / 86400.0).to_bits()
}

/// Streams the request lines of a tier to `f` (the thorough tier is too large to collect).
pub fn gen_each(tier: Tier, seed: u64, f: &mut dyn FnMut(String)) {
    let mut rng = Rng::new(seed);
    let thorough = tier == Tier::Thorough;
    // ---- boundary dates (both tiers), valid and invalid
    let mut years: Vec<i64> = vec![1900, 1901, 1903, 1904, 1999, 2000, 2001, 2023, 2024, 2038, 2099, 2100, 2101, 2400, 9996, 9999];
    for c in 19..=99 {
        years.push(c * 100);
        years.push(c * 100 + 4);
    }
    for &y in &years {
        for (m, d) in [(1, 1), (1, 31), (2, 1), (2, 28), (2, 29), (3, 1), (6, 30), (12, 30), (12, 31)] {
            for t in TIMES {
                f(format!("c18 ser {} {} {} {} {} {}", y, m, d, t / 3600, t % 3600 / 60, t % 60));
            }
        }
    }
    // every month end / month start of a leap and a common year
    for y in [1900i64, 2023, 2024] {
        for m in 1..=12 {
            f(format!("c18 ser {} {} 1 0 0 0", y, m));
            f(format!("c18 ser {} {} {} 23 59 59", y, m, dim(y, m)));
        }
    }
    // ---- malformed / out-of-domain arguments (model vs implementation only)
    for (y, m, d, h, mi, s) in [
        (1899i64, 12i64, 31i64, 0i64, 0i64, 0i64),
        (1899, 12, 30, 0, 0, 0),
        (1000, 1, 1, 0, 0, 0),
        (1000, 3, 1, 0, 0, 0),
        (999, 12, 31, 0, 0, 0),
        (100, 3, 1, 0, 0, 0),
        (99, 3, 1, 0, 0, 0),
        (10, 3, 1, 0, 0, 0),
        (9, 3, 1, 0, 0, 0),
        (0, 1, 1, 0, 0, 0),
        (-1, 3, 1, 0, 0, 0),
        (-12, 3, 1, 0, 0, 0),
        (-123, 3, 1, 0, 0, 0),
        (-1234, 3, 1, 0, 0, 0),
        (10000, 1, 1, 0, 0, 0),
        (10000, 3, 1, 0, 0, 0),
        (12345, 6, 7, 0, 0, 0),
        (2147483647, 3, 1, 0, 0, 0),
        (-2147483648, 3, 1, 0, 0, 0),
        (-2147483648, 1, 1, 0, 0, 0),
        (2024, 0, 1, 0, 0, 0),
        (2024, 13, 1, 0, 0, 0),
        (2024, -1, 1, 0, 0, 0),
        (2024, -20, 1, 0, 0, 0),
        (2024, 2147483647, 1, 0, 0, 0),
        (2024, -2147483648, 1, 0, 0, 0),
        (2024, 14035000, 1, 0, 0, 0),
        (2024, 14036000, 1, 0, 0, 0),
        (2024, 2, 30, 0, 0, 0),
        (2023, 2, 29, 0, 0, 0),
        (1900, 2, 29, 0, 0, 0),
        (2024, 4, 31, 0, 0, 0),
        (2024, 1, 0, 0, 0, 0),
        (2024, 1, 32, 0, 0, 0),
        (2024, 1, -5, 0, 0, 0),
        (2024, 1, 2147483647, 0, 0, 0),
        (2024, 1, -2147483648, 0, 0, 0),
        (2024, 1, 1, 24, 0, 0),
        (2024, 1, 1, 23, 60, 0),
        (2024, 1, 1, 23, 59, 60),
        (2024, 1, 1, -1, 0, 0),
        (2024, 1, 1, 0, 0, -1),
        (2024, 1, 1, 596523, 0, 0),
        (2024, 1, 1, 596524, 0, 0),
        (2024, 1, 1, 0, 35791394, 7),
        (2024, 1, 1, 0, 35791394, 8),
        (2024, 1, 1, 0, 35791395, 0),
        (2024, 1, 1, 0, 0, 2147483647),
        (2024, 1, 1, 1, 0, 2147483647),
    ] {
        f(format!("c18 ser {} {} {} {} {} {}", y, m, d, h, mi, s));
    }
    // ---- the day sweep
    if thorough {
        for t in TIMES {
            let mut k = 0i64;
            while k <= LAST_DAY_INDEX {
                let n = (LAST_DAY_INDEX + 1 - k).min(10_000);
                f(format!("c18 bser {} {} {}", k, n, t));
                k += n;
            }
        }
        for (y, m, d) in REP_DAYS {
            let mut s = 0;
            while s < 86400 {
                f(format!("c18 bsec {} {} {} {} 8640", y, m, d, s));
                s += 8640;
            }
        }
    }
    {
        // single-line sweep: every 97th day (quick) / every 9973rd day (thorough; the batches above are exhaustive)
        let stride = if thorough { 9973 } else { 97 };
        let off = (seed % stride as u64) as i64;
        let mut k = if thorough { off } else { 0 };
        let (mut y, mut m, mut d) = civil_of(day_number(1900, 1, 1) + k);
        while k <= LAST_DAY_INDEX {
            for t in TIMES {
                f(format!("c18 ser {} {} {} {} {} {}", y, m, d, t / 3600, t % 3600 / 60, t % 60));
            }
            for _ in 0..stride {
                let nx = next_day(y, m, d);
                y = nx.0;
                m = nx.1;
                d = nx.2;
            }
            k += stride;
        }
        // 9999-12-31 itself
        for t in TIMES {
            f(format!("c18 ser 9999 12 31 {} {} {}", t / 3600, t % 3600 / 60, t % 60));
        }
        // every second of one representative day
        let (y, m, d) = REP_DAYS[(seed % 12) as usize];
        for t in 0..86400i64 {
            f(format!("c18 ser {} {} {} {} {} {}", y, m, d, t / 3600, t % 3600 / 60, t % 60));
        }
    }
    // ---- serial -> date-time on arbitrary serials
    let n_dt = if thorough { 400_000 } else { 40_000 };
    for i in 0..n_dt {
        let x: f64 = match i % 8 {
            0 => rng.range(1, 2958465) as f64 + rng.f64_unit(),
            1 => rng.range(1, 2958465) as f64 + (rng.below(86400) as f64) / 86400.0,
            2 => rng.range(1, 2958465) as f64 + (rng.below(86400) as f64 + 0.25 + 0.2 * rng.f64_unit()) / 86400.0,
            3 => rng.range(1, 70) as f64 + rng.f64_unit(),
            4 => {
                let v = rng.range(1, 2958465) as f64;
                f64::from_bits(v.to_bits() - 1 + rng.below(3))
            }
            5 => rng.range(1, 2958465) as f64 + (rng.below(24) as f64) / 24.0,
            6 => rng.range(1, 2958465) as f64 + (rng.below(1440) as f64) / 1440.0,
            _ => rng.range(40000, 50000) as f64 + rng.f64_unit(),
        };
        f(format!("c18 dt {}", x.to_bits()));
    }
    for x in [
        0.0f64, -0.0, 0.5, 0.99999, 1.0, 1.5, 59.0, 59.99999, 59.999999, 60.0, 60.5, 61.0, 2958465.0, 2958465.99999, 2958466.0,
        -1.0, -0.5, -1.25, -25569.0, 25569.0, 1e7, 4.9e7, 5.1e7, 1e9, 1e18, 1e300, -1e300,
        f64::NAN, f64::INFINITY, f64::NEG_INFINITY, f64::MIN_POSITIVE, 45435.0, 44349.211134259262,
    ] {
        f(format!("c18 dt {}", x.to_bits()));
    }
    // ---- formatted display
    let fstride = if thorough { 7 * 97 } else { 8 * 97 };
    let mut k = 0i64;
    let mut j = 0usize;
    while k <= LAST_DAY_INDEX {
        let (y, m, d) = civil_of(day_number(1900, 1, 1) + k);
        let t = TIMES[j % 5];
        let bits = serial_bits_for(y, m, d, t);
        f(format!("c18 fmt {} {}", hex(FORMATS[0]), bits));
        f(format!("c18 fmt {} {}", hex(FORMATS[1 + j % (FORMATS.len() - 1)]), bits));
        k += fstride;
        j += 1;
    }
    for (y, m, d) in REP_DAYS {
        for t in [0i64, 1, 59, 60, 3599, 3600, 43199, 43200, 46800, 86399] {
            let bits = serial_bits_for(y, m, d, t);
            for fm in FORMATS {
                f(format!("c18 fmt {} {}", hex(fm), bits));
            }
        }
    }
    let (y, m, d) = REP_DAYS[((seed / 12) % 12) as usize];
    let step = if thorough { 1 } else { 9 };
    let mut t = (seed % step as u64) as i64;
    while t < 86400 {
        f(format!("c18 fmt {} {}", hex(FORMATS[0]), serial_bits_for(y, m, d, t)));
        t += step;
    }
    // ---- every SimpleDateCode of C18_simple_codes on a day stream and on a second stream
    // quoted literals around a date code (at the front, at the end, at both ends): the date is still shown
    for (qi, code) in ["\"[\"yyyy-mm-dd\"]\"", "\"on \"yyyy-mm-dd hh:mm:ss\" ok\"", "\"\u{897f}\u{66a6}\"yyyy/m/d\"\u{65e5}\"", "yyyy-mm-dd\" UTC\"", "\"day \"d", "\"(\"h:mm AM/PM\")\"", "\"<\"dddd, mmmm d, yyyy\">\""].iter().enumerate() {
        for (k, day) in [1i64, 59, 61, 36526, 45000, 2958465].iter().enumerate() {
            let x = *day as f64 + [0.0, 0.25, 0.5, 0.75][(qi + k) % 4];
            f(format!("c18 fmt {} {}", hex(code), x.to_bits()));
        }
    }
    for (ci, (code, toks)) in SIMPLE_CODES.iter().enumerate() {
        let text: String = toks.iter().map(tk_text).collect();
        assert_eq!(&text, code, "token list of a simple code does not spell the code");
        let stride: i64 = if thorough { 97 * 8 } else { 97 * 48 };
        let mut k = (ci as i64 * 89 + (seed % 89) as i64) % stride;
        let mut j = ci;
        while k <= LAST_DAY_INDEX {
            let (y, m, d) = civil_of(day_number(1900, 1, 1) + k);
            f(format!("c18 fmt {} {}", hex(code), serial_bits_for(y, m, d, TIMES[j % 5])));
            k += stride;
            j += 1;
        }
        for (y, m, d) in [(1900i64, 1i64, 1i64), (1900, 2, 28), (1900, 3, 1), (9999, 12, 31)] {
            for t in [0i64, 1, 86399] {
                f(format!("c18 fmt {} {}", hex(code), serial_bits_for(y, m, d, t)));
            }
        }
        let (y, m, d) = REP_DAYS[((seed / 12 + ci as u64) % 12) as usize];
        let step: i64 = if thorough { 13 } else { 997 };
        let mut t = ((seed + ci as u64) % step as u64) as i64;
        while t < 86400 {
            f(format!("c18 fmt {} {}", hex(code), serial_bits_for(y, m, d, t)));
            t += step;
        }
    }
    // ---- random members of the syntactic class `SimpleSyntax`
    {
        let mut rng = Rng::new(seed ^ 0x5ca1ab1e);
        let ncodes = if thorough { 4000 } else { 600 };
        for i in 0..ncodes {
            let code = random_syntax_code(&mut rng);
            f(format!("c18 syn {}", hex(&code)));
            // a neighbour of the code: one character replaced, removed or doubled (mostly outside the class)
            {
                let cs: Vec<char> = code.chars().collect();
                let at = rng.below(cs.len() as u64) as usize;
                let mut m: Vec<char> = cs.clone();
                match rng.below(3) {
                    0 => m[at] = *rng.pick(&['/', ':', '.', '-', ' ', 'm', 'd', 'y', 'h', 's']),
                    1 => {
                        m.remove(at);
                    }
                    _ => m.insert(at, cs[at]),
                }
                let m: String = m.into_iter().collect();
                f(format!("c18 syn {}", hex(&m)));
            }
            for _ in 0..3 {
                let k = rng.range(0, LAST_DAY_INDEX as u64) as i64;
                let (y, m, d) = civil_of(day_number(1900, 1, 1) + k);
                let t = match i % 4 {
                    0 => *rng.pick(&[0i64, 1, 3599, 3600, 43199, 43200, 46799, 46800, 86399]),
                    _ => rng.below(86400) as i64,
                };
                f(format!("c18 fmt {} {}", hex(&code), serial_bits_for(y, m, d, t)));
            }
        }
        // the witness of `C18_ampm_case_fails`: 2024-05-23 12:00:00 under built-in 18
        f(format!("c18 fmt {} {}", hex("h:mm AM/PM"), serial_bits_for(2024, 5, 23, 43200)));
    }
    for fm in FORMATS.iter().chain(SIMPLE_CODES.iter().map(|(c, _)| c)).chain(
        ["General", "", "-", " ", "AM/PM", "h AM/PM", "hh mm", "mm", "m/m", "h:mm AM/PM ", "ss/d", "d/m.yy", "yyyymmdd", "é", "dd mm yyyy ", "h:mm:ss AM/PM AM/PM"].iter(),
    ) {
        f(format!("c18 syn {}", hex(fm)));
    }
    for fm in ["General", "@", "0.00", "YYYY-MM-DD", "yyyy\"x\"mm", "[h]:mm", "[$-409]d-mmm-yy", "yyyy%mm", "d\\-m", "", "s", "y", "e", "hh", "mmmmm", "a/p", "yyyy-mm-dd hh:mm:ss.s", "é", "dd mm yyyy "] {
        for x in [45435.0f64, 44349.211134259262, 1.0, 59.5, 61.0, 2958465.999988426] {
            f(format!("c18 fmt {} {}", hex(fm), x.to_bits()));
        }
    }
}

pub fn gen(tier: Tier, seed: u64) -> Vec<String> {
    let mut v = vec![];
    gen_each(tier, seed, &mut |s| v.push(s));
    v
}

fn step(out: &mut Out, op: &str) {
    let kind = op.split(' ').nth(1).unwrap_or("?").to_string();
    out.begin(op);
    let (reply, nt) = exec(out, op);
    out.count(&format!("op.{}", kind));
    if reply == "panic" {
        out.count(&format!("panic.{}", kind));
    }
    out.end(op, &reply, nt);
}

pub fn run(out: &mut Out, tier: Tier, seed: u64, replay: Option<Vec<String>>) {
    match replay {
        Some(r) => {
            for op in r {
                if !op.trim().is_empty() {
                    step(out, &op);
                }
            }
        }
        None => {
            // self-check of the reference calendar (two independent formulations must agree)
            let mut k = 0i64;
            let (mut y, mut m, mut d) = (1900i64, 1i64, 1i64);
            let mut ok = true;
            while k <= LAST_DAY_INDEX {
                if k % 1009 == 0 {
                    ok &= civil_of(day_number(1900, 1, 1) + k) == (y, m, d);
                }
                let nx = next_day(y, m, d);
                y = nx.0;
                m = nx.1;
                d = nx.2;
                k += 1;
            }
            ok &= (y, m, d) == (10000, 1, 1);
            out.notes.push(format!("reference calendar self-check (stepping vs closed form, 1900..9999): {}", if ok { "ok" } else { "FAILED" }));
            if !ok {
                out.oracle_fail(Fail::new("oracle-self-check").with("op", "c18 ser 1900 1 1 0 0 0"));
            }
            let mut f = |op: String| step(out, &op);
            gen_each(tier, seed, &mut f);
        }
    }
}
