//! C06 — sheet list and annotations survive save/reload on the same cells.
//!
//! A case is one workbook (`c06 reset gen <seed>` / `c06 reset file <name>` / `c06 reset witness <id>`),
//! or `c06 reset fuzz <seed> <n>`: n random texts given to `DefinedName::set_address` (model tie only).
//! Oracle (implementation level): the full annotation dump of the workbook equals the dump of the
//! reloaded workbook for each of 5 saves made in this process, the 5 reloads agree with each other,
//! and a second generation (reload -> save -> reload) equals the first reload.
//! Correspondence (model level): the raw artefacts of the first written package — `<sheet name=>`,
//! `<definedName>` texts, `<mergeCell ref>`, `<hyperlink>` + relationship pairs, the comments
//! authors table and `authorId`s — as they stand in the XML, not unescaped, are sent to the Lean
//! model of the string-level codecs together with what the reloaded workbook holds.
//! In a replay only the `c06 reset` lines are acted on; everything else is regenerated.
use crate::c02::corpus_files;
use crate::common::*;
use crate::wb;
use std::collections::BTreeMap;
use umya_spreadsheet::structs::*;

fn corpus_dir() -> String {
    format!("{}/tests/test_files", std::env::var("UMYA_REPO").unwrap_or("/repo".into()))
}

pub const WITNESSES: &[&str] = &["empty-author", "empty-author-second", "tooltip", "name-quotes", "name-two-parts", "name-dq-sheet-two-areas", "name-apostrophes", "header-blank", "active-cell"];

fn witness(id: &str) -> Result<Spreadsheet, String> {
    let mut book = umya_spreadsheet::new_file_empty_worksheet();
    let comment = |cell: (u32, u32), author: &str, text: &str| {
        let mut c = Comment::default();
        c.new_comment(cell);
        c.set_author(author);
        c.set_text_string(text);
        c
    };
    match id {
        "empty-author" => {
            let ws = book.new_sheet("S1").unwrap();
            ws.add_comments(comment((1, 1), "", "t"));
        }
        "empty-author-second" => {
            let ws = book.new_sheet("S1").unwrap();
            ws.add_comments(comment((1, 1), "Ann", "t"));
            ws.add_comments(comment((2, 2), "", "u"));
            ws.add_comments(comment((3, 3), "Bob", "v"));
        }
        "tooltip" => {
            let ws = book.new_sheet("S1").unwrap();
            let mut h = Hyperlink::default();
            h.set_url("https://example.com/");
            h.set_tooltip("tip");
            ws.get_cell_mut((1, 1)).set_hyperlink(h);
        }
        "name-quotes" => {
            let ws = book.new_sheet("S1").unwrap();
            let _ = ws.add_defined_name("N", "\"a\"&\"b\"");
            // the text as a file would carry it: put it in directly
            let _ = ws.add_defined_name("M", "IF(S1!$A$1=\"x\",1,2)");
        }
        "name-two-parts" => {
            let ws = book.new_sheet("S1").unwrap();
            let _ = ws.add_defined_name("_xlnm.Print_Titles", "S1!$A:$B,S1!$1:$2");
        }
        "name-dq-sheet-two-areas" => {
            book.new_sheet("a\"b").unwrap();
            let ws = book.new_sheet("S2").unwrap();
            let _ = ws.add_defined_name("N", "'a\"b'!$A$1,S2!$B$2");
        }
        "name-apostrophes" => {
            book.new_sheet("It's a ''test''").unwrap();
            let ws = book.get_sheet_mut(&0).unwrap();
            let _ = ws.add_defined_name("N", "'It''s a ''''test'''''!$A$1:$B$2,'It''s a ''''test'''''!$C$3");
        }
        "header-blank" => {
            let ws = book.new_sheet("S1").unwrap();
            ws.get_header_footer_mut().get_odd_header_mut().set_value("&CTitle with trailing blank ");
        }
        "active-cell" => {
            // witness of C06_active_cell_fails (known finding C06-worksheet-active-cell-not-saved)
            let ws = book.new_sheet("S1").unwrap();
            ws.set_active_cell("B2");
        }
        _ => return Err(format!("unknown witness {}", id)),
    }
    Ok(book)
}

pub fn book_of(a: &[&str]) -> Result<Spreadsheet, String> {
    match a.get(2).copied().unwrap_or("") {
        "gen" => {
            let seed: u64 = a.get(3).ok_or("seed")?.parse().map_err(|_| "seed")?;
            let mut rng = Rng::new(seed);
            let o = wb::GenOpts { rich: true, ..Default::default() };
            guard(|| wb::gen_book(&mut rng, &o)).map_err(|_| "generator panicked".to_string())
        }
        "file" => {
            let path = format!("{}/{}", corpus_dir(), a.get(3).ok_or("name")?);
            guard(|| umya_spreadsheet::reader::xlsx::read(std::path::Path::new(&path))).map_err(|_| "read panicked".to_string())?.map_err(|e| format!("{:?}", e))
        }
        "witness" => guard(|| witness(a.get(3).copied().unwrap_or(""))).map_err(|_| "witness panicked".to_string())?,
        _ => Err("bad case".into()),
    }
}

fn reload(bytes: &[u8]) -> Result<Spreadsheet, String> {
    match guard(|| umya_spreadsheet::reader::xlsx::read_reader(std::io::Cursor::new(bytes), true)) {
        Ok(Ok(b)) => Ok(b),
        Ok(Err(e)) => Err(format!("{:?}", e)),
        Err(_) => Err("panic".into()),
    }
}

fn part<'a>(parts: &'a [(String, Vec<u8>)], name: &str) -> Option<&'a str> {
    parts.iter().find(|(n, _)| n == name).and_then(|(_, d)| std::str::from_utf8(d).ok())
}

/// start tags `<name ...>` / `<name .../>` of an element, as raw text
fn tags<'a>(xml: &'a str, name: &str) -> Vec<&'a str> {
    let open = format!("<{}", name);
    let mut out = vec![];
    let mut rest = xml;
    while let Some(i) = rest.find(&open) {
        let after = &rest[i + open.len()..];
        let ok = after.starts_with(' ') || after.starts_with('>') || after.starts_with('/');
        match after.find('>') {
            Some(j) => {
                if ok {
                    out.push(&rest[i..i + open.len() + j + 1]);
                }
                rest = &after[j + 1..];
            }
            None => break,
        }
    }
    out
}

fn hex_or_dash(s: Option<&str>) -> String {
    match s {
        Some(v) => format!("={}", hex(v)),
        None => "~".into(),
    }
}

/// defined names in the order the workbook writer emits them
fn names_in_write_order(book: &Spreadsheet) -> Vec<&DefinedName> {
    let mut v: Vec<&DefinedName> = book.get_defined_names().iter().collect();
    for i in 0..book.get_sheet_count() {
        v.extend(book.get_sheet(&i).unwrap().get_defined_names().iter());
    }
    v
}

fn name_key(d: &DefinedName) -> String {
    format!("{}@{}", d.get_name(), if d.has_local_sheet_id() { d.get_local_sheet_id().to_string() } else { "~".into() })
}

fn parts_spec(d: &DefinedName) -> String {
    let (s, a) = d.verif_parts();
    match s {
        Some(t) => format!("s:{}", hex(&t)),
        None => format!("a:{}", a.iter().map(|(sh, r)| format!("{}/{}", hex(sh), hex(r))).collect::<Vec<_>>().join(",")),
    }
}

fn link_items(ws: &Worksheet) -> Vec<String> {
    let mut v = vec![];
    for c in ws.get_cell_collection_sorted() {
        if let Some(h) = c.get_hyperlink() {
            v.push(format!("{}/{}/{}/{}", c.get_coordinate().get_coordinate(), if *h.get_location() { "l" } else { "e" }, hex(h.get_url()), hex(h.get_tooltip())));
        }
    }
    v
}

/// the model-level tie: raw artefacts of the written package against the model of the codecs
fn tie(out: &mut Out, book: &Spreadsheet, parts: &[(String, Vec<u8>)], back: &Spreadsheet) {
    let wbx = match part(parts, "xl/workbook.xml") {
        Some(x) => x,
        None => return,
    };
    let n = book.get_sheet_count();
    // --- sheet list
    {
        let items: Vec<String> = (0..n).map(|i| hex(book.get_sheet(&i).unwrap().get_name())).collect();
        let line = format!("c06 sheetlist {}", if items.is_empty() { "-".to_string() } else { items.join(",") });
        out.begin(&line);
        let raw: Vec<String> = tags(wbx, "sheet").iter().map(|t| hex(attr_of(t, "name").unwrap_or("?"))).collect();
        let rd: Vec<String> = (0..back.get_sheet_count()).map(|i| hex(back.get_sheet(&i).unwrap().get_name())).collect();
        out.end(&line, &format!("w={};r={}", raw.join(","), rd.join(",")), true);
        out.count("tie.sheetlist");
    }
    // --- defined names
    {
        let written = names_in_write_order(book);
        let raw: Vec<&str> = scan_between(wbx, "<definedName ", "</definedName>").into_iter().map(|s| s.splitn(2, '>').nth(1).unwrap_or("")).collect();
        let mut back_by_key: BTreeMap<String, Vec<&DefinedName>> = BTreeMap::new();
        for d in names_in_write_order(back) {
            back_by_key.entry(name_key(d)).or_default().push(d);
        }
        if raw.len() == written.len() {
            for (d, r) in written.iter().zip(raw.iter()) {
                let line = format!("c06 dnw {}", parts_spec(d));
                out.begin(&line);
                out.end(&line, &hex(r), true);
                out.count("tie.dnw");
                match back_by_key.get(&name_key(d)) {
                    Some(v) if v.len() == 1 => {
                        let line = format!("c06 dnr {}", hex(r));
                        out.begin(&line);
                        out.end(&line, &format!("{};text={}", parts_spec(v[0]), hex(&v[0].get_address())), true);
                        out.count("tie.dnr");
                    }
                    _ => out.count("tie.dnr.skipped-ambiguous-key"),
                }
            }
        } else {
            out.count("tie.dn.skipped-count-mismatch");
        }
    }
    for i in 0..n {
        let ws = book.get_sheet(&i).unwrap();
        let sx = match part(parts, &format!("xl/worksheets/sheet{}.xml", i + 1)) {
            Some(x) => x,
            None => continue,
        };
        let rels = part(parts, &format!("xl/worksheets/_rels/sheet{}.xml.rels", i + 1)).unwrap_or("");
        let bws = back.get_sheet(&i);
        // --- merges and auto filter
        let raw_merges = tags(sx, "mergeCell");
        for (k, m) in ws.get_merge_cells().iter().enumerate() {
            let line = format!("c06 range {}", hex(&m.get_range()));
            out.begin(&line);
            let raw = raw_merges.get(k).and_then(|t| attr_of(t, "ref")).unwrap_or("?");
            let rd = bws.and_then(|b| b.get_merge_cells().get(k)).map(|r| r.get_range()).unwrap_or("?".into());
            out.end(&line, &format!("w={};r={}", hex(raw), hex(&rd)), true);
            out.count("tie.merge");
        }
        if let Some(af) = ws.get_auto_filter() {
            let line = format!("c06 range {}", hex(&af.get_range().get_range()));
            out.begin(&line);
            let raw = tags(sx, "autoFilter").first().and_then(|t| attr_of(t, "ref")).unwrap_or("?");
            let rd = bws.and_then(|b| b.get_auto_filter()).map(|a| a.get_range().get_range()).unwrap_or("?".into());
            out.end(&line, &format!("w={};r={}", hex(raw), hex(&rd)), true);
            out.count("tie.autofilter");
        }
        // --- hyperlinks
        let items = link_items(ws);
        if !items.is_empty() {
            // hand the links over in reverse so that the ordering of the walk is the model's business
            let mut shuffled = items.clone();
            shuffled.reverse();
            let line = format!("c06 links {}", shuffled.join(","));
            out.begin(&line);
            let w: Vec<String> = tags(sx, "hyperlink")
                .iter()
                .map(|t| format!("{}/{}/{}/{}", attr_of(t, "ref").unwrap_or("?"), attr_of(t, "r:id").unwrap_or("-"), hex_or_dash(attr_of(t, "location")), hex_or_dash(attr_of(t, "tooltip"))))
                .collect();
            let rl: Vec<String> = tags(rels, "Relationship").iter().filter(|t| attr_of(t, "Type").map(|x| x.ends_with("/hyperlink")).unwrap_or(false)).map(|t| format!("{}/{}", attr_of(t, "Id").unwrap_or("?"), hex(attr_of(t, "Target").unwrap_or("?")))).collect();
            let mut rd = bws.map(link_items).unwrap_or_default();
            rd.sort();
            out.end(&line, &format!("w={};rels={};r={}", w.join(","), rl.join(","), rd.join(",")), true);
            out.count("tie.links");
            out.count_n("tie.links.items", items.len() as u64);
        }
        // --- comments: authors table and authorIds
        if !ws.get_comments().is_empty() {
            let target = tags(rels, "Relationship").iter().find(|t| attr_of(t, "Type").map(|x| x.ends_with("/comments")).unwrap_or(false)).and_then(|t| attr_of(t, "Target")).map(|t| t.trim_start_matches("../").to_string());
            let cx = target.and_then(|t| part(parts, &format!("xl/{}", t)));
            if let Some(cx) = cx {
                let authors_block = scan_between(cx, "<authors>", "</authors>").first().copied().unwrap_or("");
                let mut raw_authors: Vec<String> = vec![];
                // <author>text</author> or <author/>
                let mut rest = authors_block;
                while let Some(i) = rest.find("<author") {
                    let after = &rest[i + 7..];
                    if after.starts_with("/>") {
                        raw_authors.push(String::new());
                        rest = &after[2..];
                    } else if after.starts_with('>') {
                        let j = after.find("</author>").unwrap_or(after.len());
                        raw_authors.push(after[1..j].to_string());
                        rest = &after[j.min(after.len())..];
                    } else {
                        rest = after;
                    }
                }
                let ids: Vec<String> = tags(cx, "comment").iter().map(|t| attr_of(t, "authorId").unwrap_or("?").to_string()).collect();
                // the order of the table is the writer's free choice (a hash set): hand over the observed order, unescaped by a plain reference decoder
                let order: Vec<String> = raw_authors.iter().map(|r| hex(&plain_unescape(r))).collect();
                let items: Vec<String> = ws.get_comments().iter().map(|c| format!("{}/{}", c.get_coordinate().get_coordinate(), hex(c.get_author()))).collect();
                let line = format!("c06 comments {} {}", order.join(","), items.join(","));
                out.begin(&line);
                let rd: Vec<String> = bws.map(|b| b.get_comments().iter().map(|c| format!("{}/{}", c.get_coordinate().get_coordinate(), hex(c.get_author()))).collect()).unwrap_or_default();
                out.end(&line, &format!("authors={};ids={};r={}", raw_authors.iter().map(|a| hex(a)).collect::<Vec<_>>().join(","), ids.join(","), rd.join(",")), true);
                out.count("tie.comments");
                out.count_n("tie.comments.items", items.len() as u64);
                out.count(&format!("tie.comments.authors.{}", raw_authors.len().min(6)));
            }
        }
    }
}

/// the five predefined entities, for handing the observed author order to the model
fn plain_unescape(s: &str) -> String {
    s.replace("&lt;", "<").replace("&gt;", ">").replace("&quot;", "\"").replace("&apos;", "'").replace("&amp;", "&")
}

fn count_dist(out: &mut Out, book: &Spreadsheet) {
    let bucket = |n: usize| match n {
        0 => "0",
        1 => "1",
        2..=5 => "2-5",
        6..=15 => "6-15",
        _ => "16+",
    };
    out.count(&format!("sheets.{}", book.get_sheet_count()));
    let mut names = book.get_defined_names().len();
    for i in 0..book.get_sheet_count() {
        let ws = book.get_sheet(&i).unwrap();
        names += ws.get_defined_names().len();
        out.count(&format!("per-sheet.links.{}", bucket(link_items(ws).len())));
        out.count(&format!("per-sheet.comments.{}", bucket(ws.get_comments().len())));
        out.count(&format!("per-sheet.merges.{}", bucket(ws.get_merge_cells().len())));
        out.count(&format!("per-sheet.dv.{}", bucket(ws.get_data_validations().map(|d| d.get_data_validation_list().len()).unwrap_or(0))));
        out.count(&format!("per-sheet.cf.{}", bucket(ws.get_conditional_formatting_collection().len())));
        out.count(&format!("per-sheet.state.{:?}", ws.get_state()));
        if ws.get_comments().iter().any(|c| c.get_author().is_empty()) {
            out.count("per-sheet.has-empty-author");
        }
        if ws.get_auto_filter().is_some() {
            out.count("per-sheet.autofilter");
        }
        if ws.get_tab_color().is_some() {
            out.count("per-sheet.tabcolor");
        }
        if ws.get_sheet_protection().is_some() {
            out.count("per-sheet.protection");
        }
        if ws.get_sheets_views().get_sheet_view_list().iter().any(|v| v.get_pane().is_some()) {
            out.count("per-sheet.pane");
        }
    }
    out.count(&format!("book.names.{}", bucket(names)));
    if book.get_workbook_protection().is_some() {
        out.count("book.protection");
    }
}

const SAVES: usize = 5;

/// malformed / boundary stream for the defined-name reader (`split_str`, `is_address`, un-doubling,
/// `split_address`, `Range::set_range`): random texts straight into `set_address`, no XML layer
fn fuzz_case(out: &mut Out, header: &str, seed: u64, n: u64) {
    out.begin(header);
    out.end(header, "ok", false);
    out.count("case.fuzz");
    let mut rng = Rng::new(seed);
    let sheets = ["", "", "Sheet1!", "'My Sheet'!", "'It''s'!", "a\"b!", "'a,b'!", "(x)!", "S!T!", "'a(b'!", "'q\"r'!", "[1]S!", "a:b!", "é!", "''!", "'x''!"];
    let noise: Vec<char> = "$AZaz09:!'\",() /*?[]\\".chars().collect();
    for _ in 0..n {
        let areas = if rng.chance(2, 3) { 1 } else { rng.range(2, 3) };
        let mut parts: Vec<String> = vec![];
        for _ in 0..areas {
            let mut t = String::new();
            t.push_str(*rng.pick(&sheets));
            let cells = if rng.chance(1, 2) { 1 } else { 2 };
            for k in 0..cells {
                if k > 0 {
                    t.push(':');
                }
                if rng.chance(1, 2) {
                    t.push('$');
                }
                let clean = rng.chance(3, 4);
                for _ in 0..(if clean { rng.range(1, 3) } else { *rng.pick(&[0u64, 1, 2, 3, 4]) }) {
                    t.push(*rng.pick(if clean { &['A', 'B', 'Z', 'X', 'F'] } else { &['A', 'B', 'Z', 'X', 'a'] }));
                }
                if rng.chance(1, 2) {
                    t.push('$');
                }
                for _ in 0..(if clean { rng.range(1, 7) } else { *rng.pick(&[0u64, 1, 2, 7, 11]) }) {
                    t.push(*rng.pick(&['0', '1', '9', '4']));
                }
            }
            parts.push(t);
        }
        let mut s: Vec<char> = parts.join(",").chars().collect();
        for _ in 0..*rng.pick(&[0u64, 0, 0, 1, 2]) {
            let i = rng.below(s.len() as u64 + 1) as usize;
            s.insert(i, *rng.pick(&noise));
        }
        let text: String = s.into_iter().collect();
        let line = format!("c06 dnset {}", hex(&text));
        out.begin(&line);
        let r = guard(|| {
            let mut ws = Worksheet::default();
            let _ = ws.add_defined_name("X".to_string(), text.clone());
            let d = ws.get_defined_names().first().unwrap().clone();
            format!("{};text={}", parts_spec(&d), hex(&d.get_address()))
        })
        .unwrap_or("panic".into());
        out.count(if r == "panic" { "fuzz.panic" } else if r.starts_with("s:") { "fuzz.text" } else { "fuzz.areas" });
        out.end(&line, &r, true);
    }
}

pub fn run_case(out: &mut Out, header: &str) {
    let a: Vec<&str> = header.split(' ').collect();
    if a.get(2) == Some(&"codec") || a.get(2) == Some(&"codecw") {
        crate::c06codec::run_case(out, header);
        return;
    }
    if matches!(a.get(2), Some(&"cmt") | Some(&"cmtw") | Some(&"cmtf") | Some(&"cmtp")) {
        // comments: text, VML shapes, their join by the cell a note shape names (harness/src/c06cmt.rs)
        crate::c06cmt::run_case(out, header);
        return;
    }
    if matches!(a.get(2), Some(&"nm") | Some(&"nmw")) {
        // where defined names live, after sheet removals / insertions (harness/src/c06names.rs)
        crate::c06names::run_case(out, header);
        return;
    }
    if a.get(2) == Some(&"fuzz") {
        let seed = a.get(3).and_then(|x| x.parse().ok()).unwrap_or(0);
        let n = a.get(4).and_then(|x| x.parse().ok()).unwrap_or(100);
        fuzz_case(out, header, seed, n);
        return;
    }
    if a.get(2) == Some(&"vpp") {
        // view / page / protection codecs (harness/src/c06_view.rs)
        let seed = a.get(3).and_then(|x| x.parse().ok()).unwrap_or(0);
        crate::c06_view::vpp_case(out, header, seed);
        return;
    }
    out.begin(header);
    let book = match book_of(&a) {
        Ok(b) => b,
        Err(e) => {
            out.oracle_fail(Fail::new("case-build-failed").with("op", header).with("detail", e));
            out.end(header, "ok", false);
            return;
        }
    };
    out.end(header, "ok", false);
    out.count(&format!("case.{}", a[2]));
    out.count("programs");
    count_dist(out, &book);
    let d0 = match guard(|| wb::annot_entries(&book)) {
        Ok(d) => d,
        Err(_) => {
            out.oracle_fail(Fail::new("dump-panicked").with("op", header));
            return;
        }
    };
    let mut first: Option<(Vec<u8>, Spreadsheet, Vec<(String, String)>)> = None;
    let mut reported: std::collections::BTreeSet<(String, String)> = Default::default();
    for k in 0..SAVES {
        let bytes = match guard(|| wb::save_bytes(&book, false)) {
            Ok(Ok(b)) => b,
            _ => {
                out.oracle_fail(Fail::new("save-failed").with("op", header).with("save", k.to_string()));
                return;
            }
        };
        let back = match reload(&bytes) {
            Ok(b) => b,
            Err(e) => {
                out.oracle_fail(Fail::new("reload-failed").with("op", header).with("save", k.to_string()).with("detail", e));
                return;
            }
        };
        let dk = guard(|| wb::annot_entries(&back)).unwrap_or_default();
        let diffs = wb::annot_diffs(&d0, &dk);
        if diffs.is_empty() {
            out.oracle_ok();
        }
        for (kind, field, detail) in diffs {
            // one record per (kind, field) and case: the same difference shows in every save
            if reported.insert((kind.clone(), field.clone())) {
                out.oracle_fail(Fail::new("annotation-changed").with("op", header).with("kind", &kind).with("field", &field).with("save", k.to_string()).with("detail", &detail[..detail.len().min(900)]));
                out.count(&format!("changed.{}.{}", kind, field));
            }
        }
        match &first {
            None => first = Some((bytes, back, dk)),
            Some((_, _, d1)) => {
                let dd = wb::annot_diffs(d1, &dk);
                if let Some((kind, field, detail)) = dd.into_iter().next() {
                    out.oracle_fail(Fail::new("reloads-of-two-saves-differ").with("op", header).with("kind", &kind).with("field", &field).with("save", k.to_string()).with("detail", &detail[..detail.len().min(900)]));
                } else {
                    out.oracle_ok();
                }
            }
        }
    }
    let (bytes, back, d1) = first.unwrap();
    // second generation
    match guard(|| wb::save_bytes(&back, false)) {
        Ok(Ok(b2)) => match reload(&b2) {
            Ok(back2) => {
                let d2 = guard(|| wb::annot_entries(&back2)).unwrap_or_default();
                let dd = wb::annot_diffs(&d1, &d2);
                if dd.is_empty() {
                    out.oracle_ok();
                }
                let mut seen: std::collections::BTreeSet<(String, String)> = Default::default();
                for (kind, field, detail) in dd {
                    if seen.insert((kind.clone(), field.clone())) {
                        out.oracle_fail(Fail::new("second-generation-differs").with("op", header).with("kind", &kind).with("field", &field).with("detail", &detail[..detail.len().min(900)]));
                    }
                }
            }
            Err(e) => out.oracle_fail(Fail::new("second-reload-failed").with("op", header).with("detail", e)),
        },
        _ => out.oracle_fail(Fail::new("second-save-failed").with("op", header)),
    }
    // a LAZILY opened copy of the first save, of which only the last sheet is touched (deserialized) before it is saved
    // again: the sheets before it are copied raw with their comments / drawing / table parts under their original names,
    // the touched sheet's parts are numbered afresh; every sheet must keep its own annotations
    if back.get_sheet_count() >= 2 {
        let r = guard(|| -> Result<Vec<(String, String)>, String> {
            let mut lazy = umya_spreadsheet::reader::xlsx::read_reader(std::io::Cursor::new(bytes.clone()), false).map_err(|e| format!("{:?}", e))?;
            let last = lazy.get_sheet_count() - 1;
            lazy.get_sheet_mut(&last).ok_or("no last sheet")?.get_cell_mut((1u32, 1u32));
            let b3 = wb::save_bytes(&lazy, false)?;
            let back3 = reload(&b3)?;
            Ok(wb::annot_entries(&back3))
        });
        out.count("lazy-resave.last-sheet-touched");
        match r {
            Ok(Ok(d3)) => {
                let dd = wb::annot_diffs(&d1, &d3);
                if dd.is_empty() {
                    out.oracle_ok();
                }
                let mut seen: std::collections::BTreeSet<(String, String)> = Default::default();
                for (kind, field, detail) in dd {
                    if seen.insert((kind.clone(), field.clone())) {
                        out.oracle_fail(Fail::new("lazy-resave-differs").with("op", header).with("kind", &kind).with("field", &field).with("detail", &detail[..detail.len().min(900)]));
                    }
                }
            }
            Ok(Err(e)) => out.oracle_fail(Fail::new("lazy-resave-failed").with("op", header).with("detail", e)),
            Err(_) => out.oracle_fail(Fail::new("lazy-resave-failed").with("op", header).with("detail", "panic")),
        }
    }
    // the dump itself goes to the evidence stream (informational for the model: echoed)
    if let Ok(parts) = unzip_all(&bytes) {
        let _ = guard(|| tie(out, &book, &parts, &back));
    }
}

pub fn gen(tier: Tier, seed: u64) -> Vec<String> {
    let mut rng = Rng::new(seed ^ 0xC06);
    let mut v = vec![];
    for w in WITNESSES {
        v.push(format!("c06 reset witness {}", w));
    }
    let n = if tier == Tier::Thorough { 1000 } else { 80 };
    for _ in 0..n {
        v.push(format!("c06 reset gen {}", rng.next() % 1_000_000_007));
    }
    for (i, f) in corpus_files(tier == Tier::Thorough).iter().enumerate() {
        if tier == Tier::Thorough || i % 5 == 0 {
            v.push(format!("c06 reset file {}", f));
        }
    }
    for _ in 0..(if tier == Tier::Thorough { 40 } else { 4 }) {
        v.push(format!("c06 reset fuzz {} 1000", rng.next() % 1_000_000_007));
    }
    for _ in 0..(if tier == Tier::Thorough { 3000 } else { 250 }) {
        v.push(format!("c06 reset vpp {}", rng.next() % 1_000_000_007));
    }
    v.extend(crate::c06codec::gen(tier, &mut rng));
    v.extend(crate::c06cmt::gen(tier, &mut rng));
    v.extend(crate::c06names::gen(tier, &mut rng));
    v
}

pub fn run(out: &mut Out, tier: Tier, seed: u64, replay: Option<Vec<String>>) {
    let headers: Vec<String> = match replay {
        Some(r) => r.into_iter().filter(|l| l.starts_with("c06 reset ")).collect(),
        None => gen(tier, seed),
    };
    for h in headers {
        run_case(out, &h);
    }
}
